"""C14 - JSON lines output round-trips and is plain JSON (DESIGN section 4, C14)."""
from __future__ import annotations

import json
import math
import os
import pathlib
import random
import shutil
import struct
import subprocess
import tempfile

from .. import gen, observe, probes
from ..core import subseed

ID = "C14"
TITLE = "JSON adapter round trip and plain-JSON output"
LEVEL = "exploration"
RULE = (
    "cases = generated record sequences (1-13 records over 1-3 descriptors whose fields are drawn from the field types "
    "the statement lists for JSON: text (string, wstring), integers of any size (varint, filesize, uint16, uint32, "
    "unix_file_mode), float, boolean, datetime, bytes, digest, net.ipaddress, net.ipnetwork, uri, POSIX path, and T[] of "
    "each) written by the real JsonfileWriter under one of 6 configurations (descriptors on/off x indent None/0/2), the "
    "options given either as a jsonfile:// URI query or as keyword arguments next to a plain x.json / x.jsonl path, or in "
    "BOTH with conflicting values (the explicit keyword argument wins on the pinned code, also an explicit indent=None); "
    "enumerated part: every cell field type x value class (none/empty/boundary/extreme/random/hostile: 10**40, NaN/inf, "
    "surrogate escapes, NUL, 70000-char text, empty lists) is forced into the first record of a sequence under rotating "
    "configurations; plus the same-name family: 2-3 descriptors that share their NAME but not their field list (a field kept with another "
    "type, disjoint fields, reordered, superset, prefix), interleaved in every order of length 2-4 (130 orders, the same for "
    "every seed) under the read-back, the fallback and one indented configuration; the identifier-coincident family: 2-3 descriptors with "
    "the same name AND the same 32-bit identifier hash but different field lists (adjacent fields (t1,n1),(t2,n2) merged into "
    "(t2, n1+t1+n2)), same interleavings plus A A B B A B, through ONE writer; the grouped family: GroupedRecords of 1-3 "
    "members sharing some field names, distinct metadata per member, expected = the flat view computed from the members "
    "(first member wins a shared name; first member's metadata; record name = group name); the cross-name family: 2-3 types "
    "with DIFFERENT names and the SAME 32-bit descriptor hash (characters moved between the tail of the type name and the "
    "head of the first field name), same interleavings, flat / nested in a holder's record and record[] fields / inside "
    "a grouped record; write histories: (1) ONE record "
    "object written 2-8 times with field assignments, in-place list operations (typed elements) and digest slot "
    "assignments between the writes, random flushes, one more modification after the last write, through JsonfileWriter "
    "itself, RecordWriter(x.json / x.jsonl / jsonfile://) and (sampled) rdump -w jsonfile:// - expected line k = the "
    "observation taken at the k-th write() call; (2) records the encoder refuses (integer beyond "
    "sys.get_int_max_str_digits(), also inside varint[]; a set legacy net.ipv4.Address field; a nested record whose type is "
    "first seen inside the failing record) in the patterns BG, BGG, BBG, GBG, BOG, BGOG, OBGB (B refused, G good record of "
    "that type, O other type) with the application catching the exception - expected = every record whose write() "
    "returned, in order; (3) descriptor turnover: one type NAME in 8 layouts (boolean fields at other positions / the same "
    "position with another type), one descriptor object per layout and round created, written through a fresh writer, "
    "released and garbage-collected, 16 rounds, one writer alive throughout; the rest are random mixes.  Reading: every "
    "file written without indent is read through the text path and (sampled) a .gz / .bz2 copy named with the jsonfile:// "
    "scheme, a binary file object given to RecordReader('jsonfile://', fileobj=...), stdin of a child process, and through "
    "reader-usage histories (peek then iterate again; iterate partly, break, iterate again; one corrupt record line - "
    "truncated or garbage - with the application catching the error and iterating the same reader again: the records "
    "of all intact lines come back once, in order).  Tier sizes: quick = 6 configurations, interleavings up to length 4 (130 "
    "orders), 7 refusal patterns, rewrite histories of 2-8 writes, 16 turnover rounds x 3 layouts, second reading route and "
    "reader usage sampled; thorough = 12 configurations (indent 1, 4, 8 added), interleavings up to length 5 (400 orders), "
    "EVERY refusal pattern of length 2-5 over B/G/O with a refused and a good record (300), rewrite histories up to 300 "
    "writes (across the 256-record mark of a batching writer), 48 turnover rounds x 5 layouts, sequences of up to 90 records "
    "over up to 8 descriptors, grouped records of up to 6 members, gen's 1 MiB / 65536-element pools for the first "
    "repetition of every 'extreme' cell, and every file read through ALL routes (text, .gz, .bz2, binary file object) plus "
    "a reader-usage history.  Oracle: (a) the raw text splits into standalone documents with "
    "json.JSONDecoder.raw_decode, each accepted by a strict RFC 8259 parser (NaN/Infinity tokens refused, duplicate keys "
    "refused) - one document per line without indent, multi-line documents indented by the requested width with indent; "
    "(b) the record documents correspond 1:1, in order, to the records written, their keys are the record's fields in "
    "order plus the metadata fields, plus _type/_recorddescriptor exactly when descriptors are enabled; every other "
    "document is a record descriptor; (c) descriptors on, no indent: deep canonical observation of what RecordReader "
    "yields equals that of what was written (typed-list/digest None == empty default, every NaN equal); (d) descriptors "
    "off: text/integer/float/boolean/unset fields appear as the JSON string/number/true/false/null with the written "
    "value, and without indent RecordReader yields one record per line carrying those values.  A case is non-trivial "
    "when at least one record was written and all its documents were parsed; distinct = distinct (kind, cell, "
    "configuration, sub-seed).  Record.__eq__ is never used."
)
ASSUMPTIONS = [
    "only the field types the statement lists are generated: no windows paths, commands, dynamic, dictlist, stringlist, "
    "nested records (except the holder of the cross-name family, whose record / record[] fields round-trip on the pinned code), net.ipv4.*, net.tcp/udp.Port (JSON cannot distinguish them by design or the statement does not promise them)",
    "JSON has one NaN: all NaN bit patterns are treated as the same value (payload / sign of a NaN is not demanded)",
    "reading back is demanded only without indentation: the reader works line by line and the statement promises one "
    "document per line only when no indentation is requested; with indent (0 or 2) the text is only parsed and its keys checked",
    "with descriptors disabled only scalar text / integer / float / boolean / unset fields are compared at the JSON level "
    "and through the plain-JSON fallback reader (the statement says 'the same scalar JSON values')",
    "jq (when /usr/bin/jq exists) is run on a sample of files as a second standard parser for document boundaries and key "
    "order; its absence is recorded, not judged; jq 1.6 itself accepts NaN/Infinity tokens so it is not the strictness oracle",
    "grouped records: member field names never equal a GroupedRecord attribute (name, records, descriptors, flat_fields, "
    "fieldname_to_record), which would shadow the member field (C15's finding); members are plain records, not nested groups",
    "write histories: in-place list changes insert elements already converted to the element type (list.append itself "
    "does not convert - C05's subject); a refused record is one whose write() raises (if the tree accepts it the case is "
    "abandoned and counted, not judged); the rdump path compares against what the intermediate stream file holds",
    "reading a JSON file object WITHOUT the jsonfile:// scheme, a .gz path without the scheme, and writing to jsonfile://x.json.gz "
    "are refused by the pinned code (no adapter detection for JSON, text written to a binary compressor) and are not demanded",
    "reader-usage histories corrupt record lines only (a lost descriptor line makes later records of its type undecodable by design)",
    "values come from the pools in verif/gen.py (lone surrogates outside U+DC80-DCFF and sub-second UTC offsets are not generated)",
]
SHARDS = {"quick": 8, "thorough": 16}
BUDGET_S = {"quick": 150, "thorough": 3000}

TEXT_TYPES = ("string", "wstring")
INT_TYPES = ("varint", "filesize", "uint16", "uint32", "unix_file_mode")
SCALAR_JSON_TYPES = TEXT_TYPES + INT_TYPES + ("float", "boolean")
SUPPORTED_SCALARS = list(SCALAR_JSON_TYPES) + ["datetime", "bytes", "digest", "net.ipaddress", "net.ipnetwork", "uri", "path"]
SUPPORTED = SUPPORTED_SCALARS + [t + "[]" for t in SUPPORTED_SCALARS]
META_KEYS = ("_source", "_classification", "_generated", "_version")
MARKER_KEYS = ("_type", "_recorddescriptor")
CONFIGS = [(d, i) for d in (True, False) for i in (None, 0, 2)]
# thorough tier only (appended: the indices of the six DESIGN configurations stay): more indent widths
CONFIGS += [(d, i) for d in (True, False) for i in (1, 4, 8)]
INDENTED_QUICK = (1, 2, 4, 5)
INDENTED_DEEP = (1, 2, 4, 5, 6, 7, 8, 9, 10, 11)


def indented(ctx, i):
    pool = INDENTED_QUICK if ctx.quick else INDENTED_DEEP
    return pool[i % len(pool)]


def fail_patterns(deep):
    """B = refused record, G = good record of that type, O = good record of another type.  quick: 7 hand-picked
    patterns; thorough: EVERY pattern of length 2..5 with at least one refused and one good record (300)."""
    if not deep:
        return ["BG", "BGG", "BBG", "GBG", "BOG", "BGOG", "OBGB"]
    import itertools

    return ["".join(p) for n in (2, 3, 4, 5) for p in itertools.product("BGO", repeat=n) if "B" in p and len(set(p)) > 1]
JQ = "/usr/bin/jq"

ANCHORS = [
    "flow.record.jsonpacker:JsonRecordPacker.pack_obj",
    "flow.record.jsonpacker:JsonRecordPacker.unpack_obj",
    "flow.record.jsonpacker:JsonRecordPacker.pack",
    "flow.record.jsonpacker:JsonRecordPacker.unpack",
    "flow.record.adapter.jsonfile:JsonfileWriter.write",
    "flow.record.adapter.jsonfile:JsonfileReader.__iter__",
]

POSIX_HOSTILE = [("posix", "/sur\udcff\udc80"), ("posix", "a\x00b"), ("posix", "\n"), ("pure-posix", "/x/y"), ("str", "/plain/str"),
                 ("posix", "\\tmp\\foo"), ("posix", "c:\\not\\windows")]


class JBuilder(gen.Builder):
    """gen.Builder restricted to what JSON output supports: path values are POSIX paths only."""

    def value(self, ftype, vc, depth=0):
        if ftype == "path":
            rng = self.rng
            if vc == "none":
                return None
            if vc == "empty":
                raw = ("posix", "")
            elif vc == "hostile":
                raw = rng.choice(POSIX_HOSTILE)
            else:
                raw = ("posix", rng.choice(gen.POSIX_PATHS))
            return gen.materialise("path", raw)
        return super().value(ftype, vc, depth)


def build_sequence(seed, thorough, focus=None, deep=False):
    rng = random.Random(seed)
    b = JBuilder(rng, thorough=thorough, max_depth=0)
    extreme = bool(focus and focus[1] == "extreme")
    n_descs = 1 if extreme else rng.choice([1, 1, 2, 3, 5, 8] if deep else [1, 1, 2, 3])
    descs = []
    for i in range(n_descs):
        must = [focus[0]] if (focus and i == 0) else []
        nf = rng.choice([0, 1, 2, 3, 4, 6] if extreme else [0, 1, 2, 3, 4, 6, 9, 12])
        descs.append(b.descriptor(must=must, nfields=max(nf, len(must)), types=SUPPORTED))
    n_records = 2 if extreme else rng.choice([1, 2, 3, 5, 8, 13, 21, 40, 90] if deep else [1, 2, 3, 5, 8, 13])
    records = []
    for j in range(n_records):
        d = descs[0] if (focus and j == 0) else rng.choice(descs)
        f = None
        if focus and j == 0:
            fname = next(n for t, n in d.get_field_tuples() if t == focus[0])
            f = {fname: focus[1]}
        records.append(b.record(d, focus=f))
    return records


def same_name_orders(maxlen=4):
    """Every interleaving of length 2..maxlen of 2 or 3 same-name descriptors that uses at least two of them
    (maxlen 4: 130 orders, quick; maxlen 5: 400 orders, thorough)."""
    import itertools

    return [(k, list(seq)) for k in (2, 3) for n in range(2, maxlen + 1) for seq in itertools.product(range(k), repeat=n) if len(set(seq)) >= 2]


def _other_type(rng, t):
    for _ in range(50):
        u = rng.choice(SUPPORTED)
        if u != t:
            return u
    return "varint" if t != "varint" else "string"


def build_same_name(seed, k, order):
    """Records of `k` descriptors that share their NAME but differ in their field lists (so only the hash part of the
    descriptor identifier tells them apart), interleaved as `order` says.  Variants: a field name kept with another
    type, disjoint field names, the same fields in another order, a superset, a prefix."""
    rng = random.Random(seed)
    b = JBuilder(rng, thorough=False, max_depth=0)
    name = gen.rand_typename(rng)
    names = gen.unique_names(rng, 12)
    n1 = rng.randint(1, 4)
    base = [(rng.choice(SUPPORTED), names[i]) for i in range(n1)]
    lists = [base]
    spare = names[n1:]
    modes = []
    while len(lists) < k:
        mode = rng.choice(["retype-one", "retype-all", "disjoint", "reorder", "superset", "prefix", "overlap-plus-disjoint"])
        src = rng.choice(lists)
        if not src and mode not in ("disjoint", "superset"):
            mode = "disjoint"  # a descriptor without fields (a 'prefix' of a one-field list) can only be extended
        if mode == "retype-one":
            j = rng.randrange(len(src))
            new = [(_other_type(rng, t), n) if i == j else (t, n) for i, (t, n) in enumerate(src)]
        elif mode == "retype-all":
            new = [(_other_type(rng, t), n) for t, n in src]
        elif mode == "disjoint":
            m = rng.randint(1, 3)
            new = [(rng.choice(SUPPORTED), spare.pop()) for _ in range(m)]
        elif mode == "reorder":
            new = list(reversed(src))
        elif mode == "superset":
            new = list(src) + [(rng.choice(SUPPORTED), spare.pop())]
        elif mode == "prefix":
            new = list(src[:-1])
        else:
            new = [(_other_type(rng, src[0][0]), src[0][1]), (rng.choice(SUPPORTED), spare.pop())]
        if new in lists:
            continue  # same field list = same descriptor: try another variant
        lists.append(new)
        modes.append(mode)
    from flow.record import RecordDescriptor

    descs = [RecordDescriptor(name, fl) for fl in lists]
    return [b.record(descs[i]) for i in order], modes


MERGEABLE = [t for t in SUPPORTED_SCALARS if t.isidentifier()]  # type names that may become part of a field name
GROUP_ATTRS = ("name", "records", "descriptors", "flat_fields", "fieldname_to_record")


def build_coincident(seed, k, order):
    """Records of `k` descriptors with the same name AND the same 32-bit identifier hash but different field lists.
    The hash input is the plain concatenation name + (fieldname + fieldtype)..., so merging two adjacent fields
    (t1, n1), (t2, n2) into (t2, n1 + t1 + n2) keeps it.  -> (records, None) or (None, reason) when the tree under test
    does not give the variants one identifier (then the family has nothing to say)."""
    from flow.record import RecordDescriptor

    rng = random.Random(seed)
    b = JBuilder(rng, thorough=False, max_depth=0)
    name = gen.rand_typename(rng)
    n = rng.randint(k, 4)
    types = [rng.choice(MERGEABLE) for _ in range(n - 1)] + [rng.choice(SUPPORTED)]
    letters = "abcdefghijkmnpqrstuvwxyz"
    names = []
    while len(names) < n:
        x = rng.choice(letters) + rng.choice(["", rng.choice(letters), "_" + rng.choice(letters)])
        if x not in names and not gen.keyword_like(x):
            names.append(x)
    base = list(zip(types, names))

    def merge(fl, p):
        return fl[:p] + [(fl[p + 1][0], fl[p][1] + fl[p][0] + fl[p + 1][1])] + fl[p + 2:]

    lists = [base, merge(base, rng.randrange(n - 1))]
    if k == 3:
        third = merge(lists[1], rng.randrange(len(lists[1]) - 1)) if rng.random() < 0.5 else None
        if third is None or third in lists:
            for p in range(n - 1):
                third = merge(base, p)
                if third not in lists:
                    break
        lists.append(third)
    if len({tuple(fl) for fl in lists}) != k:
        return None, "variants not distinct"
    descs = [RecordDescriptor(name, fl) for fl in lists]
    if len({d.identifier for d in descs}) != 1:
        return None, "identifiers differ on this tree"
    return [b.record(descs[i]) for i in order], None


def build_crossname(seed, k, order, shape):
    """Records of `k` types with DIFFERENT names and the SAME 32-bit descriptor hash (the hash input is name + field
    name + field type... without separators, so characters can move between the tail of the type name and the head of the
    first field name: 'px/dir' + 'ectory' == 'px/direc' + 'tory'), interleaved as `order` says.
    shape 'flat': the records themselves; 'nested': a holder record carrying them in a record and a record[] field, then
    the flat ones; 'grouped': a grouped record of the first ones, then the flat ones.
    -> (records, expected observations or None, reason-or-None)"""
    from flow.record import GroupedRecord, RecordDescriptor

    rng = random.Random(seed)
    b = JBuilder(rng, thorough=False, max_depth=0)
    letters = "abcdefghijkmnpqrstuvwxyz"
    base = gen.rand_typename(rng) + "/" + "".join(rng.choice(letters) for _ in range(rng.randint(1, 3)))
    moving = ["".join(rng.choice(letters) for _ in range(rng.randint(1, 3))) for _ in range(k - 1)]
    fname = "".join(rng.choice(letters) for _ in range(rng.randint(1, 4)))
    rest = [(rng.choice(SUPPORTED), "z%d" % i) for i in range(rng.randint(0, 3))]
    first_type = rng.choice(SUPPORTED)
    descs = []
    for v in range(k):
        # v chunks stay in the type name, the others lead the first field name
        name = base + "".join(moving[:v])
        first = "".join(moving[v:]) + fname
        if gen.keyword_like(first) or gen.keyword_like(name.rpartition("/")[2]):
            return None, None, "keyword"
        descs.append(RecordDescriptor(name, [(first_type, first)] + rest))
    if len({d.name for d in descs}) != k or len({d.identifier[1] for d in descs}) != 1:
        return None, None, "hashes differ on this tree"
    flat = [b.record(descs[i]) for i in order]
    if shape == "flat":
        return flat, None, None
    if shape == "nested":
        H = RecordDescriptor(gen.rand_typename(rng), [("record", "a"), ("varint", "n"), ("record[]", "l")])
        holder = H.recordType(a=b.record(descs[order[0]]), n=len(order), l=[b.record(descs[i]) for i in order[1:]])
        holder2 = H.recordType(a=b.record(descs[order[-1]]), n=0, l=[])
        return [holder] + flat + [holder2], None, None
    members = [b.record(descs[i]) for i in order[:3]]
    gname = gen.rand_typename(rng)
    recs = [GroupedRecord(gname, members)] + flat
    exp = [expected_flat(gname, members)] + [observe.normalise(observe.obs(r)) for r in flat]
    return recs, exp, None


def expected_flat(gname, members):
    """Observation of the FLAT view of a grouped record, computed from the members themselves: fields in first-seen
    order, a shared field name takes the first member's type and value, metadata are the first member's."""
    fields, values = [], {}
    for m in members:
        mo = observe.obs(m)
        sl = observe.slots_of(mo)
        for t, n in mo[2]:
            if n not in values:
                values[n] = sl[n]
                fields.append([t, n])
    first = observe.slots_of(observe.obs(members[0]))
    slots = [[n, values[n]] for _, n in fields] + [[k, first[k]] for k in META_KEYS]
    return observe.normalise(["rec", str(gname), fields, slots])


def build_grouped(seed, deep=False):
    """1-4 records, most of them GroupedRecords of 1-3 members over the JSON-supported types; members share some field
    names (with other values and sometimes other types) and carry distinct metadata.  -> (records, expected observations)"""
    import datetime as _dt

    from flow.record import GroupedRecord, RecordDescriptor

    rng = random.Random(seed)
    b = JBuilder(rng, thorough=False, max_depth=0)
    pool = gen.unique_names(rng, 7, avoid=GROUP_ATTRS)
    records, expected = [], []
    for _ in range(rng.choice([1, 2, 3, 4])):
        if rng.random() < 0.2:
            r = b.record(b.descriptor(nfields=rng.randint(0, 4), types=SUPPORTED, allow_keyword=False))
            records.append(r)
            expected.append(observe.normalise(observe.obs(r)))
            continue
        members = []
        for i in range(rng.randint(1, 6 if deep else 3)):
            fnames = rng.sample(pool, rng.randint(1, 4))
            d = RecordDescriptor(gen.rand_typename(rng), [(rng.choice(SUPPORTED), fn) for fn in fnames])
            m = b.record(d)
            m._source = "member%d-source" % i
            m._classification = "class%d" % i
            m._generated = _dt.datetime(2001 + i, 2, 3, 4, 5, 6, 7 + i, tzinfo=_dt.timezone.utc)
            members.append(m)
        gname = gen.rand_typename(rng)
        expected.append(expected_flat(gname, members))
        records.append(GroupedRecord(gname, members))
    return records, expected


def cells():
    return [(t, vc) for t in SUPPORTED for vc in gen.classes_for(t)]


def setup(ctx):
    import flow.record.adapter.jsonfile  # noqa: F401  (loaded lazily by RecordWriter; import before attaching probes)

    ctx.state["reach"] = probes.Reach(ANCHORS)
    ctx.state["tmp"] = tempfile.mkdtemp(prefix="frv-c14-", dir=os.environ.get("VERIF_TMP", "/var/tmp"))
    ctx.state["jq"] = os.path.exists(JQ)
    ctx.note("jq_available", ctx.state["jq"])


def teardown(ctx):
    ctx.state["reach"].stop()
    shutil.rmtree(ctx.state["tmp"], ignore_errors=True)


def generate(ctx):
    idx = 0
    reps = ctx.scale(6, 24)
    allcells = cells()
    for rep in range(reps):
        for t, vc in allcells:
            if vc == "extreme" and rep > 1:
                continue
            # every cell meets the read-back configuration (0), the fallback configuration (3) and one indented one
            cfg = (0, 3, indented(ctx, idx + rep // 3))[rep % 3]
            if ctx.mine(idx):
                yield {"k": "cell", "t": t, "vc": vc, "cfg": cfg, "via": ("uri", "path", "both", "pathl")[(idx // 7 + rep) % 4],
                       "s": subseed("c14", ctx.seed, "cell", t, vc, rep), "big": bool(not ctx.quick and vc == "extreme" and rep == 0)}
            idx += 1
    # same-name family: every interleaving of 2..4 records of 2-3 descriptors that share a name but not a field list,
    # under the read-back configuration, the fallback configuration and one indented configuration
    idx = 0
    for rep in range(ctx.scale(1, 3)):
        for j, (k, order) in enumerate(same_name_orders(ctx.scale(4, 5))):
            for cfg in (0, 3, indented(ctx, j + rep)):
                if ctx.mine(idx + 5):
                    yield {"k": "same", "kk": k, "order": order, "cfg": cfg, "via": ("uri", "path", "pathl")[(j + rep) % 3],
                           "s": subseed("c14", ctx.seed, "same", k, tuple(order), rep)}
                idx += 1
    # identifier-coincident family: same name AND same hash, different field lists, every interleaving (+ A A B B A B)
    idx = 0
    for rep in range(ctx.scale(1, 3)):
        for j, (k, order) in enumerate(same_name_orders(ctx.scale(4, 5)) + [(2, [0, 0, 1, 1, 0, 1]), (3, [0, 0, 1, 1, 2, 0, 1, 2])]):
            for cfg in (0, 3, indented(ctx, j + rep)):
                if ctx.mine(idx + 2):
                    yield {"k": "coin", "kk": k, "order": order, "cfg": cfg, "via": ("uri", "path", "pathl")[(j + rep + 1) % 3],
                           "s": subseed("c14", ctx.seed, "coin", k, tuple(order), rep)}
                idx += 1
    # write histories (1): one record object written repeatedly, modified between the writes
    vias = ("uri", "path", "pathl", "direct", "both")
    for i in range(ctx.scale(40, 300)):
        cfg = (0, 3, 0, 3, indented(ctx, i))[(i + ctx.shard) % 5]
        yield {"k": "rewrite", "cfg": cfg, "via": vias[(i + ctx.shard) % 5], "rdump": bool(i % 10 == 0 and cfg in (0, 3)),
               "s": subseed("c14", ctx.seed, "rewrite", ctx.shard, i), "deep": not ctx.quick}
    # write histories (2): records the encoder refuses, the application carries on with the same writer
    idx = 0
    for rep in range(ctx.scale(2, 3)):
        for fk in ("hugeint", "hugeint-list", "legacy-ip", "nested"):
            for j, pat in enumerate(fail_patterns(not ctx.quick)):
                for cfg in (0, 3, indented(ctx, j + rep)):
                    if ctx.mine(idx + 1):
                        yield {"k": "fail", "fk": fk, "pat": pat, "cfg": cfg, "via": vias[(j + rep + idx) % 5],
                               "s": subseed("c14", ctx.seed, "fail", fk, pat, cfg, rep)}
                    idx += 1
    # descriptor turnover: one type name, changing layouts, descriptors released and their addresses re-used
    for i in range(ctx.scale(4, 12)):
        yield {"k": "turnover", "cfg": (0, 3)[(i + ctx.shard) % 2], "rounds": ctx.scale(16, 48), "n": ctx.scale(3, 5), "via": "direct",
               "s": subseed("c14", ctx.seed, "turnover", ctx.shard, i)}
    # cross-name family: DIFFERENT type names, SAME descriptor hash; flat, nested in record / record[], grouped
    idx = 0
    for rep in range(ctx.scale(1, 3)):
        for j, (k, order) in enumerate(same_name_orders(ctx.scale(4, 5)) + [(2, [0, 1, 0]), (2, [0, 0, 1, 1, 0, 1])]):
            for cfg in (0, 3, indented(ctx, j + rep)):
                if ctx.mine(idx + 3):
                    yield {"k": "cross", "kk": k, "order": order, "shape": ("flat", "nested", "grouped", "flat")[(j + rep) % 4], "cfg": cfg,
                           "via": ("uri", "path", "pathl")[(j + rep + 2) % 3], "s": subseed("c14", ctx.seed, "cross", k, tuple(order), rep)}
                idx += 1
    # grouped records: stored as their flat view
    for i in range(ctx.scale(30, 250)):
        yield {"k": "group", "cfg": (0, 3, 0, 3, indented(ctx, i))[(i + ctx.shard) % 5], "via": ("uri", "path", "pathl")[i % 3],
               "s": subseed("c14", ctx.seed, "group", ctx.shard, i), "deep": not ctx.quick}
    nmix = ctx.scale(150, 1000)
    for i in range(nmix):
        yield {"k": "mix", "cfg": (i + ctx.shard) % (6 if ctx.quick else len(CONFIGS)), "via": ("uri", "path", "pathl", "both")[i % 4],
               "s": subseed("c14", ctx.seed, "mix", ctx.shard, i), "deep": not ctx.quick}


# ---- strict / lenient JSON parsing --------------------------------------------------------------------
class Rejected(ValueError):
    pass


class Dup:
    """Marker raised through object_pairs_hook for an object with a repeated key."""


def _pairs_strict(pairs):
    d = {}
    for k, v in pairs:
        if k in d:
            raise Rejected("duplicate key %r" % (k,))
        d[k] = v
    return d


def _refuse_constant(name):
    raise Rejected("non-RFC-8259 token %s" % name)


class NonFinite:
    def __init__(self, token):
        self.token = token

    def __repr__(self):
        return "<token %s>" % self.token


STRICT = json.JSONDecoder(parse_constant=_refuse_constant, object_pairs_hook=_pairs_strict)
LENIENT = json.JSONDecoder(parse_constant=NonFinite, object_pairs_hook=_pairs_strict)


def split_documents(text):
    """Split the text into standalone documents with the lenient decoder (NaN tokens tolerated so that they can be
    classified afterwards).  -> [(start, end, value)], error-or-None."""
    docs = []
    pos, n = 0, len(text)
    while True:
        while pos < n and text[pos] in " \t\r\n":
            pos += 1
        if pos >= n:
            return docs, None
        try:
            val, end = LENIENT.raw_decode(text, pos)
        except (ValueError, RecursionError) as e:
            return docs, "%s at offset %d: %r" % (e, pos, text[pos:pos + 80])
        docs.append((pos, end, val))
        pos = end


def find_nonfinite(v, path=()):
    """Yield (path, token) for every NaN / Infinity / -Infinity token in a leniently parsed value."""
    if isinstance(v, NonFinite):
        yield path, v.token
    elif isinstance(v, dict):
        for k, x in v.items():
            yield from find_nonfinite(x, path + (k,))
    elif isinstance(v, list):
        for i, x in enumerate(v):
            yield from find_nonfinite(x, path + (i,))


def _float_of(o):
    return struct.unpack(">d", bytes.fromhex(o[1]))[0]


def token_for(x):
    if x != x:
        return "NaN"
    if x == math.inf:
        return "Infinity"
    if x == -math.inf:
        return "-Infinity"
    return None


def nonfinite_is_the_known_mechanism(path, token, types, wslots):
    """The narrow classifier of json-nonfinite-float-tokens: the token sits exactly at a float field (or at an element
    of a float[] field) whose written value is the corresponding non-finite float."""
    if not path or path[0] not in types:
        return False
    t = types[path[0]]
    w = wslots.get(path[0])
    # the same mechanism inside a nested record (holder of the cross-name family): follow record / record[] fields down
    if t == "record" and isinstance(w, list) and len(w) == 4 and w[0] == "rec":
        return nonfinite_is_the_known_mechanism(path[1:], token, {n: ty for ty, n in w[2]}, observe.slots_of(w))
    if t == "record[]" and len(path) >= 2 and isinstance(path[1], int) and isinstance(w, list) and w[0] == "list" and path[1] < len(w[2]):
        e = w[2][path[1]]
        if isinstance(e, list) and len(e) == 4 and e[0] == "rec":
            return nonfinite_is_the_known_mechanism(path[2:], token, {n: ty for ty, n in e[2]}, observe.slots_of(e))
        return False
    if t == "float" and len(path) == 1:
        return isinstance(w, list) and w[0] == "float" and token_for(_float_of(w)) == token
    if t == "float[]" and len(path) == 2 and isinstance(path[1], int):
        if not (isinstance(w, list) and w[0] == "list" and path[1] < len(w[2])):
            return False
        e = w[2][path[1]]
        return isinstance(e, list) and e[0] == "float" and token_for(_float_of(e)) == token
    return False


def nanfix(o):
    """All NaN bit patterns -> one value (JSON has a single NaN token at best).  Only slot values are rewritten."""
    if isinstance(o, list) and len(o) == 4 and o[0] == "rec":
        return ["rec", o[1], o[2], [[k, nanfix(v)] for k, v in o[3]]]
    if isinstance(o, list):
        if len(o) == 2 and o[0] == "float" and isinstance(o[1], str):
            x = _float_of(o)
            return ["float", "nan"] if x != x else o
        return [nanfix(x) for x in o]
    return o


def scalar_expectation(wobs):
    """Written scalar observation -> (kind, value) as JSON would carry it, or None when the field is not a plain scalar."""
    if wobs is None:
        return ("null", None)
    if wobs[0] == "str":
        return ("str", wobs[2])
    if wobs[0] == "int":
        return ("int", wobs[2])
    if wobs[0] == "boolean":
        return ("bool", wobs[1])
    if wobs[0] == "float":
        return ("float", wobs[1])
    return None


def json_scalar(v):
    """Kind and value of a strictly / leniently parsed JSON scalar."""
    if v is None:
        return ("null", None)
    if isinstance(v, bool):
        return ("bool", v)
    if isinstance(v, int):
        return ("int", v)
    if isinstance(v, float):
        return ("float", observe.f64hex(v))
    if isinstance(v, str):
        return ("str", v)
    if isinstance(v, NonFinite):
        return ("float", {"NaN": "nan", "Infinity": observe.f64hex(math.inf), "-Infinity": observe.f64hex(-math.inf)}[v.token])
    return ("other", type(v).__name__)


def same_scalar(exp, got):
    if exp[0] == "float" and got[0] == "float":
        a = exp[1]
        if a != "nan":
            x = struct.unpack(">d", bytes.fromhex(a))[0]
            a = "nan" if x != x else a
        return a == got[1]
    return exp == got


# ---- the case -------------------------------------------------------------------------------------------
def open_writer(ctx, case, descriptors, indent):
    """-> (writer, path, description of how it was opened).  via: 'uri' (jsonfile:// with a query), 'path' / 'pathl'
    (x.json / x.jsonl with keyword arguments) through RecordWriter, 'direct' = JsonfileWriter itself."""
    from flow.record import RecordWriter

    via = case["via"]
    ext = ".jsonl" if via == "pathl" else ".json"
    path = os.path.join(ctx.state["tmp"], "c%d%s" % (ctx.evaluations, ext))
    kwargs = {}
    if via == "direct":
        from flow.record.adapter.jsonfile import JsonfileWriter

        kwargs = {"indent": indent, "descriptors": descriptors}
        return JsonfileWriter(path, **kwargs), path, {"target": "JsonfileWriter(<tmp>/%s)" % os.path.basename(path), "kwargs": kwargs}
    if via == "both":
        # both sources given with CONFLICTING values: the explicit keyword argument wins over the URI query (pinned
        # behaviour, also for an explicit indent=None); which of the options are in conflict varies with the sub-seed
        r = random.Random(case["s"] ^ 0x5EED)
        q = []
        mode = r.choice(["descriptors", "indent", "both", "both"])
        if mode in ("descriptors", "both"):
            q.append("descriptors=%s" % (r.choice(["false", "0", "False"]) if descriptors else r.choice(["true", "1", "True"])))
            kwargs["descriptors"] = descriptors
        elif not descriptors:
            kwargs["descriptors"] = False
        if mode in ("indent", "both"):
            q.append("indent=%d" % r.choice([x for x in (0, 2, 4) if x != indent]))
            kwargs["indent"] = indent
        elif indent is not None:
            kwargs["indent"] = indent
        r.shuffle(q)
        target = "jsonfile://" + path + "?" + "&".join(q)
    elif via == "uri":
        q = []
        if indent is not None:
            q.append("indent=%d" % indent)
        if not descriptors:
            q.append("descriptors=%s" % random.Random(case["s"]).choice(["false", "False", "0"]))
        elif case["s"] % 3 == 0:
            q.append("descriptors=true")
        target = "jsonfile://" + path + ("?" + "&".join(q) if q else "")
    else:
        target = path
        if indent is not None:
            kwargs["indent"] = indent
        if not descriptors:
            kwargs["descriptors"] = False
    return RecordWriter(target, **kwargs), path, {"target": target.replace(ctx.state["tmp"], "<tmp>"), "kwargs": kwargs}


def write_records(ctx, case, records, descriptors, indent):
    """-> (path, description of how the writer was opened).  Uses the real RecordWriter."""
    w, path, how = open_writer(ctx, case, descriptors, indent)
    try:
        for r in records:
            w.write(r)
        w.flush()
    finally:
        w.close()
    return path, how


# ---- write histories: a re-used record object, records that cannot be serialised -------------------------
def _hexs(rng, nbytes):
    return "".join(rng.choice("0123456789abcdef") for _ in range(nbytes * 2))


def mutate_record(rng, b, rec):
    """What a producer re-using one record object does between two writes: assign other values to some fields (the
    assignment converts to the field type), change a list value in place (typed elements), set a digest slot in place."""
    tuples = rec._desc.get_field_tuples()
    done = []
    for _ in range(rng.randint(1, 3)):
        t, n = rng.choice(tuples)
        cur = getattr(rec, n)
        r = rng.random()
        if t.endswith("[]") and cur is not None and r < 0.6:
            et = type(cur).__type__
            op = rng.choice(["append", "pop", "clear", "reverse", "setitem", "extend"])
            if op in ("pop", "setitem") and not len(cur):
                op = "append"

            def elem():
                v = b.value(t[:-2], "random")
                return v if isinstance(v, et) else et(v)

            if op == "append":
                cur.append(elem())
            elif op == "extend":
                cur.extend([elem(), elem()])
            elif op == "pop":
                cur.pop()
            elif op == "clear":
                del cur[:]
            elif op == "reverse":
                cur.reverse()
            else:
                cur[rng.randrange(len(cur))] = elem()
            done.append("%s:list-%s" % (n, op))
        elif t == "digest" and cur is not None and r < 0.6:
            which = rng.choice(["md5", "sha1", "sha256"])
            setattr(cur, which, _hexs(rng, {"md5": 16, "sha1": 20, "sha256": 32}[which]))
            done.append("%s:digest-%s" % (n, which))
        else:
            vcs = [c for c in gen.classes_for(t) if c != "extreme"]
            setattr(rec, n, b.value(t, rng.choice(vcs)))
            done.append("%s:assign" % n)
    return done


def history_rewrite(ctx, case, w, note):
    """The same record object written again and again, modified between the writes (and once more after the last
    write, before close).  -> observations taken at the moment of each write() call, in order."""
    from flow.record import RecordDescriptor

    rng = random.Random(case["s"])
    b = JBuilder(rng, thorough=False, max_depth=0)
    d = b.descriptor(nfields=rng.randint(1, 6), types=SUPPORTED, allow_keyword=False)
    names = [n for _, n in d.get_field_tuples()]
    seqname = "seq" if "seq" not in names else "seq_%d" % len(names)
    d = RecordDescriptor(d.name, [("varint", seqname)] + list(d.get_field_tuples()))
    rec = b.record(d)
    other = b.record(b.descriptor(nfields=rng.randint(1, 3), types=SUPPORTED, allow_keyword=False))
    written = []
    stream = note.get("stream")
    # thorough: long histories too, across the 256-record mark a batching writer would use
    n = rng.choice([2, 3, 5, 8, 20, 64, 257, 300] if case.get("deep") else [2, 3, 5, 8])
    for i in range(n):
        setattr(rec, seqname, i)
        if i:
            for m in mutate_record(rng, b, rec):
                ctx.event("rewrite_mutation:" + m.split(":")[1])
        observe.assert_typed(rec, "re-used record")
        written.append(observe.normalise(observe.obs(rec)))
        w.write(rec)
        if stream is not None:
            stream.write(rec)
        if rng.random() < 0.15:
            w.flush()
            ctx.event("rewrite_flush_between_writes")
        if rng.random() < 0.25:
            written.append(observe.normalise(observe.obs(other)))
            w.write(other)
            if stream is not None:
                stream.write(other)
    # a producer that marks / recycles the object after its last write
    setattr(rec, seqname, -1)
    mutate_record(rng, b, rec)
    ctx.event("rewrite_writes_of_the_same_object", n)
    return written


def history_failing(ctx, case, w, note):
    """An application that skips records the JSON encoder refuses: write() raises, it carries on with the same
    writer.  Patterns: B = record that cannot be serialised, G = good record of the type B belongs to (for 'nested':
    of the type first seen INSIDE the failing record), O = good record of another type."""
    import sys

    from flow.record import RecordDescriptor

    rng = random.Random(case["s"])
    b = JBuilder(rng, thorough=False, max_depth=0)
    kind = case["fk"]
    limit = sys.get_int_max_str_digits() if hasattr(sys, "get_int_max_str_digits") else 0
    if kind in ("hugeint", "hugeint-list", "nested") and not limit:
        ctx.event("failing_history_skipped_no_int_digit_limit")
        return None
    huge = 10 ** (limit + 10) if limit else None
    names = gen.unique_names(rng, 4)
    if kind == "hugeint":
        D = b.descriptor(must=["varint"], nfields=rng.randint(1, 4), types=SUPPORTED, allow_keyword=False)
        fname = next(n for t, n in D.get_field_tuples() if t == "varint")

        def bad():
            r = b.record(D)
            setattr(r, fname, huge * rng.choice([1, -1]))
            return r

        def good():
            return b.record(D)
    elif kind == "hugeint-list":
        D = b.descriptor(must=["varint[]"], nfields=rng.randint(1, 4), types=SUPPORTED, allow_keyword=False)
        fname = next(n for t, n in D.get_field_tuples() if t == "varint[]")

        def bad():
            r = b.record(D)
            setattr(r, fname, [1, huge, 2])
            return r

        def good():
            return b.record(D)
    elif kind == "legacy-ip":
        base = b.descriptor(nfields=rng.randint(1, 3), types=SUPPORTED, allow_keyword=False)
        legacy = "legacy_ip" if "legacy_ip" not in [n for _, n in base.get_field_tuples()] else "legacy_ip_2"
        fl = list(base.get_field_tuples())
        fl.insert(rng.randrange(len(fl) + 1), ("net.ipv4.Address", legacy))
        D = RecordDescriptor(base.name, fl)

        def bad():
            r = b.record(D, focus={legacy: "none"})
            setattr(r, legacy, "10.0.0.%d" % rng.randrange(1, 250))
            return r

        def good():
            return b.record(D, focus={legacy: "none"})
    else:  # nested: the type of the good records is first seen inside the failing record
        N = b.descriptor(nfields=rng.randint(1, 3), types=SUPPORTED, allow_keyword=False)
        R = RecordDescriptor(gen.rand_typename(rng), [("record", names[0]), ("varint", names[1])])

        def bad():
            return R.recordType(**{names[0]: b.record(N), names[1]: huge})

        def good():
            return b.record(N)
    O = b.descriptor(nfields=rng.randint(1, 3), types=SUPPORTED, allow_keyword=False)
    written = []
    for ch in case["pat"]:
        if ch == "B":
            r = bad()
            try:
                w.write(r)
            except Exception as e:  # noqa: BLE001 - the application skips what cannot be serialised
                ctx.event("failing_writes_refused")
                ctx.event("failing_write_exception:" + type(e).__name__)
                continue
            ctx.event("failing_history_abandoned_bad_record_was_accepted")
            note["abandon"] = True
            return None
        r = good() if ch == "G" else b.record(O)
        observe.assert_typed(r, "written")
        written.append(observe.normalise(observe.obs(r)))
        w.write(r)  # an exception here is a violation: reported by the caller
        ctx.event("writes_after_a_refused_record")
    return written


def run_rdump(ctx, src, dst_uri):
    """rdump <src> -w <dst_uri> in a subprocess against the tree under test.  -> (returncode, stderr tail) or None"""
    import sys

    repo = os.environ.get("VERIF_REPO", "/repo")
    code = ("import sys\n"
            "repo = %r\n"
            "import os\n"
            "if os.path.realpath(repo) != '/repo' or os.environ.get('VERIF_FORCE_PATH'):\n"
            "    sys.path.insert(0, repo)\n"
            "from flow.record.tools.rdump import main\n"
            "sys.exit(main(sys.argv[1:]) or 0)\n") % repo
    try:
        p = subprocess.run([sys.executable, "-W", "ignore", "-c", code, src, "-w", dst_uri], capture_output=True, text=True, timeout=120)
    except subprocess.TimeoutExpired:
        ctx.require(False, "rdump subprocess exceeded its 120 s watchdog")
        return None
    return p.returncode, p.stderr[-1500:]


TURNOVER_LAYOUTS = [
    [("boolean", "a"), ("varint", "b")],
    [("varint", "a"), ("boolean", "b")],
    [("string", "a"), ("boolean", "c"), ("varint", "b")],
    [("varint", "a"), ("varint", "b"), ("boolean", "c")],
    [("boolean", "a"), ("boolean", "b")],
    [("varint", "a"), ("varint", "b")],
    [("boolean[]", "a"), ("varint", "c"), ("boolean", "b")],
    [("varint", "c"), ("boolean", "a")],
]


def execute_turnover(ctx, case):
    """One process creates and RELEASES descriptors of one type NAME with different layouts (boolean fields at other
    positions, the same position with another type) across several writers: create, write, close, drop, gc, many rounds,
    with one writer alive throughout.  Descriptor objects that land on an address a released one had are written first:
    bookkeeping keyed on object identity would take them for the old layout."""
    import gc

    from flow.record import RecordDescriptor, RecordReader

    descriptors, indent = CONFIGS[case["cfg"]]
    cfgname = "desc=%s/indent=%s" % ("on" if descriptors else "off", indent)
    rng = random.Random(case["s"])
    ctx.ev()
    name = "turn/t%x" % (case["s"] & 0xFFFFF)
    files = []  # [path, how, written]
    old_ids = set()
    reused = 0
    try:
        try:
            from flow.record.adapter.jsonfile import JsonfileWriter

            p0new = os.path.join(ctx.state["tmp"], "t%d-alive.json" % ctx.evaluations)
            w0 = JsonfileWriter(p0new, indent=indent, descriptors=descriptors)
            files.append([p0new, {"target": "JsonfileWriter(<tmp>) alive during all rounds", "kwargs": {}}, []])
            from flow.record import RecordWriter

            order = list(range(len(TURNOVER_LAYOUTS)))
            rng.shuffle(order)
            occupant = {}  # address -> layout index of the released descriptor that lived there
            for rnd in range(case["rounds"]):
                # a record carries the descriptor object that was created LAST for its (name, layout); so every round
                # creates one descriptor per layout it uses, writes, and releases them all together with the writer
                k = case["n"]
                lay = [order[(rnd + j) % len(order)] for j in range(k)]
                descs = [RecordDescriptor(name, TURNOVER_LAYOUTS[li]) for li in lay]
                for d_, li in zip(descs, lay):
                    if occupant.get(id(d_), li) != li:
                        reused += 1
                newpath = os.path.join(ctx.state["tmp"], "t%d-r%d.json" % (ctx.evaluations, rnd))
                if rnd % 2:
                    w = RecordWriter("jsonfile://" + newpath + ("" if descriptors else "?descriptors=false"))
                else:
                    w = JsonfileWriter(newpath, indent=indent, descriptors=descriptors)
                written = []
                files.append([newpath, {"target": "writer of round %d" % rnd, "kwargs": {}}, written])
                for i in range(2):
                    for d, li in zip(descs, lay):
                        kw = {}
                        for t, fn in TURNOVER_LAYOUTS[li]:
                            if t == "boolean":
                                kw[fn] = rng.choice([True, False, None])
                            elif t == "boolean[]":
                                kw[fn] = [rng.choice([True, False]) for _ in range(rng.randint(0, 3))]
                            elif t == "varint":
                                kw[fn] = rng.choice([0, 1, 2, 7 + i, -3, 2**70, None])
                            else:
                                kw[fn] = "s%d" % i
                        rec = d.recordType(**kw)
                        written.append(observe.normalise(observe.obs(rec)))
                        w.write(rec)
                        if i == 0 and d is descs[0] and rnd % 5 == 0:
                            files[0][2].append(written[-1])
                            w0.write(rec)  # the long-lived writer keeps this descriptor alive
                w.flush()
                w.close()
                for d_, li in zip(descs, lay):
                    occupant[id(d_)] = li
                del descs, d, d_, rec, w
                gc.collect()
            w0.flush()
            w0.close()
        except Exception as e:  # noqa: BLE001
            ctx.violation(None, "descriptor turnover: writing valid records raised %s" % type(e).__name__,
                          detail={"exception": repr(e)[:400], "config": cfgname, "case": case})
            return
        ctx.event("turnover_cases")
        ctx.event("turnover_descriptor_objects_at_a_previously_used_address", reused)
        for path, how, written in files:
            with open(path, "r", encoding="utf-8", newline="") as f:
                text = f.read()
            ph = [None] * len(written)
            check_text(ctx, case, ph, written, text, descriptors, indent, cfgname, how)
            base = {"config": cfgname, "opened": how}
            try:
                rd = RecordReader(path)
                got = [observe.normalise(observe.obs(r)) for r in rd]
                rd.close()
            except Exception as e:  # noqa: BLE001
                ctx.violation(None, "descriptor turnover: reading the file raised %s" % type(e).__name__, detail=dict(base, exception=repr(e)[:300]))
                continue
            compare_read_obs(ctx, got, written, descriptors, base, "turnover")
            ctx.event("turnover_records", len(written))
        ctx.event("config:" + cfgname)
        ctx.nontrivial("turnover", case["cfg"], case["rounds"], case["n"], case["s"])
        ctx.sample({"case": case, "reused_addresses": reused, "files": len(files)}, kind="turnover:" + cfgname)
    finally:
        for path, _, _ in files:
            try:
                os.unlink(path)
            except OSError:
                pass


def execute_history(ctx, case):
    from flow.record import RecordReader, RecordWriter

    descriptors, indent = CONFIGS[case["cfg"]]
    cfgname = "desc=%s/indent=%s" % ("on" if descriptors else "off", indent)
    ctx.ev()
    kind = case["k"]
    note = {}
    spath = None
    try:
        w, path, how = open_writer(ctx, case, descriptors, indent)
    except Exception as e:  # noqa: BLE001
        ctx.violation(None, "opening the JSON writer raised %s" % type(e).__name__, detail={"exception": repr(e)[:300], "config": cfgname})
        return
    try:
        if case.get("rdump"):
            spath = path + ".src.records"
            note["stream"] = RecordWriter(spath)
        try:
            try:
                written = (history_rewrite if kind == "rewrite" else history_failing)(ctx, case, w, note)
                w.flush()
            finally:
                w.close()
                if note.get("stream") is not None:
                    note["stream"].flush()
                    note["stream"].close()
        except Exception as e:  # noqa: BLE001
            ctx.violation(None, "%s history: writing / closing raised %s" % (kind, type(e).__name__),
                          detail={"exception": repr(e)[:400], "config": cfgname, "opened": how, "case": case})
            return
        if written is None:
            return
        with open(path, "r", encoding="utf-8", newline="") as f:
            text = f.read()
        placeholders = [None] * len(written)
        check_text(ctx, case, placeholders, written, text, descriptors, indent, cfgname, how)
        if indent is None:
            check_read(ctx, RecordReader, path, case, placeholders, written, descriptors, cfgname, how, text)
        ctx.event("history:%s" % kind)
        ctx.event("history_records_expected", len(written))
        ctx.cell("history", kind, case.get("fk", "-"), case.get("pat", "-"), cfgname, case["via"])
        if spath is not None and indent is None:
            # the same sequence through `rdump <stream> -w jsonfile://...`: expected = what the stream file holds
            rd = RecordReader(spath)
            try:
                src = [observe.normalise(observe.obs(r)) for r in rd]
            finally:
                rd.close()
            out = path + ".rdump.json"
            res = run_rdump(ctx, spath, "jsonfile://" + out + ("" if descriptors else "?descriptors=false"))
            if res is not None:
                ctx.event("rdump_runs")
                if res[0] != 0 or not os.path.exists(out):
                    ctx.violation(None, "rdump -w jsonfile:// failed on a valid record stream", detail={"returncode": res[0], "stderr": res[1], "config": cfgname})
                else:
                    try:
                        with open(out, "r", encoding="utf-8", newline="") as f:
                            rtext = f.read()
                        rhow = {"target": "rdump <stream> -w jsonfile://<tmp>/out.json", "kwargs": {}}
                        check_text(ctx, case, [None] * len(src), src, rtext, descriptors, None, cfgname + "/rdump", rhow)
                        check_read(ctx, RecordReader, out, case, [None] * len(src), src, descriptors, cfgname + "/rdump", rhow, rtext)
                        ctx.event("rdump_records_compared", len(src))
                    finally:
                        try:
                            os.unlink(out)
                        except OSError:
                            pass
        ctx.event("config:" + cfgname)
        ctx.event("via:" + case["via"])
        if written:
            ctx.nontrivial(kind, case.get("fk"), case.get("pat"), case["cfg"], case["via"], case["s"])
        ctx.sample({"case": case, "config": cfgname, "opened": how, "first_lines": text[:300]}, kind=kind + ":" + cfgname)
    finally:
        for pth in (path, spath):
            if pth:
                try:
                    os.unlink(pth)
                except OSError:
                    pass


def execute(ctx, case):
    from flow.record import RecordReader

    if case["k"] in ("rewrite", "fail"):
        return execute_history(ctx, case)
    if case["k"] == "turnover":
        return execute_turnover(ctx, case)
    descriptors, indent = CONFIGS[case["cfg"]]
    focus = (case["t"], case["vc"]) if case["k"] == "cell" else None
    # JSON has no length classes (unlike msgpack): the 1 MiB strings / 65536-element lists of gen's thorough mode add
    # nothing here, so both tiers use the quick-size pools (70000-char strings, 3000-element lists); thorough = more cases
    modes = None
    written = None
    if case["k"] == "same":
        records, modes = build_same_name(case["s"], case["kk"], case["order"])
    elif case["k"] == "coin":
        records, why = build_coincident(case["s"], case["kk"], case["order"])
        if records is None:
            ctx.event("coincident_family_skipped:" + why)
            return
    elif case["k"] == "cross":
        records, written, why = build_crossname(case["s"], case["kk"], case["order"], case["shape"])
        if records is None:
            ctx.event("cross_name_family_skipped:" + why)
            return
    elif case["k"] == "group":
        records, written = build_grouped(case["s"], bool(case.get("deep")))
    else:
        big = bool(case.get("big"))  # thorough, first repetition of an 'extreme' cell: gen's 1 MiB / 65536-element pools
        records = build_sequence(case["s"], thorough=big, focus=focus, deep=bool(case.get("deep")))
    ctx.ev()
    cfgname = "desc=%s/indent=%s" % ("on" if descriptors else "off", indent)
    for r in records:
        observe.assert_typed(r, "written")
    snapshot = [observe.obs(r) for r in records]
    if written is None:
        written = [observe.normalise(o) for o in snapshot]
    try:
        path, how = write_records(ctx, case, records, descriptors, indent)
    except Exception as e:  # noqa: BLE001 - every generated record is within the supported class
        ctx.violation(None, "writing supported records with the JSON adapter raised %s" % type(e).__name__,
                      detail={"exception": repr(e)[:400], "config": cfgname, "records": describe(records)})
        return
    try:
        with open(path, "r", encoding="utf-8", newline="") as f:
            text = f.read()
        if [observe.obs(r) for r in records] != snapshot:
            ctx.violation(None, "writing to JSON mutated the record", detail={"config": cfgname})
        ok = check_text(ctx, case, records, written, text, descriptors, indent, cfgname, how)
        if ctx.state["jq"] and ok and ctx.evaluations % 4 == 0:
            check_with_jq(ctx, path, text, cfgname)
        if indent is None:
            check_read(ctx, RecordReader, path, case, records, written, descriptors, cfgname, how, text)
        else:
            ctx.event("read_back_not_demanded_with_indent")
    finally:
        try:
            os.unlink(path)
        except OSError:
            pass
    ctx.event("config:" + cfgname)
    ctx.event("via:" + case["via"])
    ctx.event("records_written", len(records))
    if case["k"] == "cross":
        ctx.event("cross_name_same_hash_sequences")
        ctx.cell("cross-name", case["shape"], "k=%d" % case["kk"], "len=%d" % len(case["order"]), cfgname)
    if case["k"] == "coin":
        ctx.event("coincident_sequences")
        ctx.cell("coincident", "k=%d" % case["kk"], "len=%d" % len(case["order"]), cfgname)
    if case["k"] == "group":
        ctx.event("grouped_sequences")
        ctx.event("grouped_records_written", sum(1 for o in snapshot if o[0] == "grouped"))
        ctx.cell("grouped", cfgname)
    if modes is not None:
        ctx.event("same_name_sequences")
        ctx.cell("same-name", "k=%d" % case["kk"], "len=%d" % len(case["order"]), cfgname)
        for m in modes:
            ctx.event("same_name_variant:" + m)
    if focus:
        ctx.cell(focus[0], focus[1])
        ctx.cell("cfg", cfgname, focus[0].endswith("[]") and "list" or "scalar")
    if records:
        ctx.nontrivial(case["k"], case.get("t"), case.get("vc"), case.get("kk"), tuple(case.get("order", ())), case["cfg"], case["via"], case["s"])
    ctx.sample({"case": case, "config": cfgname, "opened": how, "first_lines": text[:300]}, kind=case["k"] + ":" + cfgname)


def describe(records, limit=4):
    out = []
    for r in records[:limit]:
        try:
            out.append(repr(observe.obs(r))[:600])
        except Exception as e:  # noqa: BLE001
            out.append("<obs raised %s>" % type(e).__name__)
    return out


def check_text(ctx, case, records, written, text, descriptors, indent, cfgname, how):
    """(a) and (b) of the oracle, (d) at the JSON level.  -> True when every document was parsed."""
    base = {"config": cfgname, "opened": how}
    docs, err = split_documents(text)
    if err is not None:
        ctx.violation(None, "the JSON adapter's output is not a sequence of standalone JSON documents",
                      detail=dict(base, error=err, documents_before=len(docs)))
        return False
    ctx.event("documents_parsed", len(docs))
    if text and not text.endswith("\n"):
        ctx.violation(None, "the last JSON document is not terminated by a newline", detail=dict(base, tail=text[-60:]))

    # layout: one document per line without indent; multi-line, indented members with indent
    if indent is None:
        lines = text.split("\n")
        if lines and lines[-1] == "":
            lines.pop()
        ctx.event("lines_checked", len(lines))
        if len(lines) != len(docs) or any(text[s:e] != ln for (s, e, _), ln in zip(docs, lines)):
            ctx.violation(None, "without indentation the output is not exactly one JSON document per line",
                          detail=dict(base, lines=len(lines), documents=len(docs)))
    else:
        for s, e, val in docs:
            raw = text[s:e]
            if isinstance(val, dict) and val:
                rl = raw.split("\n")
                pad = " " * indent
                good = len(rl) >= 3 and rl[0] == "{" and rl[-1] == "}" and rl[1].startswith(pad + '"') and all(
                    ln.startswith(pad) and (len(ln) > len(pad)) for ln in rl[1:-1])
                ctx.event("indented_documents_checked")
                if not good:
                    ctx.violation(None, "indentation was requested but a document is not laid out with the requested indent",
                                  detail=dict(base, document=raw[:300], indent=indent))
                    break

    # strict RFC 8259 acceptance per document; classification of NaN / Infinity tokens happens per record below
    strict_rejected = {}
    for k, (s, e, val) in enumerate(docs):
        try:
            sval, send = STRICT.raw_decode(text, s)
            if send != e:
                raise Rejected("strict parser stopped at %d instead of %d" % (send, e))
            ctx.event("documents_strict_ok")
        except (Rejected, ValueError) as ex:
            strict_rejected[k] = str(ex)

    rec_docs, other = [], []
    for k, (s, e, val) in enumerate(docs):
        if not isinstance(val, dict):
            ctx.violation(None, "a JSON document in the output is not an object", detail=dict(base, document=text[s:e][:200]))
            return True
        if val.get("_type") == "recorddescriptor":
            other.append((k, val))
        else:
            rec_docs.append((k, val))
    if not descriptors and other:
        ctx.violation(None, "descriptors are disabled but a record descriptor document was written",
                      detail=dict(base, document=repr(other[0][1])[:300]))
    for k, val in other:
        ctx.event("descriptor_documents")
        if sorted(val.keys()) != ["_data", "_type"] or not (isinstance(val["_data"], list) and len(val["_data"]) == 2):
            ctx.violation(None, "a record descriptor document does not have the keys _type, _data", detail=dict(base, keys=list(val.keys())))
        if k in strict_rejected:
            ctx.violation(None, "a record descriptor document is rejected by a strict JSON parser", detail=dict(base, error=strict_rejected[k]))
    if len(rec_docs) != len(records):
        ctx.violation(None, "%d records written but %d record documents in the output" % (len(records), len(rec_docs)), detail=base)
        return True
    if descriptors:
        # every record document is preceded by a descriptor document carrying its name and field list; and the LATEST
        # preceding descriptor document with the record's identifier (name + reference hash of the field list, computed
        # independently of the library) is that one - otherwise a reader working line by line rebuilds the record with
        # another field list (identifier-coincident descriptors in one file)
        from ..refcodec import descriptor_hash

        seen = []
        latest = {}
        oi = 0
        for (k, val), w in zip(rec_docs, written):
            while oi < len(other) and other[oi][0] < k:
                data = other[oi][1].get("_data")
                seen.append(data)
                try:
                    latest[(data[0], descriptor_hash(data[0], [(t, n) for t, n in data[1]]))] = data
                except Exception:  # noqa: BLE001 - malformed descriptor document: reported above
                    pass
                oi += 1
            want = [w[1], w[2]]
            if want not in seen:
                ctx.violation(None, "a record document is not preceded by a document with its record descriptor",
                              detail=dict(base, descriptor=want, seen=seen[:5]))
                break
            marker = val.get("_recorddescriptor")
            if isinstance(marker, list) and len(marker) == 2 and isinstance(marker[0], str) and (marker[0], marker[1]) in latest:
                ctx.event("descriptor_in_force_checked")
                if latest[(marker[0], marker[1])] != want:
                    ctx.violation(None, "the descriptor document in force for a record document's identifier is another descriptor's",
                                  detail=dict(base, descriptor=want, in_force=latest[(marker[0], marker[1])], identifier=marker))
                    break

    for (k, val), r, w in zip(rec_docs, records, written):
        ctx.event("record_documents_checked")
        types = {n: t for t, n in w[2]}
        wslots = observe.slots_of(w)
        fields = [n for _, n in w[2]]
        keys = list(val.keys())
        plain = [x for x in keys if not x.startswith("_")]
        under = [x for x in keys if x.startswith("_")]
        if plain != fields:
            ctx.violation(None, "keys of a record document are not the record's fields in order",
                          detail=dict(base, keys=keys, fields=fields))
            continue
        has_markers = [m for m in MARKER_KEYS if m in under]
        if descriptors and (len(has_markers) != 2 or val.get("_type") != "record"):
            ctx.violation(None, "descriptors are enabled but a record document lacks the type markers", detail=dict(base, keys=keys))
        if not descriptors and has_markers:
            ctx.violation(None, "descriptors are disabled but a record document carries type markers", detail=dict(base, keys=keys))
        extra = [x for x in under if x not in META_KEYS and x not in MARKER_KEYS]
        if extra:
            ctx.violation(None, "a record document has keys that are neither fields, metadata fields nor type markers",
                          detail=dict(base, keys=keys, fields=fields))
        if descriptors and isinstance(val.get("_recorddescriptor"), list) and val["_recorddescriptor"][:1] != [w[1]]:
            ctx.violation(None, "_recorddescriptor of a record document does not name the record's descriptor",
                          detail=dict(base, marker=val.get("_recorddescriptor"), name=w[1]))

        # strictness: NaN / Infinity tokens
        nonfinite = list(find_nonfinite(val))
        if k in strict_rejected:
            if nonfinite and all(nonfinite_is_the_known_mechanism(p, tok, types, wslots) for p, tok in nonfinite):
                ctx.violation("json-nonfinite-float-tokens", "a strict RFC 8259 parser rejects a record document: non-finite float written as a bare token",
                              detail=dict(base, tokens=[[list(p), tok] for p, tok in nonfinite][:5], error=strict_rejected[k]))
                ctx.event("documents_with_nonfinite_float_tokens")
            else:
                ctx.violation(None, "a strict JSON parser rejects a record document",
                              detail=dict(base, error=strict_rejected[k], tokens=[[list(p), tok] for p, tok in nonfinite][:5]))
        elif nonfinite:
            ctx.violation(None, "harness: lenient parse found non-finite tokens the strict parser accepted", detail=base)

        # (d) scalar JSON values with descriptors disabled
        if not descriptors:
            for t, n in w[2]:
                if t not in SCALAR_JSON_TYPES:
                    continue
                exp = scalar_expectation(wslots[n])
                if exp is None:
                    continue
                got = json_scalar(val[n])
                ctx.event("json_scalars_checked")
                if not same_scalar(exp, got):
                    ctx.violation(None, "descriptors disabled: a scalar %s field is not written as the same JSON scalar" % t,
                                  detail=dict(base, field=n, type=t, written=exp, json=got))
    return True


def check_with_jq(ctx, path, text, cfgname):
    docs, _ = split_documents(text)
    try:
        p = subprocess.run([JQ, "-c", "keys_unsorted", path], capture_output=True, text=True, timeout=60)
    except (OSError, subprocess.TimeoutExpired):
        ctx.event("jq_not_runnable")
        return
    ctx.event("jq_runs")
    if p.returncode != 0:
        # jq has limits of its own; python's strict parser is the verdict, this is recorded only
        ctx.event("jq_rejected_a_file_python_accepts")
        ctx.note("jq_rejection_example", p.stderr[:200])
        return
    try:
        got = [json.loads(ln) for ln in p.stdout.splitlines() if ln.strip()]
    except ValueError:
        ctx.event("jq_output_unparsable")
        return
    want = [list(v.keys()) for _, _, v in docs]
    ctx.event("jq_documents_compared", len(want))
    if got != want:
        ctx.violation(None, "jq sees different documents / key order than the record fields", detail={"config": cfgname, "jq": got[:3], "expected": want[:3]})


def check_read(ctx, RecordReader, path, case, records, written, descriptors, cfgname, how, text):
    base = {"config": cfgname, "opened": how}
    target = path if case["s"] % 2 else "jsonfile://" + path
    try:
        rd = RecordReader(target)
        try:
            got = list(rd)
        finally:
            rd.close()
    except Exception as e:  # noqa: BLE001
        w0 = written[0] if written else None
        key = classify_read_error(ctx, e, written) if descriptors else classify_fallback_error(ctx, e, written)
        ctx.violation(key, "reading the JSON adapter's own output raised %s" % type(e).__name__,
                      detail=dict(base, exception=repr(e)[:400], first_record=repr(w0)[:600]))
        if key == "json-fallback-field-named-self":
            # the classifier must not hide anything else: the lines of all other records are re-read and compared
            keep = [i for i, w in enumerate(written) if not any(n == "self" for _, n in w[2])]
            lines = text.split("\n")
            if keep and len(lines) == len(records) + 1 and lines[-1] == "":
                sub = path + ".rest.json"
                with open(sub, "w", encoding="utf-8", newline="") as f:
                    f.write("".join(lines[i] + "\n" for i in keep))
                try:
                    ctx.event("fallback_rest_of_file_reread")
                    check_read(ctx, RecordReader, sub, case, [records[i] for i in keep], [written[i] for i in keep], descriptors,
                               cfgname, how, "".join(lines[i] + "\n" for i in keep))
                finally:
                    try:
                        os.unlink(sub)
                    except OSError:
                        pass
        return
    ctx.event("records_read", len(got))
    for o in got:
        try:
            observe.assert_typed(o, "read back")
        except observe.Untyped as e:
            ctx.violation(None, "record read back from JSON holds an untyped slot", detail=dict(base, error=str(e)))
    compare_read_obs(ctx, [observe.normalise(observe.obs(o)) for o in got], written, descriptors, base, "")
    # the other reading routes of the same file must give the same records
    if len(written) and not path.endswith(".rest.json"):
        sel = ctx.state["read_checks"] = ctx.state.get("read_checks", 0) + 1
        if not ctx.quick:
            for route in ("gz", "bz2", "fileobj"):
                read_other_route(ctx, RecordReader, path, route, written, descriptors, base)
        elif sel % 2 == 0:
            route = ("gz", "bz2", "fileobj")[(sel // 2) % 3]
            read_other_route(ctx, RecordReader, path, route, written, descriptors, base)
        if sel % (60 if ctx.quick else 150) == 7:
            read_other_route(ctx, RecordReader, path, "stdin-child", written, descriptors, base)
        if len(written) >= 2 and (sel % 3 == 1 or not ctx.quick):
            check_reader_usage(ctx, RecordReader, path, text, written, descriptors, base, sel // 3)


def compare_read_obs(ctx, got, written, descriptors, base, route):
    """`got` = normalised observations of the records a reader yielded; the oracle of (c) / (d)."""
    tag = (" [%s]" % route) if route else ""
    if len(got) != len(written):
        ctx.violation(None, "the number of records read back from JSON differs from the number written%s" % tag,
                      detail=dict(base, written=len(written), read=len(got)))
        return False
    ok = True
    if descriptors:
        for i, (w, o) in enumerate(zip(written, got)):
            a, b = nanfix(w), nanfix(o)
            ctx.event("records_compared")
            if a == b:
                continue
            ok = False
            for where, declared, wv, rv in observe.value_diffs(a, b, "$[%d]" % i):
                ctx.violation(classify_diff(declared, wv, rv), "JSON round trip%s: value of declared type %s differs" % (tag, declared),
                              detail=dict(base, where=where, declared=declared, written=wv, read=rv))
        return ok
    # plain-JSON fallback: one record per line with the same scalar values
    for i, (w, o) in enumerate(zip(written, got)):
        wslots = observe.slots_of(w)
        oslots = observe.slots_of(o)
        ctx.event("fallback_records_compared")
        names = [n for _, n in w[2]]
        onames = [n for _, n in o[2]]
        if onames != names:
            ok = False
            ctx.violation(None, "descriptors disabled%s: the record read back does not have the written record's fields" % tag,
                          detail=dict(base, fields=names, read_fields=onames))
            continue
        for t, n in w[2]:
            if t not in SCALAR_JSON_TYPES:
                continue
            exp = scalar_expectation(wslots[n])
            if exp is None:
                continue
            ro = oslots.get(n)
            got_s = scalar_expectation(ro) if (ro is None or ro[0] in ("str", "int", "boolean", "float")) else ("other", repr(ro)[:100])
            ctx.event("fallback_scalars_checked")
            if not same_scalar(exp, ("float", "nan") if (got_s[0] == "float" and _is_nan_hex(got_s[1])) else got_s):
                ok = False
                ctx.violation(None, "descriptors disabled%s: a scalar %s field is read back with a different value" % (tag, t),
                              detail=dict(base, field=n, type=t, written=exp, read=got_s))
    return ok


STDIN_CHILD = (
    "import sys, os, json\n"
    "repo = os.environ.get('VERIF_REPO', '/repo')\n"
    "if os.path.realpath(repo) != '/repo' or os.environ.get('VERIF_FORCE_PATH'):\n"
    "    sys.path.insert(0, repo)\n"
    "from verif import observe\n"
    "from flow.record import RecordReader\n"
    "rd = RecordReader('jsonfile://-')\n"
    "out = [observe.normalise(observe.obs(r)) for r in rd]\n"
    "sys.stdout.write('C14CHILD ' + json.dumps(out) + '\\n')\n"
)


def read_other_route(ctx, RecordReader, path, route, written, descriptors, base):
    """The same text through another reading route: a .gz / .bz2 copy named with the jsonfile:// scheme, a BINARY file
    object handed to RecordReader('jsonfile://', fileobj=...), stdin of a child process.  Same oracle as the text path.
    (Without the scheme a JSON file object has no magic bytes the adapter detection knows: not demanded.)"""
    import bz2
    import gzip
    import sys

    base = dict(base, route=route)
    extra = None
    fobj = None
    try:
        try:
            if route in ("gz", "bz2"):
                extra = path + "." + route
                with open(path, "rb") as f:
                    data = f.read()
                with (gzip.open if route == "gz" else bz2.open)(extra, "wb") as f:
                    f.write(data)
                rd = RecordReader("jsonfile://" + extra)
                try:
                    got = [observe.normalise(observe.obs(r)) for r in rd]
                finally:
                    rd.close()
            elif route == "fileobj":
                fobj = open(path, "rb")
                rd = RecordReader("jsonfile://", fileobj=fobj)
                got = [observe.normalise(observe.obs(r)) for r in rd]
            else:
                env = dict(os.environ)
                from ..core import VERIF_DIR

                pp = env.get("PYTHONPATH", "")
                if VERIF_DIR not in pp.split(os.pathsep):
                    env["PYTHONPATH"] = VERIF_DIR + (os.pathsep + pp if pp else "")
                with open(path, "rb") as f:
                    try:
                        p = subprocess.run([sys.executable, "-W", "ignore", "-c", STDIN_CHILD], stdin=f, capture_output=True, text=True, timeout=120, env=env)
                    except subprocess.TimeoutExpired:
                        ctx.require(False, "the stdin reader child exceeded its 120 s watchdog")
                        return
                line = next((ln for ln in p.stdout.splitlines() if ln.startswith("C14CHILD ")), None)
                if p.returncode != 0 or line is None:
                    ctx.violation(None, "reading the JSON adapter's own output from stdin failed in a child process",
                                  detail=dict(base, returncode=p.returncode, stderr=p.stderr[-1500:]))
                    return
                got = json.loads(line[len("C14CHILD "):])
        except Exception as e:  # noqa: BLE001
            ctx.violation(None, "reading the JSON adapter's own output through another route raised %s" % type(e).__name__,
                          detail=dict(base, exception=repr(e)[:400]))
            return
        ctx.event("read_route:" + route)
        ctx.event("records_read_other_route", len(got))
        compare_read_obs(ctx, got, written, descriptors, base, route)
    finally:
        if fobj is not None:
            try:
                fobj.close()
            except Exception:  # noqa: BLE001
                pass
        if extra:
            try:
                os.unlink(extra)
            except OSError:
                pass


def check_reader_usage(ctx, RecordReader, path, text, written, descriptors, base, sel):
    """How applications use a reader: peek at the first record then iterate again; iterate partly, break, iterate again;
    a corrupt line in the middle with the application catching the error and going on with the same reader.  On the
    pinned code every resumed iteration continues with the next line; the records of all intact lines come back, once, in order."""
    import gc

    n = len(written)
    mode = ("peek", "partial", "corrupt-truncated", "corrupt-garbage")[sel % 4]
    base = dict(base, reader_usage=mode)
    tmp = None
    try:
        try:
            if mode == "peek":
                rd = RecordReader(path)
                first = next(iter(rd))
                gc.collect()  # the abandoned iterator is finalised here
                got = [first] + list(rd)
                rd.close()
                want = written
            elif mode == "partial":
                rd = RecordReader(path)
                k = max(1, n // 2)
                got = []
                for r in rd:
                    got.append(r)
                    if len(got) >= k:
                        break
                gc.collect()
                got += list(rd)
                rd.close()
                want = written
            else:
                lines = text.split("\n")
                if lines and lines[-1] == "":
                    lines.pop()
                # record lines only (a lost descriptor line makes later records undecodable by design)
                rec_idx = [k for k, ln in enumerate(lines) if '"_type": "recorddescriptor"' not in ln[:40]]
                if len(rec_idx) != n or n < 2:
                    return
                j = (sel // 4) % n
                bad = lines[rec_idx[j]]
                lines[rec_idx[j]] = bad[: max(1, len(bad) // 2)] if mode == "corrupt-truncated" else "WARNING: something was logged here"
                tmp = path + ".corrupt.json"
                with open(tmp, "w", encoding="utf-8", newline="") as f:
                    f.write("\n".join(lines) + "\n")
                rd = RecordReader(tmp)
                got, errors = [], 0
                while True:
                    try:
                        for r in rd:
                            got.append(r)
                        break
                    except ValueError:  # json.JSONDecodeError: the application skips the line and goes on
                        errors += 1
                        if errors > 3:
                            break
                rd.close()
                ctx.event("reader_usage_corrupt_lines_skipped", errors)
                if errors != 1:
                    ctx.violation(None, "a reader over a file with ONE corrupt line raised %d times" % errors, detail=base)
                    return
                want = written[:j] + written[j + 1:]
        except Exception as e:  # noqa: BLE001
            ctx.violation(None, "reader usage '%s' raised %s" % (mode, type(e).__name__), detail=dict(base, exception=repr(e)[:400]))
            return
        ctx.event("reader_usage:" + mode)
        compare_read_obs(ctx, [observe.normalise(observe.obs(o)) for o in got], want, descriptors, base, "reader usage: " + mode)
    finally:
        if tmp:
            try:
                os.unlink(tmp)
            except OSError:
                pass


def _is_nan_hex(h):
    x = struct.unpack(">d", bytes.fromhex(h))[0]
    return x != x


def _bytes_mechanisms(ctx):
    """Does the tree under test show the two (repaired) bytes defects in isolation?  -> {"none": bool, "list": bool}"""
    if "bytes_mechanisms" in ctx.state:
        return ctx.state["bytes_mechanisms"]
    from flow.record import JsonRecordPacker, RecordDescriptor

    out = {}
    for name, ftype, doc_value, want in (("none", "bytes", None, None), ("list", "bytes[]", ["eA=="], [b"x"])):
        try:
            d = RecordDescriptor("verif/c14probe", [(ftype, "b")])
            pk = JsonRecordPacker()
            pk.register(d)
            r = pk.unpack(json.dumps({"b": doc_value, "_type": "record", "_recorddescriptor": list(d.identifier)}))
            got = r.b if want is None else [bytes(x) for x in r.b]
            out[name] = got != want
        except Exception:  # noqa: BLE001
            out[name] = True
    ctx.state["bytes_mechanisms"] = out
    return out


def classify_read_error(ctx, e, written):
    """Mechanism names of the two repaired bytes defects (listed as fixed, so they never suppress anything): only used
    when the tree under test shows the defect in isolation and the sequence contains the triggering value."""
    if not isinstance(e, TypeError):
        return None
    mech = _bytes_mechanisms(ctx)
    for w in written:
        for (t, n), (_, v) in zip(w[2], w[3]):
            if mech["none"] and t == "bytes" and v is None:
                return "json-bytes-none"
    for w in written:
        for (t, n), (_, v) in zip(w[2], w[3]):
            if mech["list"] and t == "bytes[]" and isinstance(v, list) and v[2]:
                return "json-bytes-list"
    return None


def classify_fallback_error(ctx, e, written):
    """descriptors disabled: the plain-JSON fallback builds the record with `descriptor(**document)`, and
    RecordDescriptor.__call__ names its own first parameter `self`, so a record with a field called 'self' cannot be read."""
    if not (isinstance(e, TypeError) and any(n == "self" for w in written for _, n in w[2])):
        return None
    if "self_field_call_fails" not in ctx.state:
        from flow.record import RecordDescriptor

        try:
            RecordDescriptor("json/record", [("string", "self")])(**{"self": "x"})
            ctx.state["self_field_call_fails"] = False
        except TypeError:
            ctx.state["self_field_call_fails"] = True
        except Exception:  # noqa: BLE001
            ctx.state["self_field_call_fails"] = False
    return "json-fallback-field-named-self" if ctx.state["self_field_call_fails"] else None


def classify_diff(declared, wv, rv):
    return None


def finish(ctx):
    ctx.state["reach"].into(ctx)
    if ctx.shard == 0:
        ctx.note("matrix_cells_expected", len(cells()))
        ctx.note("same_name_orders_enumerated_per_configuration", len(same_name_orders(ctx.scale(4, 5))))
        ctx.require(ctx.events.get("same_name_sequences", 0) > 0, "no same-name descriptor sequence was run")
        ctx.require(ctx.events.get("coincident_sequences", 0) > 0, "no identifier-coincident descriptor sequence was run "
                    "(the variants did not share an identifier on this tree)")
        ctx.require(ctx.events.get("grouped_records_written", 0) > 0, "no grouped record was written")
        ctx.require(ctx.events.get("cross_name_same_hash_sequences", 0) > 0, "no sequence of differently named types with one descriptor hash was run")
        ctx.require(ctx.events.get("rewrite_writes_of_the_same_object", 0) > 0, "no re-used record object was written")
        ctx.require(ctx.events.get("records_read_other_route", 0) > 0, "no file was read through a second route (gz / bz2 / file object)")
        ctx.require(sum(v for k, v in ctx.events.items() if k.startswith("reader_usage:")) > 0, "no reader-usage history was run")
        ctx.require(ctx.events.get("writes_after_a_refused_record", 0) > 0, "no record was written after a refused one "
                    "(the encoder refused nothing: sys.get_int_max_str_digits() disabled and legacy field accepted?)")
    if ctx.events.get("turnover_cases", 0):
        ctx.require(ctx.events.get("turnover_descriptor_objects_at_a_previously_used_address", 0) > 0,
                    "descriptor turnover never produced a descriptor object at an address a released one of another layout had")
    if ctx.evaluations:
        for q in ANCHORS[:5]:
            ctx.require(ctx.reach.get(q, 0) > 0, "anchor %s was never entered" % q)
        ctx.require(ctx.events.get("documents_strict_ok", 0) > 0, "the strict JSON parser never accepted a document")
        ctx.require(ctx.events.get("record_documents_checked", 0) > 0, "no record document was checked")
        if ctx.events.get("config:desc=on/indent=None", 0):
            ctx.require(ctx.events.get("records_compared", 0) > 0, "no record was compared after reading back")
        if ctx.events.get("config:desc=off/indent=None", 0):
            ctx.require(ctx.events.get("fallback_records_compared", 0) > 0, "the plain-JSON fallback reader never produced a record")
