"""C07 - both selector engines compute the Python meaning of the expression (DESIGN section 4, C07; section 3.4)."""
from __future__ import annotations

import ast
import copy
import json
import os
import random
import re
import subprocess
import sys

from .. import probes, refselector, respell_c07, selgen
from ..core import VERIF_DIR, subseed
from ..refselector import Undefined, Unsupported, classify_support

ID = "C07"
TITLE = "selector engines vs Python meaning"
LEVEL = "exploration"
RULE = (
    "cases = (expression, record) pairs.  Expressions come from the typed grammar in verif/selgen.py (integer-, number-, "
    "text-, list- and boolean-valued productions over comparisons incl. chains and is/is not, and/or/not, + * / % & |, "
    "in/not in, constants, lists, tuples, attribute access, every helper function, net.* constructors, typed matchers, "
    "any/all generator expressions with 1-2 for clauses and if clauses; about a third of the random part additionally "
    "carries a may-reject construct: - // ** ^ << >>, unary - + ~, conditional expression, subscript, set/dict display, "
    "comprehension, f-string, lambda, tuple target, re-used loop variable, bare field-type constructor, non-whitelisted "
    "call).  Part 1 (kind sweep): for every must-support node kind / operator, expressions are drawn from the grammar "
    "until one contains that kind (depth 0-2, thorough 0-3; 12 / 90 expressions per kind and shard); part 2: random "
    "expressions of depth <= 3 (quick, 450 per shard) / <= 7 (thorough, 55 000 per shard).  Thorough also uses 12 record "
    "pools instead of 2, 19 PYTHONHASHSEED values x 6 pools of child interpreters, and one cold child interpreter per "
    "(whitelisted constructor, engine).  Each "
    "expression is run on 2 records of a 17-18 record pool (every field type, None values, empty lists, nested records, "
    "heterogeneous shapes, one grouped record).  Part 1c: field_equals / field_contains / field_regex on every field of "
    "the 33-field main shape (all field types) with candidate strings equal to the text form of the field's value, a "
    "case variant, a list element and a non-matching string.  Part 1d: typed matchers (== in >= > <= on Type.string / "
    "wstring / varint / float / net.ipaddress / uri[.attr] / datetime.year, forward and reverse membership) on records "
    "with 3-4 levels of record / record[] nesting where every depth carries its own values and the expression is built "
    "from the values of one depth.  Part 1e: typed matchers and helpers over Type.<t> built from the values of one "
    "grouped record, evaluated on sequences of grouped records of different shapes (members, field names, a name typed "
    "differently) by one long-lived selector object per engine and by fresh ones, in both orders.  The text values and "
    "literals include characters with special case mappings (sharp s, final sigma, micro sign, long s, ligature, dotted "
    "and dotless i, titlecase digraph).  Part 1f: multi-clause generators whose later iterables are generator "
    "expressions, decided at outer index >= 1.  Part 1g (enumerated): every proper prefix of a whitelisted type path not "
    "ending at a component boundary and one-character extensions of the paths, as bare / dotted name in value, call and "
    "attribute position: both engines must reject (a dotted one may also be treated as a missing attribute).  Part 1h: "
    "texts that ast.parse(mode='eval') rejects but that parse inside a wrapper (parentheses, list, call, newline joins, "
    "unbalanced parentheses, bare generator bodies): both engines must raise.  Part 1i: helper calls with multi-field "
    "lists (a matching field and fields whose value makes the helper raise, both orders, duplicates) evaluated in child "
    "interpreters under PYTHONHASHSEED 0,1,2,3,5,11: outcome == the documented loop (listed order, first match wins).  "
    "Part 1k: field_regex / field_contains / field_equals / lower / upper on fixed records whose text, wstring and "
    "bytes values hold \\n, \\r\\n, \\x0b, \\x0c, \\x1c-\\x1e, \\x85, U+2028/9, NUL, leading / trailing blanks and special case "
    "mappings, with patterns using . ^ $ \\s \\b \\Z inline flags and (?i) over non-ASCII.  Part 1l: plain and grouped records "
    "declaring a field whose NAME collides with something the engines / helpers use (records, name, fields, values, "
    "Type, r, str, any, lower, names, has_field, ...) as string / varint / string[] / record / record[] field, through "
    "every helper, attribute access and typed matcher.  Part 1m: any / all generators whose loop variable is named like a field-type root or path component, a helper, r / "
    "Type / net or a builtin, over text / integer / record lists (==, !=, in, helper call, attribute, if clause, two "
    "clauses, nested): names bound in the selector namespace are may-reject, for all others Python's scoping must hold.  "
    "Part 1n: selector texts whose string literals hold raw whitespace runs (blanks, tab, line feed in a "
    "triple-quoted literal) through Selector, CompiledSelector, make_selector(.., force_compiled) and selectors rebuilt "
    "from str() / repr() of another selector object: all verdicts == the reference.  Part 1j: every whitelisted constructor / namespace in a cold child interpreter (only flow.record.selector and "
    "RecordDescriptor imported, plain fields), compiled before interpreted and the other way round: outcome == the warm "
    "in-process outcome, and == the reference for net.*.  A case is non-trivial when the reference evaluator defines it (every "
    "sub-expression evaluated eagerly without error) and it reads at least one field; distinct = distinct (expression, "
    "pool seed, record index).  Oracle: an independent AST walker giving every node its Python meaning "
    "(verif/refselector.py), itself cross-checked against builtin eval on every defined case without a typed matcher. "
    "must-support expression: Selector(expr).match(rec) and CompiledSelector(expr).match(rec) must both return the "
    "reference truth value; may-reject expression: each engine may raise or must return the reference truth value. "
    "Undefined cases are counted and skipped."
)
ASSUMPTIONS = [
    "a record on which some sub-expression raises under eager Python evaluation (None in arithmetic, missing field, division by zero) is outside the property's quantifier and skipped; missing fields are C08's subject",
    "identity comparisons are generated only against None / True / False",
    "get_type() and fields() return implementation objects and are not given a reference value (skipped)",
    "the support classification (must-support vs may-reject) is the one of DESIGN 3.4, taken from the property text",
    "re-use of a loop variable name that is still bound - also by a sibling generator expression that is still being consumed as the iterable of an earlier for clause - is may-reject and not generated as must-support",
    "field_equals / field_contains / field_regex visit the listed fields in the listed order and stop at the first match (the loop of their documentation); a value on which the helper's own operation raises makes the call raise when it is reached",
    "text that builtin ast.parse(text, mode='eval') rejects is outside the language whatever wrapper would make it parse",
    "grouped records whose members declare a field named like GroupedRecord's own instance attributes (name, records, descriptors, flat_fields, fieldname_to_record) are not generated: the group object itself hides such a field (record composition, not the selector)",
]
SHARDS = {"quick": 8, "thorough": 16}
BUDGET_S = {"quick": 150, "thorough": 2400}

ANCHORS = [
    "flow.record.selector:RecordContextMatcher._eval",
    "flow.record.selector:RecordContextMatcher._compare",
    "flow.record.selector:CompiledSelector.match",
    "flow.record.selector:Selector.match",
    "flow.record.selector:TypeMatcherInstance._op",
    "flow.record.selector:TypeMatcherInstance._values",
    "flow.record.selector:WrappedRecord.__getattr__",
    "flow.record.selector:lower",
    "flow.record.selector:upper",
    "flow.record.selector:name",
    "flow.record.selector:names",
    "flow.record.selector:has_field",
    "flow.record.selector:field_regex",
    "flow.record.selector:field_equals",
    "flow.record.selector:field_contains",
]

MIN_DEFINED_PER_KIND = 50
NET_CTORS = ("net.ipaddress", "net.ipnetwork", "net.IPAddress", "net.IPNetwork")
NETWORK_CTORS = ("net.ipnetwork", "net.IPNetwork")

# every must-support node kind / operator; each needs >= MIN_DEFINED_PER_KIND defined cases per run
REQUIRED_KINDS = (
    ["cmp:" + k for k in ("Eq", "NotEq", "Lt", "LtE", "Gt", "GtE", "Is", "IsNot", "In", "NotIn", "chain")]
    + ["bool:And", "bool:Or", "bool:3+", "unary:Not"]
    + ["bin:" + k for k in ("Add", "Mult", "Div", "Mod", "BitAnd", "BitOr")]
    + ["const:" + k for k in ("int", "str", "bytes", "float", "None", "bool")]
    + ["List", "Tuple", "Attribute", "Attribute:nested"]
    + ["call:" + k for k in ("lower", "upper", "name", "names", "has_field", "field_contains", "field_equals", "field_regex", "str", "repr",
                             "any", "all", "net.ipaddress", "net.ipnetwork")]
    + ["kw:nocase", "kw:word_boundary"]
    + ["gen:1for", "gen:2for", "gen:3for", "gen:if", "gen:iter-genexp"]
    + ["type:" + k for k in ("Eq", "NotEq", "Lt", "LtE", "Gt", "GtE", "contains", "attr", "as-fields")]
)


# may-reject reasons (refselector.classify_support) swept in part 1b so that "rejected or reference value" is exercised per construct
MAY_REASONS = (
    ["operator " + k for k in ("Sub", "FloorDiv", "Pow", "BitXor", "LShift", "RShift")]
    + ["unary " + k for k in ("USub", "UAdd", "Invert")]
    + ["construct " + k for k in ("IfExp", "Subscript", "Dict", "Set", "ListComp", "JoinedStr", "Lambda", "Slice")]
    + ["tuple target", "loop variable re-uses a bound name", "call target is not a whitelisted name",
       "bare field-type constructor (interpreted engine only)"]
)
# kinds whose sweep also runs on the grouped record of the pool
GROUPED_KINDS = {"call:names", "call:name", "call:has_field", "call:field_contains", "call:field_equals", "call:field_regex",
                 "type:Eq", "type:NotEq", "type:contains", "type:as-fields"}


# field types on which field_equals must have defined cases (their == accepts the text form / they are unhashable lists)
HELPER_TYPES_REQUIRED = ("net.ipaddress", "net.ipnetwork", "uri", "path", "command", "varint", "string[]", "stringlist", "string")


# ---- AST inspection ---------------------------------------------------------------------------------
def _is_type_chain(n):
    while isinstance(n, ast.Attribute):
        n = n.value
    return isinstance(n, ast.Name) and n.id == "Type"


def _type_chain_len(n):
    k = 0
    while isinstance(n, ast.Attribute):
        n = n.value
        k += 1
    return k


def node_kinds(tree):
    """Set of node-kind / operator labels occurring in the expression."""
    kinds = set()
    for n in ast.walk(tree):
        if isinstance(n, ast.Compare):
            if len(n.ops) >= 2:
                kinds.add("cmp:chain")
            operands = [n.left] + list(n.comparators)
            for op, a, b in zip(n.ops, operands, operands[1:]):
                kinds.add("cmp:" + type(op).__name__)
                if _is_type_chain(a):
                    kinds.add("type:reverse-in" if isinstance(op, (ast.In, ast.NotIn)) else "type:" + type(op).__name__)
                if _is_type_chain(b) and isinstance(op, ast.In):
                    kinds.add("type:contains")
        elif isinstance(n, ast.BoolOp):
            kinds.add("bool:" + type(n.op).__name__)
            if len(n.values) >= 3:
                kinds.add("bool:3+")
        elif isinstance(n, ast.UnaryOp):
            kinds.add("unary:" + type(n.op).__name__)
        elif isinstance(n, ast.BinOp):
            kinds.add("bin:" + type(n.op).__name__)
        elif isinstance(n, ast.Constant):
            kinds.add("const:" + ("None" if n.value is None else type(n.value).__name__))
        elif isinstance(n, ast.Attribute):
            if _is_type_chain(n):
                # Type.<type path>.<attr>: more segments than the longest type path prefix
                path = []
                x = n
                while isinstance(x, ast.Attribute):
                    path.append(x.attr)
                    x = x.value
                path = ".".join(reversed(path))
                if any(path.startswith(t + ".") for t in ("uri", "string", "path", "datetime", "net.ipaddress")):
                    kinds.add("type:attr")
            else:
                kinds.add("Attribute")
                if isinstance(n.value, ast.Attribute):
                    kinds.add("Attribute:nested")
        elif isinstance(n, ast.Call):
            p = refselector.call_path(n)
            if p in ("net.IPAddress", "net.IPNetwork"):
                p = p.lower()
            kinds.add("call:" + (p or "<non-name>"))
            for kw in n.keywords:
                kinds.add("kw:" + str(kw.arg))
            if any(_is_type_chain(a) for a in n.args):
                kinds.add("type:as-fields")
        elif isinstance(n, ast.GeneratorExp):
            kinds.add("gen:1for" if len(n.generators) == 1 else "gen:2for")
            if len(n.generators) >= 3:
                kinds.add("gen:3for")
            if any(isinstance(g.iter, ast.GeneratorExp) for g in n.generators[1:]):
                kinds.add("gen:iter-genexp")   # a one-shot iterable that must be rebuilt per value of the enclosing clause
            if any(g.ifs for g in n.generators):
                kinds.add("gen:if")
        elif isinstance(n, (ast.List, ast.Tuple)):
            kinds.add(type(n).__name__)
        elif not isinstance(n, (ast.Name, ast.Load, ast.Store, ast.expr_context, ast.operator, ast.cmpop, ast.boolop, ast.unaryop,
                                ast.comprehension, ast.keyword, ast.Expression)):
            kinds.add("other:" + type(n).__name__)
    return kinds


def reads_a_field(tree):
    for n in ast.walk(tree):
        if isinstance(n, ast.Name) and n.id in ("r", "Type"):
            return True
    return False


def _is_network_valued(n):
    """Syntactically a network: net.ipnetwork(...) / net.IPNetwork(...) or one of the pool's network fields."""
    if isinstance(n, ast.Call):
        return refselector.call_path(n) in NETWORK_CTORS
    if isinstance(n, ast.Attribute) and isinstance(n.value, ast.Name) and n.value.id == "r":
        return n.attr in selgen.SHAPE_INFO["net"]
    return False


def _is_text_valued(n):
    """Syntactically a text: a str literal or one of the pool's text fields."""
    if isinstance(n, ast.Constant):
        return isinstance(n.value, str)
    if isinstance(n, ast.Attribute) and isinstance(n.value, ast.Name) and n.value.id == "r":
        return n.attr in selgen.SHAPE_INFO["text"]
    return False


def _is_reverse_membership(n):
    return isinstance(n, ast.Compare) and len(n.ops) == 1 and isinstance(n.ops[0], ast.In) and _is_type_chain(n.left)


class _ReverseMembershipTo(ast.NodeTransformer):
    """`Type.<t> in <container>` -> constant, for containers selected by `pred`."""

    def __init__(self, pred, value):
        self.pred, self.value, self.hits = pred, value, 0

    def visit_Compare(self, n):
        self.generic_visit(n)
        if _is_reverse_membership(n) and self.pred(n.comparators[0]):
            self.hits += 1
            return ast.copy_location(ast.Constant(self.value), n)
        return n


def ref_truth(tree, rec, patch=None):
    """Reference truth value of a parsed expression; `patch` adjusts the namespace (only used by classifiers)."""
    ns = refselector.make_namespace(rec, False)
    if patch:
        ns.update(patch)
    v = refselector._ev(tree.body, ns)
    if v is refselector.MISSING or isinstance(v, refselector.RefTypeMatch):
        raise Undefined("bare sentinel")
    try:
        return bool(v)
    except Exception as e:  # noqa: BLE001
        raise Undefined("truth value: %s" % e)


# ---- classifiers: name the mechanism of a known defect from the case itself ---------------------------
def classify(engine, tree, rec, ref, got, exc):
    """Only mechanisms listed as `known` have a classifier; repaired ones (chained comparison, generator if, typed
    matcher <= >=, BoolOp value, nested generator, names() on grouped records, reverse membership in nested records)
    are plain violations again."""
    # compiled engine: `Type.<t> in <container>` is evaluated by Python's container protocol on the matcher object itself:
    # a network answers False, a text raises TypeError (a list / tuple compares element == matcher, which coincides)
    if engine == "compiled":
        tr = _ReverseMembershipTo(_is_network_valued, False)
        alt_tree = ast.fix_missing_locations(tr.visit(copy.deepcopy(tree)))
        try:
            if got[0] == "V" and tr.hits and ref_truth(alt_tree, rec) == got[1]:
                return "compiled-reverse-membership-typematcher"
            if got[0] == "E" and isinstance(exc, TypeError):
                # attributable to the text containers iff the rest of the expression is evaluated correctly whichever
                # value those sub-comparisons are given
                from flow.record.selector import CompiledSelector

                judged = agree = 0
                for b in (False, True):
                    tb = _ReverseMembershipTo(_is_text_valued, b)
                    tree_b = ast.fix_missing_locations(tb.visit(copy.deepcopy(alt_tree)))
                    if not tb.hits:
                        break
                    try:
                        want_b = ref_truth(tree_b, rec)
                    except (Undefined, Unsupported):
                        continue   # with this value the rest of the expression is undefined on the record: no judgement
                    judged += 1
                    agree += run_engine(CompiledSelector, ast.unparse(tree_b), rec)[0] == ("V", want_b)
                if judged and agree == judged:
                    return "compiled-reverse-membership-typematcher"
        except (Undefined, Unsupported):
            pass
    # compiled engine: the record wrapper keeps the wrapped record in an attribute called `record`, which hides a
    # field of that name (r.record is the Record itself; typed matchers and helpers reading the field go wrong too)
    if engine == "compiled" and "record" in getattr(rec._desc, "fields", {}):
        ftype = rec._desc.fields["record"].typename
        reads = any(isinstance(n, ast.Attribute) and n.attr == "record" and isinstance(n.value, ast.Name) and n.value.id == "r" for n in ast.walk(tree))
        typed = any(_is_type_chain(n) and ast.unparse(n).startswith("Type." + ftype.rstrip("[]")) for n in ast.walk(tree) if isinstance(n, ast.Attribute))
        listed = any(isinstance(n, ast.Call) and (refselector.call_path(n) or "").startswith("field_")
                     and any(isinstance(c, ast.Constant) and c.value == "record" for c in ast.walk(n)) for n in ast.walk(tree))
        if reads or typed or listed:
            return "compiled-field-named-record-shadowed"
    return None


# ---- harness ----------------------------------------------------------------------------------------
def setup(ctx):
    ctx.state["reach"] = probes.Reach(ANCHORS)
    ctx.state["pools"] = {}


def teardown(ctx):
    ctx.state["reach"].stop()


C07_INFO = dict(selgen.SHAPE_INFO, texts=selgen.SPECIAL_INFO_TEXTS)   # literals include the special-case-mapping texts of the pool


def pool_for(ctx, seed):
    pools = ctx.state.setdefault("pools", {})
    if seed not in pools:
        if len(pools) > 64:
            pools.clear()
        pools[seed] = selgen.record_pool(random.Random(seed), grouped=True, special=True)
    return pools[seed]


POOL_SIZE = 18  # layout of selgen.record_pool(grouped=True): 0-5 main-full, 6-7 main-mixed, 8-9 main-none, 10-12 nested, 13-14 small, 15-16 other, 17 grouped


def pick_records(rng):
    """Two record indexes per expression: one where most fields exist, one anywhere in the pool."""
    return [rng.randrange(0, 8), rng.randrange(0, POOL_SIZE)]


def generate(ctx):
    npools = ctx.scale(2, 12)
    pool_seeds = [subseed("c07", ctx.seed, "pool", i) for i in range(npools)]
    # part 1: kind sweep
    reps = ctx.scale(12, 90)
    for kind in REQUIRED_KINDS:
        rng = random.Random(subseed("c07", ctx.seed, ctx.shard, "sweep", kind))
        for j in range(reps):
            expr = None
            for _ in range(400):
                e, tags = selgen.gen_expr(rng, rng.choice([0, 1, 1, 2] if ctx.quick else [0, 1, 2, 2, 3]), C07_INFO, support="must", avoid=(),
                                          with_tags=True)
                if kind in node_kinds(ast.parse(e, mode="eval")):
                    expr = e
                    break
            if expr is None:
                ctx.note_add("sweep_kind_not_generated:" + kind)
                continue
            recs = [rng.randrange(0, 6), rng.randrange(0, 8)] + ([POOL_SIZE - 1] if kind in GROUPED_KINDS else [])
            for ri in recs:
                yield {"k": "sweep", "kind": kind, "expr": expr, "tags": tags, "pool": pool_seeds[j % npools], "rec": ri}
    # part 1b: may-reject sweep
    reps = ctx.scale(6, 45)
    for reason in MAY_REASONS:
        rng = random.Random(subseed("c07", ctx.seed, ctx.shard, "may-sweep", reason))
        for j in range(reps):
            expr = None
            for _ in range(600):
                e, tags = selgen.gen_expr(rng, rng.choice([0, 1, 1, 2] if ctx.quick else [0, 1, 2, 2, 3]), C07_INFO, support="any", avoid=(),
                                          with_tags=True)
                if "may-reject" in tags and reason in classify_support(e)[1]:
                    expr = e
                    break
            if expr is None:
                ctx.note_add("may_reject_reason_not_generated:" + reason)
                continue
            for ri in (rng.randrange(0, 6), rng.randrange(0, 8)):
                yield {"k": "may-sweep", "kind": reason, "expr": expr, "tags": tags, "pool": pool_seeds[j % npools], "rec": ri}
    # part 1c: helper functions over fields of every type, with candidate strings equal to the text form of the value
    idx = 0
    for ps in pool_seeds[:ctx.scale(2, 10)]:
        pool = pool_for(ctx, ps)
        for ri in range(0, 10):
            for ftype, fname in selgen.MAIN_FIELDS:
                for expr in helper_type_exprs(pool[ri], ftype, fname):
                    if ctx.mine(idx):
                        yield {"k": "helper-type", "kind": ftype, "expr": expr, "tags": [], "pool": ps, "rec": ri}
                    idx += 1
    # part 1d: typed matchers whose only matching value sits at nesting depth k = 0..4 (record / record[] chains)
    for ps in pool_seeds[:ctx.scale(2, 10)]:
        for ri, (rec, levels) in enumerate(deep_for(ctx, ps)):
            for k, vals in enumerate(levels):
                for expr in deep_exprs(k, vals, len(levels) - 1):
                    if ctx.mine(idx):
                        yield {"k": "deep", "kind": "depth%d" % k, "expr": expr, "tags": [], "pool": ps, "rec": ri}
                    idx += 1
    # part 1e: typed matchers on grouped records of different shapes, one after the other in this process
    for ps in pool_seeds[:ctx.scale(2, 10)]:
        groups = grouped_for(ctx, ps)
        for gi, g in enumerate(groups):
            others = [(gi + 1) % len(groups), (gi + 3) % len(groups), (gi + 7) % len(groups)]
            for expr in grouped_exprs(g):
                for oi in others[:ctx.scale(2, 3)]:
                    for recs in ([gi, oi, gi], [oi, gi]):
                        if ctx.mine(idx):
                            yield {"k": "grouped-seq", "kind": "grouped", "expr": expr, "tags": [], "pool": ps, "recs": recs}
                        idx += 1
    # part 1f: multi-clause generators whose 2nd / 3rd iterable is a generator expression, decided at outer index >= 1
    for ps in pool_seeds[:ctx.scale(2, 10)]:
        pool = pool_for(ctx, ps)
        for ri in range(0, 8):
            for expr in genexp_iterable_exprs(pool[ri]):
                if ctx.mine(idx):
                    yield {"k": "gen-iterable", "kind": "gen:iter-genexp", "expr": expr, "tags": ["generator-iterable"], "pool": ps, "rec": ri}
                idx += 1
    # part 1g: near-miss identifiers (prefixes / one-char extensions of whitelisted type paths) are outside the language
    for name, dotted in near_miss_names():
        for expr in near_miss_exprs(name, dotted):
            if ctx.mine(idx):
                yield {"k": "near-miss", "kind": "dotted" if dotted else "bare", "expr": expr, "name": name, "tags": [], "pool": pool_seeds[0],
                       "rec": idx % 6}
            idx += 1
    # part 1h: text that is not an expression on its own (but would be inside some wrapper) must be rejected
    for text in reject_texts(ctx.seed, ctx.scale(3, 10)):
        if ctx.mine(idx):
            yield {"k": "reject", "kind": "not-an-expression", "expr": text, "tags": [], "pool": pool_seeds[0], "rec": idx % 6}
        idx += 1
    # part 1i: helper field lists in child interpreters under several PYTHONHASHSEED values
    for ps in pool_seeds[:ctx.scale(1, 6)]:
        for h in (HASH_SEEDS if ctx.quick else HASH_SEEDS_THOROUGH):
            if ctx.mine(idx):
                yield {"k": "hashseed", "kind": "helper-field-order", "expr": "<batch of helper calls with multi-field lists>", "tags": [],
                       "pool": ps, "hashseed": h}
            idx += 1
    # part 1j: every whitelisted constructor / namespace in a cold child interpreter, one engine before the other
    for order in (["compiled", "interpreted"], ["interpreted", "compiled"]):
        if ctx.mine(idx):
            yield {"k": "cold", "kind": "cold-process", "expr": "<batch of whitelisted constructors>", "tags": [], "order": order}
        idx += 1
    if not ctx.quick:
        # thorough: one cold child per expression and engine, so nothing evaluated earlier in the child can have warmed it
        for ei in range(len(cold_exprs())):
            for engine in ("compiled", "interpreted"):
                if ctx.mine(idx):
                    yield {"k": "cold", "kind": "cold-process", "expr": "<one whitelisted constructor>", "tags": [], "order": [engine], "only": ei}
                idx += 1
    # part 1n: the selector text with whitespace runs inside string literals, through every way a selector object is (re)built
    for ri in range(len(respell_c07.RESPELL_VALUES)):
        for expr in respell_c07.respell_exprs():
            if ctx.mine(idx):
                yield {"k": "respell", "kind": "whitespace-in-literal", "expr": expr, "tags": [], "pool": "respell", "rec": ri}
            idx += 1
    # part 1m: generator loop variables NAMED like something else in the language (type roots, path components, helpers, builtins)
    for ps in pool_seeds[:ctx.scale(1, 4)]:
        pool = pool_for(ctx, ps)
        for ri in range(0, ctx.scale(4, 8)):
            for name in loop_variable_names():
                for expr in loop_variable_exprs(pool[ri], name):
                    if ctx.mine(idx):
                        yield {"k": "loop-var", "kind": "loop-variable-name", "expr": expr, "tags": [], "pool": ps, "rec": ri}
                    idx += 1
    # part 1k: helpers on values with line feeds / control characters / special case mappings (regex flags, nocase)
    for ri, rec in enumerate(ctl_records()):
        for expr in ctl_exprs(rec):
            if ctx.mine(idx):
                yield {"k": "ctl", "kind": "control-characters", "expr": expr, "tags": [], "pool": "ctl", "rec": ri}
            idx += 1
    # part 1l: field names that collide with attributes the engines / helpers look at
    for ri, (rec, fname, ftype) in enumerate(collision_records()):
        for expr in collision_exprs(rec, fname, ftype):
            if ctx.mine(idx):
                yield {"k": "collision", "kind": "field-name-collision", "expr": expr, "tags": [], "pool": "collision", "rec": ri}
            idx += 1
    # part 2: random expressions, deeper
    n = ctx.scale(450, 55000)
    depths = [0, 1, 2, 2, 3, 3] if ctx.quick else [1, 2, 3, 3, 4, 4, 5, 5, 6, 7]
    rng = random.Random(subseed("c07", ctx.seed, ctx.shard, "random"))
    for i in range(n):
        support = "any" if i % 2 else "must"
        e, tags = selgen.gen_expr(rng, rng.choice(depths), C07_INFO, support=support, avoid=(), with_tags=True)
        for ri in pick_records(rng):
            yield {"k": "random", "expr": e, "tags": tags, "pool": pool_seeds[i % npools], "rec": ri}


def grouped_for(ctx, seed):
    cache = ctx.state.setdefault("grouped", {})
    if seed not in cache:
        cache[seed] = selgen.grouped_pool(random.Random(seed ^ 0x6709))
    return cache[seed]


def grouped_exprs(g):
    """Typed-matcher expressions built from the values of one grouped record (evaluated on it and on groups of other shapes)."""
    import re

    by_type = {}
    for t, f in g._desc.get_field_tuples():
        by_type.setdefault(t, []).append(getattr(g, f))
    out = []
    for t in ("string", "wstring"):
        for v in by_type.get(t, [])[:2]:
            out += ["Type.%s == %r" % (t, v), "%r in Type.%s" % (v[:3], t), "Type.%s in [%r, 'zz']" % (t, v), "Type.%s >= %r" % (t, v),
                    "field_equals(r, Type.%s, [%r])" % (t, v.upper()), "field_contains(r, Type.%s, [%r])" % (t, v[1:4]),
                    "field_regex(r, Type.%s, %r)" % (t, re.escape(v[:4])), "field_equals(r, Type.%s, [%r], nocase=False)" % (t, v)]
    for v in by_type.get("varint", [])[:2]:
        out += ["Type.varint == %d" % v, "Type.varint in [%d, 5]" % v, "Type.varint >= %d" % v, "Type.varint < %d" % v,
                "any(Type.varint == x for x in [%d])" % v]
    for v in by_type.get("net.ipaddress", [])[:1]:
        out += ["Type.net.ipaddress == %r" % str(v), "Type.net.ipaddress != %r" % str(v)]
    for v in by_type.get("uri", [])[:1]:
        out += ["Type.uri.filename == %r" % v.filename, "%r in Type.uri" % v.hostname]
    for v in by_type.get("float", [])[:1]:
        out += ["Type.float == %r" % float(v), "Type.float > %r" % (float(v) - 1)]
    for v in by_type.get("string[]", [])[:1]:
        out += ["%r in r.l" % v[0]]
    out += ["Type.string == 'nowhere'", "Type.varint == -7"]
    return out


def genexp_iterable_exprs(rec):
    """any / all over several for clauses where a later clause iterates over a generator expression; built from the
    record's own list values so that the deciding combination needs an element of the outer list at index >= 1."""
    out = []
    l, nl, sl = rec.l, rec.nl, rec.sl
    if l and len(l) >= 2:
        last = str(l[-1])
        out += [
            "any(a == b for a in r.l for b in (x for x in [%r, 'q-q']))" % last,
            "any(a == b for a in r.l for b in (x for x in [%r]))" % last,
            "all(a != b for a in r.l for b in (x for x in [%r]))" % last,
            "any(lower(a) == b for a in r.l for b in (lower(x) for x in [%r, 'q-q']))" % last.upper(),
            "any(a + '!' == b for a in r.l for b in (x + '!' for x in r.l if x == %r))" % last,
            "any(a == b for a in r.l for b in (x for x in r.l if x != %r))" % str(l[0]),
            "all(any(a == b for b in (x for x in [%r, %r])) for a in r.l)" % (str(l[0]), last),
            "any(a == b and n == n for n in [1, 2] for a in r.l for b in (x for x in [%r]))" % last,
            "any(n == 2 and a == b for n in [1, 2] for a in (x for x in r.l) for b in (y for y in [%r]))" % last,
            "any(a == b for a in r.l for b in (x for x in [a]) if a == %r)" % last,
        ]
        if sl:
            out += ["any(a == b for a in r.l for b in (lower(x) for x in r.sl))", "all(a != b for a in r.l for b in (upper(x) for x in r.sl))",
                    "any(a == b for c in r.sl for a in (x for x in r.l) for b in (y for y in r.sl))"]
    if nl and len(nl) >= 2:
        a, b = int(nl[-1]), int(nl[-1]) + 4
        out += [
            "any(n * m == %d for n in r.nl for m in (k + 4 for k in r.nl))" % (a * b),
            "any(n + m == %d for n in r.nl for m in (k for k in [%d]))" % (a + 1000, 1000),
            "all(n + m != %d for n in r.nl for m in (k for k in [%d]))" % (a + 1000, 1000),
            "any(n == m for n in r.nl for m in (k for k in r.nl if k == %d))" % a,
            "any(n == m for n in r.nl for m in (k for k in [1000, %d]) if n >= 0)" % a,
        ]
    return out


HASH_SEEDS = ("0", "1", "2", "3", "5", "11")
HASH_SEEDS_THOROUGH = tuple(str(i) for i in (0, 1, 2, 3, 4, 5, 6, 7, 8, 9, 11, 13, 17, 23, 42, 99, 1000, 65535, 4294967295))
CTOR_ARGS = {
    "boolean": "True", "command": "'ls -l'", "dynamic": "1", "datetime": "'2020-01-01T00:00:00'", "filesize": "5", "uint16": "5", "uint32": "5",
    "float": "1.5", "string": "'x'", "stringlist": "['a']", "dictlist": "[]", "unix_file_mode": "420", "varint": "5", "wstring": "'x'",
    "net.ipv4.Address": "'10.1.2.3'", "net.ipv4.Subnet": "'10.0.0.0/8'", "net.tcp.Port": "80", "net.udp.Port": "80", "uri": "'http://x/y'",
    "digest": "(None, None, None)", "bytes": "b'x'", "net.ipaddress": "'10.1.2.3'", "net.ipnetwork": "'10.0.0.0/8'",
    "net.IPAddress": "'10.1.2.3'", "net.IPNetwork": "'10.0.0.0/8'", "path": "'/a/b'",
}


def run_child(ctx, job, hashseed="0", timeout=180):
    """Run verif.child_c07 in a fresh interpreter; -> decoded output or None (then the run is inconclusive, never 'held')."""
    env = dict(os.environ)
    env["PYTHONHASHSEED"] = hashseed
    env["PYTHONPATH"] = VERIF_DIR + (os.pathsep + env["PYTHONPATH"] if env.get("PYTHONPATH") else "")
    try:
        p = subprocess.run([sys.executable, "-W", "ignore", "-m", "verif.child_c07"], input=json.dumps(job), capture_output=True, text=True,
                           timeout=timeout, env=env, cwd=VERIF_DIR)
    except subprocess.TimeoutExpired:
        ctx.require(False, "child interpreter exceeded %d s" % timeout)
        return None
    if p.returncode != 0:
        ctx.require(False, "child interpreter failed: %s" % p.stderr[-400:])
        return None
    ctx.event("child interpreters")
    return json.loads(p.stdout)


def helper_model(rec, helper, fields, arg, nocase=True):
    """The documented loop of field_equals / field_contains / field_regex: listed order, skip fields the record lacks,
    stop at the first match.  -> ('V', bool) or ('E',) when the helper's own operation raises on a value it reaches."""
    try:
        for f in fields:
            if f not in rec._desc.get_all_fields():
                continue
            v = getattr(rec, f)
            if helper == "field_regex":
                if re.search(arg, v) is not None:
                    return ("V", True)
                continue
            strings = [refselector.h_lower(x) for x in arg] if nocase else arg
            vv = refselector.h_lower(v) if nocase else v
            for x in strings:
                if (x == vv) if helper == "field_equals" else (x in vv):
                    return ("V", True)
        return ("V", False)
    except Exception:  # noqa: BLE001
        return ("E",)


def helper_order_cases(pool):
    """-> [(record index, expression, expected)]: multi-field lists in which one listed field matches and another holds
    a value the helper raises on (None, an integer, a float), in both orders, with duplicates and with longer lists."""
    out = []
    for ri in range(0, 10):
        rec = pool[ri]
        texts = [f for f in ("s", "t", "w") if isinstance(getattr(rec, f), str) and getattr(rec, f)]
        bad = [f for f in ("s", "t", "w", "_source", "_classification") if getattr(rec, f) is None][:2]
        bad += [f for f in ("n", "u16", "f", "port") if getattr(rec, f) is not None][:3]
        for a in texts[:2]:
            val = str(getattr(rec, a))
            lists = []
            for b in bad:
                lists += [[a, b], [b, a], [a, a, b], [a, "zz", b]]
            lists += [[a] + bad, bad + [a], [a] + bad + ["nope", "zz", a], ["zz"] + [a] + bad[::-1] + ["l"]]
            for fl in lists:
                for helper, arg, kw, src in (
                    ("field_contains", [val], {}, "field_contains(r, %r, %r)" % (fl, [val])),
                    ("field_contains", [val[:2]], {"nocase": False}, "field_contains(r, %r, %r, nocase=False)" % (fl, [val[:2]])),
                    ("field_regex", re.escape(val), {}, "field_regex(r, %r, %r)" % (fl, re.escape(val))),
                    ("field_equals", [val.upper(), "zz"], {}, "field_equals(r, %r, %r)" % (fl, [val.upper(), "zz"])),
                    ("field_regex", "no-such-text", {}, "field_regex(r, %r, 'no-such-text')" % (fl,)),
                ):
                    out.append((ri, src, helper_model(rec, helper, fl, arg, **kw)))
    return out


def exec_hashseed(ctx, case):
    pool = pool_for(ctx, case["pool"])
    cases = helper_order_cases(pool)
    res = run_child(ctx, {"mode": "helpers", "pool": case["pool"], "cases": [[ri, e] for ri, e, _ in cases]}, hashseed=case["hashseed"])
    if res is None:
        return
    ctx.cell("hashseed", case["hashseed"])
    for (ri, expr, want), (ri2, expr2, got_i, got_c) in zip(cases, res["results"]):
        assert (ri, expr) == (ri2, expr2)
        for engine, got in (("interpreted", got_i), ("compiled", got_c)):
            ctx.ev()
            ctx.event("hashseed evaluations")
            ctx.event("hashseed expected:" + ("raise" if want[0] == "E" else str(want[1])))
            ok = (got[0] == "E") if want[0] == "E" else (tuple(got) == want)
            if ok:
                continue
            ctx.violation(None, "%s engine: a helper does not follow the listed field order (outcome under PYTHONHASHSEED=%s differs from the documented loop)"
                          % (engine, case["hashseed"]),
                          detail={"expression": expr, "record": repr(pool[ri])[:800], "PYTHONHASHSEED": case["hashseed"], "engine": engine,
                                  "expected": "raises" if want[0] == "E" else want[1], "result": got[1]})
    ctx.nontrivial("hashseed", case["pool"], case["hashseed"])
    ctx.sample({"helper expressions": len(cases), "PYTHONHASHSEED": case["hashseed"], "example": cases[0][1] if cases else None}, kind="hashseed")


def cold_exprs():
    out = []
    for t in refselector._whitelist():
        if t in CTOR_ARGS:
            arg = CTOR_ARGS[t]
            out += ["%s(%s) == %s" % (t, arg, arg), "r.v == %s(%s)" % (t, arg), "%s(%s) != r.s" % (t, arg)]
        parts = t.split(".")
        for i in range(1, len(parts)):
            out.append("%s != None" % ".".join(parts[:i]))      # a namespace leading to a type, in value position
    out += ["r.s in net.ipv4.Subnet('10.0.0.0/8')", "r.s in net.ipnetwork('10.0.0.0/8')", "net.tcp.Port(80) == r.v and net.udp.Port(53) != r.v"]
    return list(dict.fromkeys(out))


def exec_cold(ctx, case):
    """Outcome in a cold child == outcome here (everything imported long ago); net.* additionally == the reference."""
    from flow.record import RecordDescriptor
    from flow.record.selector import CompiledSelector, Selector

    exprs = cold_exprs()
    if case.get("only") is not None:
        exprs = [exprs[case["only"]]]
    res = run_child(ctx, {"mode": "cold", "order": case["order"], "exprs": exprs})
    if res is None:
        return
    ctx.note("cold_child_net_modules_before_first_evaluation", res.get("net_modules_before"))
    rec = RecordDescriptor("cold/plain", [("varint", "v"), ("string", "s")])(v=80, s="10.1.2.3")
    engines = {"interpreted": Selector, "compiled": CompiledSelector}
    first = case["order"][0]
    for engine, expr, got in res["results"]:
        ctx.ev()
        ctx.event("cold evaluations")
        ctx.cell("cold", engine, "first" if engine == first else "second")
        warm, _ = run_engine(engines[engine], expr, rec)
        same = (got[0] == "E" and warm[0] == "E") or tuple(got) == warm
        try:
            ref = ("V", ref_truth(ast.parse(expr, mode="eval"), rec))
        except (Undefined, Unsupported):
            ref = None
        must = classify_support(expr)[0] == "must"
        if same and not (must and ref is not None and tuple(got) != ref):
            continue
        ctx.violation(None, "%s engine: a whitelisted constructor / namespace evaluates differently in a process that has not imported the field type modules yet" % engine,
                      detail={"expression": expr, "engine": engine, "cold_outcome": got, "warm_outcome": list(warm), "reference": ref,
                              "engine_order_in_child": case["order"], "net_modules_loaded_in_child": res.get("net_modules_before")})
    ctx.nontrivial("cold", tuple(case["order"]))
    ctx.sample({"cold expressions": len(exprs), "order": case["order"]}, kind="cold")


def reject_texts(seed, rounds=3):
    """Texts that builtin ast.parse(text, mode='eval') rejects but that become expressions inside a simple wrapper:
    parenthesised, in a list / call, with parentheses prefixed / suffixed, joined by newlines."""
    rng = random.Random(subseed("c07", seed, "reject"))
    base = ["r.n == 1", "r.s == 'Hello'", "r.m > 2", "'x' in r.l", "lower(r.s) == 'hello'", "r.n in r.nl", "has_field(r, 's')", "True", "r.b",
            "any(x > 1 for x in r.nl)", "Type.string == 'x'", "not r.n"]
    base += [selgen.gen_expr(rng, rng.choice([0, 1]), C07_INFO, support="must", avoid=()) for _ in range(10)]
    texts = ["x == 99 for x in r.nl", "x for x in r.nl", "r.n == 1, r.s == 'x' for x in r.nl", "n := r.n", "(n := r.n) == 1 and\nn", "*r.l", "*r.l,\n1",
             "**r", "yield", "yield r.n", "r.n == 1 if", "r.n ==", "== r.n", "r.n = 1", "r.n == 1;True", "r.n == 1 r.m == 2", "lambda:", "r.n == 1 else 2",
             "for x in r.nl: x", "import os", "r.n == 1 #\n) or (True", "x=1", "r, nocase=True", "1 if r.n", "r.n if", "not", "r.", ".n", "r.n == 1 and",
             "and r.n == 1", "r.n == 1)", "(r.n == 1", "[r.n == 1", "r.n == 1]", "r.n == 1))((", "  r.n == 1\n  and r.m == 2", "\tr.n == 1\nr.m == 2", ""]
    for _ in range(rounds):
        for a in base:
            b = rng.choice(base)
            texts += ["%s) or (%s" % (a, b), "%s) and (%s" % (a, b), "%s), (%s" % (a, b), "%s] + [%s" % (a, b), "%s\nand %s" % (a, b), "%s\nor\n%s" % (a, b),
                      "%s and\n%s" % (a, b), "%s\n,%s" % (a, b), "%s\n%s" % (a, b), "%s\n == True" % a, "\n\n%s\n\nor %s" % (a, b), "%s) == (%s) or (%s" % (a, b, a),
                      " %s\n and %s" % (a, b), "%s\n)" % a, "(\n%s" % a, "%s, *" % a, "%s for q_ in [1]" % a, "q_ for q_ in [%s]" % a, "%s if %s" % (a, b),
                      "%s and (\n%s" % (a, b), "%s \\\n) or (%s" % (a, b)]
    out = []
    for t in dict.fromkeys(texts):
        try:
            ast.parse(t, mode="eval")
        except (SyntaxError, ValueError):
            if t.strip():
                out.append(t)
    return out


def exec_reject(ctx, case):
    from flow.record.selector import CompiledSelector, Selector

    text = case["expr"]
    try:
        ast.parse(text, mode="eval")
        ctx.event("skipped:reject-text-is-an-expression")
        return
    except (SyntaxError, ValueError):
        pass
    rec = pool_for(ctx, case["pool"])[case["rec"]]
    ctx.ev()
    ctx.event("reject texts")
    ctx.nontrivial("reject", text)
    for engine, cls in (("interpreted", Selector), ("compiled", CompiledSelector)):
        got, exc = run_engine(cls, text, rec)
        if got[0] == "E":
            ctx.event("%s:not-an-expression:rejected" % engine)
            continue
        ctx.violation(None, "%s engine evaluated a text that is not a Python expression instead of rejecting it" % engine,
                      detail={"text": text, "engine": engine, "result": got[1], "record": repr(rec)[:400]})
    ctx.sample({"text": text, "expected": "rejected"}, kind="reject")


CTL_VALUES = ["powershell\n-enc AAAA", "a\nb", "a\r\nb", "a\x0bb", "a\x0cb", "a\x1cb", "a\x1db", "a\x1eb", "a\x85b", "a\u2028b", "a\u2029b",
              "a\x00b", "line\n", "line\r\n", "\nline", "tab\tsep", " lead", "end ", "a b", "ab", "Straße", "STRASSE", "İstanbul", "ǅ", "\u212a",
              "k", "ſ", "", "\n", "powershell -enc"]
CTL_PATTERNS = ["powershell.*-enc", "a.b", "a..b", "^b", "b$", "^a", "line$", "line\\Z", "^line$", "a\\sb", "a\\s+b", "\\ba\\b", "\\bb\\b", "^a.b$", "a.*b",
                "a[^x]b", "(?s)a.b", "(?m)^b", "(?m)a$", "(?i)strasse", "(?i)straße", "(?i)STRAßE", "(?i)i", "(?i)k", "(?i)\u212a", "(?i)ǆ", "(?i)s", ".",
                "^$", "\\n", "\\x00", "\\Aa", "b\\Z", "^.*$", "\\S+\\s\\S+", "(?x) a . b"]


def ctl_records():
    """Fixed records (same for every seed) whose text / bytes values hold line feeds, other line-break and control
    characters, NUL, leading / trailing blanks and characters with special case mappings."""
    from flow.record import RecordDescriptor

    D = RecordDescriptor("sel/ctl", [("string", "cmd"), ("string", "s2"), ("wstring", "w"), ("bytes", "by"), ("string[]", "l")])
    out = []
    for i, v in enumerate(CTL_VALUES):
        out.append(D(cmd=v, s2=CTL_VALUES[(i + 7) % len(CTL_VALUES)], w=v, by=v.encode("utf-8", "surrogatepass"), l=[v, "x"]))
    return out


def ctl_exprs(rec):
    v = rec.cmd
    out = ["field_regex(r, ['cmd'], %r)" % p for p in CTL_PATTERNS]
    out += ["field_regex(r, ['s2', 'cmd'], %r)" % p for p in CTL_PATTERNS[:6]]
    out += ["field_regex(r, ['w'], %r)" % p for p in CTL_PATTERNS[:12]]
    out += ["field_regex(r, ['by'], %r)" % p.encode() for p in ("a.b", "^b", "b$", "line$", "a\\sb", "powershell.*-enc", "(?s)a.b")]
    cands = list(dict.fromkeys([v, v.upper(), v.lower(), v.casefold(), v.swapcase(), v.strip(), v.replace("\n", " "), v[:1], v[-1:], v[1:-1], "b", "a b", "-enc"]))
    for c in cands:
        out += ["field_contains(r, ['cmd'], [%r])" % c, "field_contains(r, ['cmd'], [%r], nocase=False)" % c, "field_equals(r, ['cmd'], [%r])" % c,
                "field_equals(r, ['cmd', 'w'], [%r], nocase=False)" % c]
        if c.strip():
            out += ["field_contains(r, ['cmd'], [%r], word_boundary=True)" % c, "field_contains(r, ['cmd'], [%r], nocase=False, word_boundary=True)" % c]
    out += ["lower(r.cmd) == %r" % v.lower(), "upper(r.cmd) == %r" % v.upper(), "lower(r.cmd) == %r" % v.casefold(), "%r in r.cmd" % "\n",
            "r.cmd == %r" % v, "r.cmd != %r" % v.strip(), "%r in r.l" % v, "Type.string == %r" % v, "%r in Type.string" % v[1:]]
    return list(dict.fromkeys(out))


COLLISION_NAMES = ["records", "name", "fields", "desc", "values", "keys", "items", "get", "type", "Type", "r", "str", "any", "all", "lower", "upper",
                   "names", "has_field", "field_contains", "field_equals", "field_regex", "get_type", "net", "record", "match", "data", "rec",
                   "expression", "val", "value", "descriptors", "flat_fields", "fieldname_to_record", "repr", "self", "cls", "getfields", "_desc",
                   "_source2", "None_", "True_"]


def collision_records():
    """-> [(record, colliding field name, its type)]: plain records that declare a field with a name the engines or the
    helpers also use for something else, as string / varint / string[] / record / record[] field; plus grouped records
    holding such members.  Names the library refuses in a descriptor are skipped."""
    from flow.record import GroupedRecord, RecordDescriptor

    cache = collision_records.__dict__.setdefault("cache", None)
    if cache is not None:
        return cache
    Sub = RecordDescriptor("col/sub", [("string", "ss"), ("varint", "sn")])
    Plain = RecordDescriptor("col/plain", [("string", "other"), ("varint", "k")])
    values = {"string": "Hello", "varint": 7, "string[]": ["Hello", "x"], "record": Sub(ss="inner", sn=5), "record[]": [Sub(ss="n1", sn=1), Sub(ss="n2", sn=2)]}
    out = []
    for ni, fname in enumerate(COLLISION_NAMES):
        for ftype in ("string", "varint", "string[]", "record", "record[]"):
            try:
                D = RecordDescriptor("col/t%d" % ni, [(ftype, fname), ("string", "other"), ("varint", "k")])
                rec = D(**{fname: values[ftype], "other": "Hello", "k": 7})
            except Exception:  # noqa: BLE001 - not a valid field name for the library: outside the input class
                continue
            out.append((rec, fname, ftype))
            # grouped: not the names of GroupedRecord's own instance attributes (name, records, descriptors, flat_fields,
            # fieldname_to_record) - such a member field is unreachable through the group itself (base.py, see ASSUMPTIONS)
            if ftype in ("record[]", "string", "varint") and fname in ("fields", "values", "r", "Type", "names", "record", "type", "get", "data"):
                try:
                    out.append((GroupedRecord("col/group", [Plain(other="Hello", k=7), rec]), fname, ftype))
                    out.append((GroupedRecord("col/group", [rec, Plain(other="x", k=1)]), fname, ftype))
                except Exception:  # noqa: BLE001
                    pass
    collision_records.cache = out
    return out


def collision_exprs(rec, fname, ftype):
    out = ["names(r) == names(r)", "'col/sub' in names(r)", "'col/plain' in names(r)", "%r in names(r)" % rec._desc.name, "name(r) == %r" % rec._desc.name,
           "name(r) == 'col/sub'", "has_field(r, %r)" % fname, "has_field(r, 'other')", "r.other == 'Hello'", "r.k == 7",
           "field_equals(r, [%r, 'other'], ['hello'])" % fname, "field_contains(r, ['other', %r], ['ell'])" % fname if ftype in ("string", "string[]") else "r.k > 1",
           "Type.string == 'Hello'", "Type.varint == 7", "'ell' in Type.string", "Type.varint >= 5", "Type.string == 'inner'", "Type.varint == 5",
           "field_contains(r, Type.string, ['ell'])", "any(f == %r for f in Type.%s)" % (fname, ftype if ftype in ("string", "varint") else "string")]
    if ftype == "string":
        out += ["r.%s == 'Hello'" % fname, "lower(r.%s) == 'hello'" % fname, "field_regex(r, [%r], '^H')" % fname, "'ell' in r.%s" % fname,
                "str(r.%s) == 'Hello'" % fname, "r.%s != r.other" % fname]
    elif ftype == "varint":
        out += ["r.%s == 7" % fname, "r.%s + 1 == 8" % fname, "r.%s in [7]" % fname, "r.%s == r.k" % fname, "str(r.%s) == '7'" % fname]
    elif ftype == "string[]":
        out += ["'Hello' in r.%s" % fname, "any(x == 'x' for x in r.%s)" % fname, "r.%s == ['Hello', 'x']" % fname, "all(lower(x) != 'q' for x in r.%s)" % fname]
    elif ftype == "record":
        out += ["r.%s.ss == 'inner'" % fname, "r.%s.sn == 5" % fname, "r.%s is not None" % fname, "name(r.%s) == 'col/sub'" % fname if False else "r.%s.sn > 1" % fname]
    else:
        out += ["any(x.ss == 'n2' for x in r.%s)" % fname, "all(x.sn > 0 for x in r.%s)" % fname, "r.%s != []" % fname, "any(x.sn == 2 for x in r.%s if x.ss != 'n1')" % fname]
    return list(dict.fromkeys(out))


def loop_variable_names():
    """Loop variable names that also mean something else: every WHITELIST root and path component, the helper names,
    r / Type / net, builtins the engines do or do not know.  Which of them an engine may refuse is classify_support's
    business (names that are bound in the selector namespace are may-reject); for all others Python's scoping holds."""
    import builtins

    names = set()
    for t in refselector._whitelist():
        names.update(t.split("."))
    names.update(refselector.HELPERS)
    names.update(["r", "Type", "net", "str", "repr", "any", "all", "fields", "len", "int", "list", "id", "type", "max", "min", "set", "dict", "print",
                  "object", "filter", "map", "sum", "bool", "float", "bytes", "tuple", "input", "open", "self", "rec", "x"])
    return sorted(n for n in names if n.isidentifier() and n not in ("None", "True", "False") and (n in vars(builtins) or True))


def loop_variable_exprs(rec, v):
    out = []
    l, nl, subs = rec.l, rec.nl, rec.subs
    if l:
        last, first = str(l[-1]), str(l[0])
        out += ["any({v} == %r for {v} in r.l)" % last, "any({v} != %r for {v} in r.l)" % first, "all({v} != 'q-q' for {v} in r.l)",
                "any({v} in [%r, 'zz'] for {v} in r.l)" % last, "any(lower({v}) == %r for {v} in r.l)" % last.lower(),
                "any(True for {v} in r.l if {v} == %r)" % last, "any({v} == y_ for {v} in r.l for y_ in [%r])" % last,
                "any(y_ == {v} for y_ in [%r] for {v} in r.l)" % last, "any(any({v} == y_ for y_ in r.l) for {v} in [%r])" % last,
                "any({v} + '!' == %r for {v} in r.l)" % (last + "!"), "%r in [%r] and any({v} == %r for {v} in r.l)" % (last, last, last)]
    if nl:
        a = int(nl[-1])
        out += ["any({v} == %d for {v} in r.nl)" % a, "any({v} + 1 > %d for {v} in r.nl)" % a, "all({v} * 2 != %d for {v} in r.nl)" % (2 * a + 1)]
    if subs:
        ss = subs[-1].ss
        out += ["any({v}.ss == %r for {v} in r.subs)" % ss, "all({v}.sn != -7 for {v} in r.subs)", "any({v}.sip != None for {v} in r.subs)"]
    if v == "r":
        # `for r in r.l` in a later clause reads the generator's own (still unbound) local in Python: not an expression
        # with a defined value
        out = [e for e in out if " for y_ in [" not in e.split(" for {v} in r.l")[0] or not e.endswith("for {v} in r.l)")]
    return [e.replace("{v}", v) for e in out]


def exec_respell(ctx, case):
    """The same text through every builder of respell_c07.forms(): each verdict == the reference."""
    expr = case["expr"]
    rec = respell_c07.respell_records()[case["rec"]]
    try:
        ref = ("V", ref_truth(ast.parse(expr, mode="eval"), rec))
    except (Undefined, Unsupported, SyntaxError):
        ctx.event("skipped:undefined")
        return
    ctx.ev()
    ctx.event("defined:whitespace-in-literal")
    ctx.nontrivial("respell", expr, case["rec"])
    for name, build in respell_c07.forms(expr).items():
        try:
            got = ("V", bool(build().match(rec)))
        except Exception as e:  # noqa: BLE001
            got = ("E", type(e).__name__)
        ctx.event("respell:" + ("agree" if got == ref else "VIOLATION"))
        if got != ref:
            ctx.violation(None, "a selector object rebuilt from the text of another one does not give the reference verdict",
                          detail={"text": expr, "form": name, "reference": ref[1], "result": got[1], "record": repr(rec)})
    ctx.sample({"text": expr, "reference": ref[1]}, kind="respell")


def near_miss_names():
    """-> sorted list of (name, dotted).  Every proper string prefix of a whitelisted type path that does not end at a
    component boundary, plus one-character extensions of the complete paths - minus everything that IS in the language
    or in Python (exact type paths, namespaces leading to one, r / Type / helper names, builtins, keywords) and minus
    dotted names that really exist as attributes of the net module (their Python meaning is an implementation detail)."""
    import builtins
    import keyword

    from flow.record.fieldtypes import net

    wl = refselector._whitelist()
    valid = set(wl)
    for t in wl:
        parts = t.split(".")
        for i in range(1, len(parts)):
            valid.add(".".join(parts[:i]))
    cands = set()
    for t in wl:
        for i in range(1, len(t)):
            if t[i - 1] != "." and t[i] != ".":
                cands.add(t[:i])
        for ext in ("x", "s", "3", "_"):
            cands.add(t + ext)
    out = []
    for c in sorted(cands):
        if c in valid or c.endswith("."):
            continue
        root = c.split(".")[0]
        if "." not in c:
            if c in refselector.RESERVED_NAMES or hasattr(builtins, c) or keyword.iskeyword(c) or not c.isidentifier():
                continue
            out.append((c, False))
        else:
            if root != "net" or not all(p.isidentifier() for p in c.split(".")):
                continue
            obj, ok = net, True
            for p in c.split(".")[1:]:
                if not hasattr(obj, p):
                    ok = False
                    break
                obj = getattr(obj, p)
            if ok:
                continue   # e.g. net.ip is a real submodule
            out.append((c, True))
    return out


def near_miss_exprs(name, dotted):
    if dotted:
        # an unknown attribute of a namespace: rejected, or treated like a missing attribute (comparison false, C08)
        return ["r.ip == %s" % name, "r.ip != %s" % name, "%s == r.s" % name, "%s != r.n" % name, "r.n != %s and True" % name]
    return [
        "r.n == %s" % name, "r.n != %s" % name, "%s == r.s" % name, "%s != r.s" % name, "not %s" % name, name, "%s in names(r)" % name,
        "r.n in [%s]" % name, "(r.n, %s) != (1, 2)" % name, "any(q_ != %s for q_ in [r.n])" % name, "lower(%s) != 'x'" % name,
        "True and %s" % name, "False or r.s != %s" % name, "%s(1) != 1" % name, "%s('x') != r.s" % name, "%s.x != 1" % name,
        "r.n != %s.lower" % name, "r.s + 'x' != %s" % name, "r.ip != %s" % name,
    ]


def exec_near_miss(ctx, case):
    """A name that is not in the language (and not in Python): both engines have to reject the expression.  For a
    dotted name under a real namespace the interpreted engine may instead treat it as a missing attribute, whose
    comparisons are false (C08)."""
    from flow.record.selector import CompiledSelector, Selector

    expr, dotted = case["expr"], case["kind"] == "dotted"
    rec = pool_for(ctx, case["pool"])[case["rec"]]
    ctx.ev()
    ctx.cell("near-miss", case["kind"])
    ctx.nontrivial("near-miss", expr)
    ctx.event("near-miss expressions")
    for engine, cls in (("interpreted", Selector), ("compiled", CompiledSelector)):
        got, exc = run_engine(cls, expr, rec)
        if got[0] == "E":
            ctx.event("%s:near-miss:rejected" % engine)
            continue
        if dotted and got == ("V", False):
            ctx.event("%s:near-miss:treated-as-missing-attribute" % engine)
            continue
        ctx.event("%s:near-miss:VIOLATION" % engine)
        ctx.violation(None, "%s engine evaluated an expression containing a name outside the language instead of rejecting it" % engine,
                      detail={"expression": expr, "name": case["name"], "engine": engine, "result": got[1], "record": repr(rec)[:600]})
    ctx.sample({"expr": expr, "name": case["name"], "expected": "rejected"}, kind="near-miss:" + case["kind"])


def deep_for(ctx, seed):
    cache = ctx.state.setdefault("deep", {})
    if seed not in cache:
        cache[seed] = selgen.deep_records(random.Random(seed ^ 0x5EED), 6 if ctx.quick else 16)
    return cache[seed]


def deep_exprs(k, v, deepest):
    """Typed-matcher expressions decided by the values of nesting depth k alone (v = selgen.level_values of that depth)."""
    s, n, ip, f, w = v["string"], v["varint"], v["net.ipaddress"], v["float"], v["wstring"]
    salt = s.split("-")[1]
    fname = "file%d-%s.txt" % (k, salt)
    out = [
        "Type.string == %r" % s, "Type.string in [%r, 'zz']" % s, "%r in Type.string" % ("lvl%d-" % k), "Type.wstring == %r" % w,
        "Type.wstring >= %r" % w, "Type.varint == %d" % n, "Type.varint in [%d, 5]" % n, "Type.varint >= %d" % n, "Type.varint > %d" % (n - 1),
        "Type.varint <= %d" % n, "Type.net.ipaddress == %r" % ip, "Type.net.ipaddress in net.ipnetwork('10.%d.0.0/16')" % (20 + k),
        "Type.uri.filename == %r" % fname, "Type.uri.hostname == 'h%d.example'" % k, "%r in Type.uri" % ("dir%d/" % k),
        "Type.datetime.year == %d" % (2001 + k), "Type.datetime.year > %d" % (2000 + k), "Type.float == %r" % f, "Type.float >= %r" % f,
        "Type.string == %r and Type.varint == %d" % (s, n), "not (Type.string == %r)" % s, "Type.string == %r or Type.varint == 7" % s,
        "any(Type.varint == x for x in [1, %d])" % n,
        # values that occur at no depth
        "Type.string == 'lvl%d-x'" % k, "Type.varint == %d" % (n + 1), "Type.net.ipaddress == '10.%d.99.99'" % (20 + k),
        "Type.uri.filename == 'file%d-none.txt'" % k,
    ]
    return out


def helper_type_exprs(rec, ftype, fname):
    """field_equals / field_contains / field_regex on one field of any type; the candidate strings are the text form
    of the field's value (which e.g. an address or a path accepts in ==), a case variant, an element for list-typed
    fields, and a non-matching string.  Whether a case is defined and what it yields is the reference's business."""
    import re

    v = getattr(rec, fname)
    cands = []
    if isinstance(v, (list, tuple)):
        cands += [str(x) for x in v[:1] if isinstance(x, (str, int))] + [str(v)]
    elif v is not None:
        # case variants: Python's str.lower() / str.upper() is the documented meaning of nocase, not casefold()
        cands += [str(v), str(v).upper(), str(v).lower(), str(v).casefold(), str(v).swapcase()]
    if ftype == "command":
        cands += selgen.CMDS[:2]
    if ftype in ("path", "path[]"):
        cands += ["/a/b", "C:/TMP/hello", "c:\\tmp\\Hello"]
    if ftype.startswith("net.ip") or ftype.startswith("net.IP"):
        cands += ["10.0.0.1", "10.0.0.0/8"]
    cands = [c for c in dict.fromkeys(cands) if len(c) < 80] or ["x"]
    first, rest = cands[0], cands[1:]
    out = ["field_equals(r, [%r], [%r])" % (fname, c) for c in rest[:4]] + ["field_contains(r, [%r], [%r])" % (fname, c) for c in rest[:4]]
    if isinstance(v, str):
        out += ["lower(r.%s) == %r" % (fname, v.lower()), "lower(r.%s) == %r" % (fname, v.casefold()), "upper(r.%s) == %r" % (fname, v.upper()),
                "upper(r.%s) == %r" % (fname, v.casefold().upper()), "'ς' in lower(r.%s)" % fname, "'ss' in lower(r.%s)" % fname,
                "'SS' in upper(r.%s)" % fname, "lower(r.%s) == lower(%r)" % (fname, v.swapcase()), "'i' in lower(r.%s)" % fname]
    out += [
        "field_equals(r, [%r], [%r])" % (fname, first),
        "field_equals(r, [%r], [%r], nocase=False)" % (fname, first),
        "field_equals(r, ['zz', %r, 's'], %r)" % (fname, ["zz"] + rest[:2] + [first]),
        "field_equals(r, [%r], ['zz', 'nope'])" % fname,
        "field_contains(r, [%r], [%r])" % (fname, first),
        "field_contains(r, [%r, 's'], [%r], nocase=False)" % (fname, first),
        "field_regex(r, [%r], %r)" % (fname, re.escape(first)),
    ]
    return out


def run_engine(cls, expr, rec):
    try:
        v = cls(expr).match(rec)
        return ("V", bool(v)), None
    except Exception as e:  # noqa: BLE001 - which exception class is left open by the property
        return ("E", type(e).__name__), e


def execute(ctx, case):
    from flow.record.selector import CompiledSelector, Selector

    expr = case["expr"]
    if case["k"] == "near-miss":
        return exec_near_miss(ctx, case)
    if case["k"] == "reject":
        return exec_reject(ctx, case)
    if case["k"] == "respell":
        return exec_respell(ctx, case)
    if case["k"] == "hashseed":
        return exec_hashseed(ctx, case)
    if case["k"] == "cold":
        return exec_cold(ctx, case)
    if case["k"] == "grouped-seq":
        # one long-lived selector object per engine sees the groups one after the other, next to fresh objects
        groups = grouped_for(ctx, case["pool"])
        long_lived = {"interpreted": Selector(expr), "compiled": CompiledSelector(expr)}
        for gi in case["recs"]:
            check_pair(ctx, case, expr, groups[gi], long_lived)
        return
    if case["k"] == "deep":
        rec = deep_for(ctx, case["pool"])[case["rec"]][0]
    elif case["k"] == "ctl":
        rec = ctl_records()[case["rec"]]
    elif case["k"] == "collision":
        rec = collision_records()[case["rec"]][0]
    else:
        rec = pool_for(ctx, case["pool"])[case["rec"]]
    check_pair(ctx, case, expr, rec, None)


def check_pair(ctx, case, expr, rec, long_lived):
    from flow.record.selector import CompiledSelector, Selector

    shape = selgen.shape_of(rec)
    ctx.ev()
    tree = ast.parse(expr, mode="eval")
    support, reasons = classify_support(expr)
    ctx.event("class:" + support)

    try:
        ref = ref_truth(tree, rec)
    except Undefined:
        ctx.event("skipped:undefined")
        ctx.cell("undefined", shape)
        return
    except Unsupported:
        ctx.event("skipped:not-evaluable-by-reference")
        return
    ctx.event("defined")
    ctx.event("defined:" + support)
    ctx.cell("defined", shape, ref)

    # oracle self-check: on plain Python (no typed matcher) the walker must agree with builtin eval
    if not any(isinstance(n, ast.Name) and n.id == "Type" for n in ast.walk(tree)):
        try:
            g = dict(refselector.make_namespace(rec, False))
            g["__builtins__"] = {}   # as globals: names must be visible inside generator expressions too
            ev = bool(eval(compile(tree, "<selfcheck>", "eval"), g))  # noqa: S307
            ok = ev == ref
            why = "eval=%r walker=%r" % (ev, ref)
        except Exception as e:  # noqa: BLE001
            ok, why = False, "eval raised %s on a case the walker defines" % type(e).__name__
        if ok:
            ctx.event("oracle_selfcheck_agree")
        else:
            ctx.event("oracle_selfcheck_DISAGREE")
            ctx.require(False, "oracle self-check failed (reference walker vs builtin eval): %s on %r" % (why, expr[:200]))
            return

    kinds = node_kinds(tree)
    if case["k"] in ("ctl", "collision", "loop-var"):
        ctx.event("defined:" + case["kind"])
        ctx.cell(case["kind"], expr.split("(")[0][:24], ref)
    if case["k"] == "deep":
        ctx.cell("typed-matcher-depth", case["kind"], ref)
    if case["k"] == "helper-type":
        ctx.cell("helper-on-type", case["kind"], expr.split("(")[0])
        ctx.event("defined:helper-on-type")
    if support == "must":
        for k in kinds:
            ctx.cell("kind", k)
    else:
        for r in reasons:
            ctx.cell("may-reject", r)
    if reads_a_field(tree):
        ctx.nontrivial(expr, case["pool"], case.get("rec", shape + repr(rec._desc.get_field_tuples())))

    runs = [("interpreted", Selector), ("compiled", CompiledSelector)]
    if long_lived:
        runs += [(engine, (lambda _e, sel=sel: sel)) for engine, sel in long_lived.items()]
        ctx.cell("grouped-sequence", "%d fields" % len(rec._desc.fields), ref)
        ctx.event("defined:grouped-sequence")
    for engine, cls in runs:
        got, exc = run_engine(cls, expr, rec)
        if got == ("V", ref):
            ctx.event("%s:%s:agree" % (engine, support))
            continue
        if got[0] == "E" and support == "may-reject":
            ctx.event("%s:may-reject:rejected" % engine)
            continue
        what = "raised" if got[0] == "E" else "returned a different truth value"
        key = classify(engine, tree, rec, ref, got, exc)
        ctx.event("%s:%s:%s" % (engine, support, "KNOWN:" + key if key else "VIOLATION"))
        ctx.violation(
            key,
            "%s engine %s on a %s expression" % (engine, what, "must-support" if support == "must" else "may-reject"),
            detail={"expression": expr, "record": repr(rec)[:1500], "reference": ref, "engine": engine,
                    "engine_result": got[1], "exception": repr(exc)[:300] if exc is not None else None,
                    "support": support, "may_reject_reasons": sorted(reasons)},
        )
    ctx.sample({"expr": expr, "record_shape": shape, "reference": ref, "support": support}, kind=case["k"] + ":" + support + ":" + shape)


def finish(ctx):
    ctx.state["reach"].into(ctx)
    need = -(-MIN_DEFINED_PER_KIND // max(1, ctx.nshards))
    ctx.note("min_defined_cases_per_kind_per_shard", need if ctx.shard == 0 else 0)
    ctx.note("required_kinds", len(REQUIRED_KINDS) if ctx.shard == 0 else 0)
    for k in REQUIRED_KINDS:
        have = ctx.cells.get("kind/" + k, 0)
        ctx.require(have >= need, "must-support kind %s has only %d defined cases in shard %d (need %d)" % (k, have, ctx.shard, need))
    ctx.require(ctx.events.get("oracle_selfcheck_agree", 0) > 0, "the oracle self-check against builtin eval never ran")
    ctx.require(ctx.events.get("defined:may-reject", 0) > 0, "no defined may-reject case")
    ctx.require(ctx.events.get("defined:whitespace-in-literal", 0) > 0, "no defined whitespace-in-literal case in shard %d" % ctx.shard)
    ctx.require(ctx.events.get("defined:loop-variable-name", 0) > 0, "no defined case with a loop variable named like a type / helper in shard %d" % ctx.shard)
    ctx.require(ctx.events.get("defined:control-characters", 0) > 0, "no defined helper case on control-character values in shard %d" % ctx.shard)
    ctx.require(ctx.events.get("defined:field-name-collision", 0) > 0, "no defined case on colliding field names in shard %d" % ctx.shard)
    ctx.require(ctx.events.get("reject texts", 0) > 0, "no non-expression text was tried in shard %d" % ctx.shard)
    ctx.require(ctx.events.get("near-miss expressions", 0) > 0, "no near-miss identifier was tried in shard %d" % ctx.shard)
    ctx.require(ctx.events.get("defined:grouped-sequence", 0) > 0, "no defined typed-matcher case on a sequence of grouped records")
    for k in range(4):
        ctx.require(ctx.cells.get("typed-matcher-depth/depth%d/True" % k, 0) > 0,
                    "no defined typed-matcher case decided by a value at nesting depth %d in shard %d" % (k, ctx.shard))
    for t in HELPER_TYPES_REQUIRED:
        ctx.require(ctx.cells.get("helper-on-type/%s/field_equals" % t, 0) > 0,
                    "field_equals on a %s field has no defined case in shard %d" % (t, ctx.shard))
    for q in ("flow.record.selector:RecordContextMatcher._eval", "flow.record.selector:CompiledSelector.match",
              "flow.record.selector:TypeMatcherInstance._op"):
        ctx.require(ctx.reach.get(q, 0) > 0, "anchor %s was never entered" % q)
