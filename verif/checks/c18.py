"""C18 - SQLite export keeps every record, independent of batch size (DESIGN section 4, C18)."""
from __future__ import annotations

import datetime as _dt
import os
import random
import shutil
import sqlite3
import tempfile

from .. import gen, observe, probes
from ..core import subseed

ID = "C18"
TITLE = "SQLite export (batches, schema evolution, visibility)"
LEVEL = "exploration"
RULE = (
    "cases = generated write histories: 1-4 record types with arbitrary valid type/field names (SQL keywords, Python keywords, "
    "mixed case, multi-segment, 1..60 characters, names starting with 'sqlite' that are not the reserved 'sqlite_' prefix), each type in 1-4 "
    "versions that gain fields or (sideways) drop some and bring new ones, 0-25 (thorough: up to 80) records "
    "interleaving types and versions, flush() calls at random positions; values drawn per field from the SQLite-mappable classes "
    "(text incl. NUL/astral/quotes, 64-bit integers incl. both limits, finite floats and +-inf, bytes incl. empty, timestamps with "
    "UTC offsets) and a set of other field types for the 'text form' clause.  Every history is written once per batch size "
    "{1,2,3,7,1000} (thorough: {1,2,3,4,5,7,16,1000}, 260 histories per shard of up to 144 records, one unmappable record at every "
    "position of a run of 16, the reader-lock fault at flush and at close for batch sizes 2,3,4,7,1000, 8 working-directory children per "
    "shard) while an independent sqlite3 connection is polled after every writer call.  Non-trivial = at least one record "
    "written; distinct = distinct (kind, sub-seed).  Oracle: transaction model over the polled row counts (V_k <= k, monotone, a "
    "change only at a multiple of the batch size (then V_k = k) or at the first record of a descriptor new to the writer (then "
    "V_k in {k-1, k}); V = k after flush() and after close()); schema = one table per type name with exactly the union of the "
    "written versions' fields as columns; rows per table = records of that type in write order; raw cells of text / integer / "
    "float / bytes fields equal the values written; the dump (schema + rows in rowid order) is identical for all batch sizes; "
    "RecordReader('sqlite://') returns per type the same number of records with equal values (text, integers, floats numerically, "
    "bytes, timestamps as instants; other types as str(value) or the same integer; columns a row's version lacks read None)."
)
ASSUMPTIONS = [
    "values stay inside the classes the statement lists: no lone surrogates, integers within 64 bits, no NaN; strings <= 2000 characters",
    "timestamps carry whole-minute UTC offsets (fixed offsets, IANA zones incl. both folds of DST-fold wall times, naive = UTC), years "
    "1900-2200; equality of timestamps means the same canonical observation - wall clock fields + UTC offset, as observe.odt - both for "
    "the value read back and for the stored text parsed with datetime.fromisoformat (the current code keeps the offset; the tzinfo "
    "object kind is not compared)",
    "type names starting with 'sqlite_' are not generated (SQLite reserves that prefix for its own tables)",
    "names of one case never differ only in letter case, except in the dedicated collision cases, which are classified as the "
    "known finding sqlite-case-insensitive-identifiers",
    "unmappable records (integer beyond 64 bits, text with a lone surrogate) appear only in the dedicated 'refuse' histories: they may be "
    "refused (then nothing of them is stored and nothing else is lost) or stored (then the unmappable field is not compared)",
    "the reader-lock fault shortens the writer's lock wait with PRAGMA busy_timeout through the writer's `con` attribute when it exists "
    "(otherwise sqlite3's default 5 s applies); a flush()/close() that raises under the lock is accepted, a silent return must have committed",
    "reader-usage histories: one SqliteReader object serves two iterators in lockstep, a nested full iteration, a restart after a partial "
    "iteration and two read_table() generators side by side (reader batch size below the table size); every complete iteration must return "
    "what a fresh reader returns",
    "a field name may be declared twice in one descriptor (extend() over an existing name); value, column type and read-back follow the LAST "
    "declaration; such a name is never re-typed across versions of a table that already has the column",
    "every database is read back with the default reader batch size and again with reader batch sizes {1, 2, writer batch size, n-1, n, n+1} "
    "(n = rows of the largest table): the records returned must be identical; one table of 1001 rows per quick run (thorough: 999..3001) "
    "exceeds the reader's default batch of 1000",
    "a field never changes its type between the versions of a same-named type (except text-like re-typing inside the identifier-coincident "
    "pairs, e.g. stringlist a -> string a, both TEXT columns); versions may gain fields, drop fields and bring new ones",
    "integer-like field types outside the five classes (boolean, uint16, uint32, filesize, unix_file_mode) may come back either as "
    "their text form or as the same integer",
]
SHARDS = {"quick": 8, "thorough": 16}
BUDGET_S = {"quick": 150, "thorough": 2400}
BATCHES = [1, 2, 3, 7, 1000]
BATCHES_THOROUGH = [1, 2, 3, 4, 5, 7, 16, 1000]  # thorough: also batch sizes 4, 5 and 16

ANCHORS = [
    "flow.record.adapter.sqlite:SqliteWriter.write",
    "flow.record.adapter.sqlite:SqliteWriter.tx_cycle",
    "flow.record.adapter.sqlite:SqliteWriter.flush",
    "flow.record.adapter.sqlite:SqliteWriter.close",
    "flow.record.adapter.sqlite:create_descriptor_table",
    "flow.record.adapter.sqlite:update_descriptor_columns",
    "flow.record.adapter.sqlite:db_insert_record",
    "flow.record.adapter.sqlite:SqliteReader.read_table",
]

UTC = _dt.timezone.utc
FAITHFUL = ["string", "varint", "float", "bytes", "datetime"]
OTHER = ["wstring", "uri", "path", "net.ipaddress", "net.ipnetwork", "uint16", "uint32", "filesize", "boolean", "string[]", "digest",
         "unix_file_mode", "varint[]"]
INTLIKE = ("uint16", "uint32", "filesize", "boolean", "unix_file_mode")
SQL_WORDS = ["select", "from", "where", "order", "group", "by", "table", "index", "values", "insert", "into", "create", "primary", "key",
             "null", "not", "and", "or", "rowid", "oid", "Order", "GROUP", "Select", "default", "check", "unique", "join", "as", "is", "in"]
SQL_LOWER = {w.lower() for w in SQL_WORDS}
KIND_COLLIDE = ("collide-types", "collide-fields", "collide-evolve")
SQLITE_LIKE_NAMES = ["sqlite/history", "SQLiteDB/row", "sqlitex", "sqlite", "sqlite3/t", "Sqlite/Sequence", "sqliteX_stat1", "sqlite/sqlite_master"]


def setup(ctx):
    ctx.state["reach"] = probes.Reach(ANCHORS)
    ctx.state["tmp"] = tempfile.mkdtemp(prefix="frv-c18-", dir=os.environ.get("VERIF_TMP", "/var/tmp"))
    ctx.state["n"] = 0


def teardown(ctx):
    ctx.state["reach"].stop()
    shutil.rmtree(ctx.state["tmp"], ignore_errors=True)


def generate(ctx):
    n = ctx.scale(20, 260)
    if not ctx.quick:
        # thorough: one unmappable record at EVERY position of a run of 16 (with 8 batch sizes each position is first / middle / last of
        # a batch and on a boundary), both kinds of unmappable value; the reader-lock fault at flush and at close for every batch size
        for pos in range(16):
            if ctx.mine(pos):
                for kindbad in ("int", "text"):
                    yield {"k": "refuse", "n": 16, "bad_at": [pos], "bad": kindbad, "s": subseed("c18", ctx.seed, "refpos", pos, kindbad)}
        li = 0
        for at in ("close", "flush"):
            for bs in (2, 3, 4, 7, 1000):
                for first in (2, 3, 5):
                    if ctx.mine(li):
                        yield {"k": "locked", "at": at, "bs": bs, "first": first, "s": subseed("c18", ctx.seed, "lock", at, bs, first)}
                    li += 1
    for i in range(n):
        kind = "mixed"
        if i % 10 == 7:
            kind = KIND_COLLIDE[(i // 10) % 3]
        elif i % 10 == 3:
            kind = "uniform"  # one type, one version: batches only
        elif i % 10 == 5:
            kind = "evolve"  # one type, three versions
        elif i % 10 == 1:
            kind = "sqlite-names"  # type names that start with "sqlite" without being the reserved "sqlite_" prefix
        elif i % 10 == 0 and i:
            kind = "redeclare"  # a field name declared twice in one descriptor (extend() over an existing name): the LAST declaration counts
        elif i % 10 == 8:
            kind = "coincident"  # one type name whose later version has the SAME identifier hash (different field list)
        elif i % 10 == 4:
            kind = "refuse"  # unmappable records (refused by SQLite) between accepted ones, at every position of a batch
        elif i % 10 == 6 and i % 20 == 6:
            kind = "locked"  # another connection holds an unfinished SELECT while the writer commits
        elif i % 10 == 2:
            kind = "dt-equal"  # timestamps that compare equal without being the same value, inside one database
        elif i % 10 == 9:
            kind = "sideways"  # later versions drop fields and bring new ones (not a superset of the table)
        if kind == "coincident" and i % 20 == 8:
            # at least one per shard alternates strictly between the two versions within one table
            yield {"k": kind, "style": "alternate", "s": subseed("c18", ctx.seed, ctx.shard, i)}
            continue
        yield {"k": kind, "s": subseed("c18", ctx.seed, ctx.shard, i)}
    # tables with more rows than the reader's default batch of 1000 (quick: one 1001-row table in the whole run; thorough: several sizes)
    big = {0: 1001} if ctx.quick else {0: 1001, 1: 2000, 2: 2500, 3: 1000, 4: 999, 5: 3001, 6: 2001}
    if ctx.shard in big:
        yield {"k": "bigtable", "rows": big[ctx.shard], "batches": [1000, 300], "s": subseed("c18", ctx.seed, "big", ctx.shard)}
    # relative database paths while the application changes its working directory: one child process per shard (thorough: 3)
    for r in range(1 if ctx.quick else 8):
        yield {"k": "cwd", "s": subseed("c18", ctx.seed, ctx.shard, "cwd", r)}


# ---- workload ---------------------------------------------------------------------------------------
def _field_name(rng):
    r = rng.random()
    if r < 0.35:
        return rng.choice(SQL_WORDS)
    if r < 0.45:
        return rng.choice(gen.KEYWORD_FIELDS)
    if r < 0.5:
        return rng.choice("abcxyzABCXYZ") + "".join(rng.choice("abcdefghijklmnopqrstuvwxyzABCDEFGHIJKLMNOPQRSTUVWXYZ0123456789_") for _ in range(59))
    return gen.rand_ident(rng)


def _type_name(rng):
    r = rng.random()
    if r < 0.3:
        n = "/".join(rng.choice(SQL_WORDS) for _ in range(rng.choice([1, 2, 2, 3])))
    else:
        n = gen.rand_typename(rng)
    import keyword

    if keyword.iskeyword(n.replace("/", "_")):
        n += "_t"
    if n.lower().startswith("sqlite_"):
        n = "x" + n
    return n


def _unique(rng, make, n, taken):
    out = []
    while len(out) < n:
        x = make(rng)
        if x.lower() in taken:
            x = x + "%d" % len(taken)
        if x.lower() in taken:
            continue
        taken.add(x.lower())
        out.append(x)
    return out


def _ftype(rng):
    return rng.choice(FAITHFUL) if rng.random() < 0.75 else rng.choice(OTHER)


TEXTS = ["", "a", "a\x00b", "\x00", "\U0001f600\U0001d518", "it's \"quoted\"; -- DROP TABLE x", "NULL", "123", " 1e5", "0x10", "line1\nline2\r\n", "\u00e4\u00f6\u00fc\u00df",
         "\u65e5\u672c\u8a9e", "%s ? :name @x $y", "\ufeffbom", "x" * 300, "y" * 2000, "True", "\t", "caf\u00e9"]
INTS = [0, 1, -1, 2**63 - 1, -(2**63), 2**31, -(2**31) - 1, 2**53 + 1, 2**32, 255, -128]
FLOATS = [0.0, -0.0, 1.5, -2.25, 5e-324, 1.7976931348623157e308, -1.7976931348623157e308, -1e-300, float(2**53 + 2), 0.1, 3.0, 1e15, float("inf"), float("-inf")]
BYTES = [b"", b"\x00", b"\xff\xfe", bytes(range(256)), b"plain ascii", b"\x00" * 17, b"RECORDSTREAM\n", b"'; --"]
OFFSETS = [0, 0, 120, -210, 345, 840, -720, 60, 330, -1]


# A few fixed instants, each presented under many UTC offsets: values that compare equal (aware datetimes compare and hash
# by instant) without being the same value.  The last two lie in DST folds (02:30 Europe/Amsterdam on 2023-10-29 and 01:30
# America/New_York on 2023-11-05 exist twice).
EQUAL_INSTANTS = [_dt.datetime(2023, 6, 15, 12, 0, 0, tzinfo=UTC), _dt.datetime(2024, 1, 1, 12, 0, 0, 250000, tzinfo=UTC),
                  _dt.datetime(1999, 12, 31, 23, 59, 59, 999999, tzinfo=UTC), _dt.datetime(2023, 10, 29, 0, 30, tzinfo=UTC),
                  _dt.datetime(2023, 10, 29, 1, 30, tzinfo=UTC)]
PRESENTATIONS = ["naive", "utc", 120, -420, 330, 0, -300, 60, "Europe/Amsterdam", "America/New_York", "Asia/Kolkata", "Australia/Lord_Howe"]
FOLD_PAIRS = [("Europe/Amsterdam", (2023, 10, 29, 2, 30, 0)), ("America/New_York", (2023, 11, 5, 1, 30, 0)),
              ("Europe/Amsterdam", (2023, 10, 29, 2, 0, 0, 500000))]


def _zone(name):
    import zoneinfo

    try:
        return zoneinfo.ZoneInfo(name)
    except Exception:  # noqa: BLE001 - no tz database: fall back to a fixed offset (workload only)
        return _dt.timezone(_dt.timedelta(hours=1))


def present(instant, how):
    """The same instant under another UTC offset / zone / as naive UTC."""
    if how == "naive":
        return instant.replace(tzinfo=None)
    if how == "utc":
        return instant
    if isinstance(how, int):
        return instant.astimezone(_dt.timezone(_dt.timedelta(minutes=how)))
    return instant.astimezone(_zone(how))


def _equal_family_datetime(rng):
    r = rng.random()
    if r < 0.25:
        zone, wall = rng.choice(FOLD_PAIRS)
        return _dt.datetime(*wall, tzinfo=_zone(zone), fold=rng.choice([0, 1]))  # same wall clock, same zone, both folds
    return present(rng.choice(EQUAL_INSTANTS), rng.choice(PRESENTATIONS))


def _datetime(rng, family=0.25):
    if rng.random() < family:
        return _equal_family_datetime(rng)
    d = _dt.datetime(rng.randint(1900, 2200), rng.randint(1, 12), rng.randint(1, 28), rng.randint(0, 23), rng.randint(0, 59), rng.randint(0, 59),
                     rng.choice([0, 0, rng.randint(1, 999999)]))
    if rng.random() < 0.15:
        return d  # naive: the field type makes it UTC
    return d.replace(tzinfo=_dt.timezone(_dt.timedelta(minutes=rng.choice(OFFSETS))))


def _value(rng, ftype):
    if rng.random() < 0.15:
        return None
    if ftype in ("string", "wstring"):
        return rng.choice(TEXTS) if rng.random() < 0.7 else gen._rand_text(rng)
    if ftype == "varint":
        return rng.choice(INTS) if rng.random() < 0.6 else rng.randint(-(2**63), 2**63 - 1)
    if ftype == "float":
        return rng.choice(FLOATS) if rng.random() < 0.6 else rng.uniform(-1, 1) * 10 ** rng.randint(-300, 300)
    if ftype == "bytes":
        return rng.choice(BYTES) if rng.random() < 0.6 else bytes(rng.randrange(256) for _ in range(rng.randint(1, 40)))
    if ftype == "datetime":
        return _datetime(rng)
    if ftype == "uri":
        return rng.choice(["http://user:pw@example.com:8080/p?q=1#f", "", "file:///c:/x", "mailto:x@y"])
    if ftype == "path":
        from flow.record.fieldtypes import path as fpath

        return rng.choice([fpath.from_posix("/a/b c/d"), fpath.from_windows("c:\\windows\\system32"), fpath.from_posix("rel/p")])
    if ftype == "net.ipaddress":
        return rng.choice(["1.2.3.4", "::1", "2001:db8::1", "255.255.255.255"])
    if ftype == "net.ipnetwork":
        return rng.choice(["10.0.0.0/8", "2001:db8::/32", "1.2.3.4/32"])
    if ftype == "uint16":
        return rng.choice([0, 1, 65535, rng.randrange(65536)])
    if ftype == "uint32":
        return rng.choice([0, 2**32 - 1, rng.randrange(2**32)])
    if ftype == "filesize":
        return rng.choice([0, 1, 1023, 2**40, 2**63 - 1])
    if ftype == "boolean":
        return rng.random() < 0.5
    if ftype in ("string[]", "stringlist"):
        return rng.choice([[], ["a"], ["a", "b c", "\u00e9"]])
    if ftype == "varint[]":
        return rng.choice([[], [1, 2, 3], [2**63 - 1]])
    if ftype == "digest":
        return rng.choice([("d41d8cd98f00b204e9800998ecf8427e", None, None), (None, None, "00" * 32)])
    if ftype == "unix_file_mode":
        return rng.choice([0o644, 0o755, 0])
    raise ValueError(ftype)


def build_case(case, thorough=False):
    """-> (versions, plan).  versions: list of (type name, [(ftype, fname)...]); plan: list of ('w', version index, kwargs) |
    ('f',).  Deterministic in the recipe."""
    rng = random.Random(case["s"])
    kind = case["k"]
    ntypes = {"uniform": 1, "evolve": 1, "collide-fields": 1, "collide-evolve": 1, "collide-types": 2, "sideways": 1}.get(kind) or rng.choice([1, 2, 2, 3, 4])
    if kind == "sqlite-names":
        first = rng.sample(SQLITE_LIKE_NAMES, rng.choice([1, 2]))
        tnames = first + _unique(rng, _type_name, max(0, ntypes - len(first)), {x.lower() for x in first})
        rng.shuffle(tnames)
    else:
        tnames = _unique(rng, _type_name, ntypes, set())
    if kind == "collide-types":
        tnames[1] = tnames[0].swapcase() if tnames[0].swapcase() != tnames[0] else tnames[0] + "X"
        if tnames[1].lower() != tnames[0].lower():
            tnames = ["t/x", "t/X"]
    if kind == "dt-equal":
        return build_dt_equal(rng, tnames, thorough)
    if kind == "refuse":
        return build_refuse(rng, tnames, thorough, case)
    if kind == "bigtable":
        # more rows in one table than the reader's default batch (1000): the reader has to fetch several batches
        t = tnames[0]
        names = _unique(rng, _field_name, 2, set())
        versions = [(t, [("string", names[0]), ("varint", names[1])])]
        plan = [("w", 0, {names[0]: "row%d" % i, names[1]: i}) for i in range(case["rows"])]
        return versions, plan
    if kind == "redeclare":
        return build_redeclare(rng, tnames, thorough)
    if kind == "coincident":
        return build_coincident(rng, tnames, thorough, case.get("style"))
    versions = []
    for t in tnames:
        taken = {"a", "key", "select"} if kind in ("collide-fields", "collide-evolve") else set()
        nf = rng.choice([2, 3, 4]) if kind == "sideways" else rng.choice([0, 1, 2, 3, 4, 6]) if kind != "uniform" else rng.choice([1, 3, 5])
        names = _unique(rng, _field_name, nf, taken)
        fields = [(_ftype(rng), n) for n in names]
        base = rng.choice(["a", "Key", "select"])
        if kind == "collide-fields":
            fields += [("string", base), ("varint", base.swapcase())]
        elif kind == "collide-evolve":
            fields.insert(rng.randint(0, len(fields)), ("string", base))
        versions.append((t, list(fields)))
        nver = {"uniform": 0, "evolve": 2, "collide-evolve": 1, "sideways": rng.choice([1, 2, 3])}.get(kind, rng.choice([0, 0, 1, 2]))
        for step in range(nver):
            fields = list(fields)
            sideways = (kind == "sideways" and (step == 0 or rng.random() < 0.6)) or (kind in ("mixed", "sqlite-names") and rng.random() < 0.3)
            if kind == "collide-evolve":
                fields.append(("string", base.swapcase()))
            elif sideways:
                # not a superset of what the table has: drop some fields (keep at least one when there is one), bring new ones
                # v1(name, foo, bar) -> v2(name, foo, size); or a narrow version with a new field after a widening
                keep = [f for f in fields if rng.random() < 0.5]
                if fields and not keep:
                    keep = [fields[0]]
                if len(keep) == len(fields) and fields:
                    keep = keep[:-1]
                fields = keep
                for n in _unique(rng, _field_name, rng.choice([1, 1, 2]), taken):
                    fields.insert(rng.randint(0, len(fields)), (_ftype(rng), n))
            else:
                for n in _unique(rng, _field_name, rng.choice([1, 1, 2, 3]), taken):
                    fields.insert(rng.randint(0, len(fields)), (_ftype(rng), n))
            versions.append((t, fields))
    n = rng.choice([0, 1, 2, 3, 5, 8, 13, 21, 25]) if not thorough else rng.choice([0, 1, 3, 8, 13, 21, 34, 55, 80, 144])
    if kind in ("sideways", "sqlite-names"):
        n = max(n, rng.choice([4, 6, 9]))
    plan = []
    if rng.random() < 0.1:
        plan.append(("f",))
    order = list(range(len(versions)))
    for i in range(n):
        # mostly walk the versions in order so that evolution happens mid-stream, sometimes jump around
        if rng.random() < 0.5:
            vi = order[min(len(order) - 1, i * len(order) // max(n, 1))]
        else:
            vi = rng.choice(order)
        kw = {}
        for ftype, fname in versions[vi][1]:
            kw[fname] = _value(rng, ftype)
        if rng.random() < 0.3:
            kw["_source"] = rng.choice(TEXTS[:12])
        if rng.random() < 0.2:
            kw["_classification"] = rng.choice(["TLP:RED", "", "c'"])
        if rng.random() < 0.2:
            kw["_generated"] = _datetime(rng)
        plan.append(("w", vi, kw))
        if rng.random() < 0.1:
            plan.append(("f",))
    return versions, plan


def build_dt_equal(rng, tnames, thorough):
    """Types with 1-2 timestamp fields; the plan walks pairs and runs of equal-instant values with different offsets (both
    orders), fold=0/fold=1 pairs (both orders) and naive vs aware-UTC, spread over the tables of ONE database."""
    versions = []
    for t in tnames[:2]:
        taken = set()
        names = _unique(rng, _field_name, rng.choice([2, 3]), taken)
        fields = [("datetime", names[0]), ("string", names[1])] + [("datetime", n) for n in names[2:]]
        versions.append((t, fields))
    seq = []
    for inst in rng.sample(EQUAL_INSTANTS, 3):
        hows = rng.sample(PRESENTATIONS, rng.choice([2, 3, 4]))
        if rng.random() < 0.5:
            hows = ["naive", "utc"] + hows if rng.random() < 0.5 else ["utc", "naive"] + hows
        seq.append([present(inst, h) for h in hows])
    for zone, wall in FOLD_PAIRS:
        order = [0, 1] if rng.random() < 0.5 else [1, 0]
        seq.append([_dt.datetime(*wall, tzinfo=_zone(zone), fold=f) for f in order])
    rng.shuffle(seq)
    values = [v for run in seq for v in run]
    if rng.random() < 0.5:
        values = values + values[::-1]  # and the other way round
    plan = []
    for i, v in enumerate(values):
        vi = rng.randrange(len(versions))
        kw = {}
        for ftype, fname in versions[vi][1]:
            kw[fname] = v if ftype == "datetime" and (fname == versions[vi][1][0][1] or rng.random() < 0.5) else _value(rng, ftype)
        if rng.random() < 0.5:
            kw["_generated"] = values[(i * 7 + 3) % len(values)]
        plan.append(("w", vi, kw))
        if rng.random() < 0.08:
            plan.append(("f",))
    return versions, plan


# descriptor pairs with one name and one 32-bit identifier hash but different field lists (the hash input is the plain
# concatenation name + (field name + field type)..., so characters can move between a type and the next name)
COINCIDENT_FIELDS = [
    ([("string", "a"), ("string", "varintq")], [("varint", "astring"), ("string", "q")]),
    ([("stringlist", "a"), ("string", "b")], [("string", "a"), ("string", "listb")]),
    ([("uint16", "x"), ("string", "y")], [("string", "xuint16y")]),
    ([("wstring", "a")], [("string", "aw")]),
    ([("wstring", "filename")], [("string", "filenamew")]),
    ([("string", "a"), ("string", "b")], [("string", "astringb")]),
]


def build_coincident(rng, tnames, thorough, forced_style=None):
    """Schema evolution between two versions of one type name that share their identifier: both orders, interleaved."""
    from flow.record import RecordDescriptor

    versions = []
    for t in (tnames[:1] if forced_style else tnames[:2]):
        fa, fb = rng.choice(COINCIDENT_FIELDS)
        if rng.random() < 0.5:
            fa, fb = fb, fa
        if RecordDescriptor(t, fa).identifier != RecordDescriptor(t, fb).identifier:
            raise AssertionError("the coincident pair does not share its identifier")
        versions.append((t, list(fa)))
        versions.append((t, list(fb)))
    n = rng.choice([4, 6, 9, 13]) if not thorough else rng.choice([6, 13, 21, 40])
    style = forced_style or rng.choice(["alternate", "runs", "random"])
    plan = []
    for i in range(n):
        base = 2 * rng.randrange(len(versions) // 2)
        if style == "alternate":
            vi = base + i % 2
        elif style == "runs":
            vi = base + (1 if i >= n // 2 else 0)
        else:
            vi = base + rng.randrange(2)
        kw = {fname: _value(rng, ftype) for ftype, fname in versions[vi][1]}
        plan.append(("w", vi, kw))
        if rng.random() < 0.1:
            plan.append(("f",))
    return versions, plan


REDECLARE_PAIRS = [("string", "varint"), ("varint", "string"), ("string", "float"), ("float", "string"), ("bytes", "string"), ("string", "bytes"),
                   ("varint", "float"), ("float", "varint"), ("string", "datetime"), ("varint", "bytes")]
NUMERIC_LOOKING = ["007", "1e5", " 12", "0x10", "3.0", "-0", "12", "9223372036854775808"]


def build_redeclare(rng, tnames, thorough):
    """A field name declared twice with different types - at table creation, or brought by an evolution step (the earlier
    version does not have the name at all).  The record class, and therefore the value, follows the LAST declaration; so must
    the column."""
    versions = []
    for t in tnames[:2]:
        taken = set()
        names = _unique(rng, _field_name, rng.choice([2, 3]), taken)
        base = [(_ftype(rng), n) for n in names[1:]]
        first, last = rng.choice(REDECLARE_PAIRS)
        dup = names[0]
        if rng.random() < 0.5:
            versions.append((t, list(base)))  # evolution: the name arrives later, declared twice
        fields = list(base)
        fields.insert(rng.randint(0, len(fields)), (first, dup))
        fields.append((last, dup))
        versions.append((t, fields))
    n = rng.choice([4, 6, 9]) if not thorough else rng.choice([6, 13, 21])
    plan = []
    order = list(range(len(versions)))
    for i in range(n):
        vi = order[min(len(order) - 1, i * len(order) // n)] if rng.random() < 0.7 else rng.choice(order)
        kw = {}
        for ftype, fname in versions[vi][1]:
            v = _value(rng, ftype)
            if ftype == "string" and rng.random() < 0.5:
                v = rng.choice(NUMERIC_LOOKING)
            if ftype == "float" and rng.random() < 0.4:
                v = float(rng.randint(-5, 50))
            kw[fname] = v  # a name declared twice keeps the value drawn for its LAST declaration
        plan.append(("w", vi, kw))
        if rng.random() < 0.1:
            plan.append(("f",))
    return versions, plan


BAD_INTS = [2**63, -(2**63) - 1, 2**64 + 5, 10**30]
BAD_TEXTS = [b"caf\xe9".decode("utf-8", "surrogateescape"), "\udcff", "ok \udc80 tail"]


def build_refuse(rng, tnames, thorough, case=None):
    """1-2 single-version types; a run of mappable records with unmappable ones (integer beyond 64 bits, text with a lone
    surrogate) at chosen positions - with five batch sizes per history a refusal falls on the first, a middle and the last
    record of a batch and exactly on a boundary.  The application catches the error and carries on."""
    versions = []
    for t in tnames[:2]:
        taken = set()
        names = _unique(rng, _field_name, 4, taken)
        versions.append((t, [("string", names[0]), ("varint", names[1]), ("string", names[2]), ("bytes", names[3])]))
    n = rng.choice([7, 9, 12]) if not thorough else rng.choice([9, 14, 21, 30])
    nbad = rng.choice([1, 1, 2, 3])
    bad_at = set(rng.sample(range(n), nbad))
    forced = (case or {}).get("bad")
    if case and case.get("bad_at") is not None:
        n, bad_at = case["n"], set(case["bad_at"])
    plan = []
    for i in range(n):
        vi = rng.randrange(len(versions))
        fl = versions[vi][1]
        kw = {fname: _value(rng, ftype) for ftype, fname in fl}
        if i in bad_at:
            if (rng.random() < 0.5) if forced is None else forced == "int":
                kw[fl[1][1]] = rng.choice(BAD_INTS)
                plan.append(("w", vi, kw, fl[1][1]))
            else:
                kw[fl[2][1]] = rng.choice(BAD_TEXTS)
                plan.append(("w", vi, kw, fl[2][1]))
        else:
            plan.append(("w", vi, kw))
        if rng.random() < 0.08:
            plan.append(("f",))
    return versions, plan


def collision_in_case(versions, plan):
    """The known-finding predicate, on the case itself: among the type names written, or among the field names written into
    one (case-insensitively same) table, two differ only in letter case."""
    used = sorted({step[1] for step in plan if step[0] == "w"})
    tn = {}
    fields = {}
    for vi in used:
        t, fl = versions[vi]
        tn.setdefault(t.lower(), set()).add(t)
        for _, f in fl:
            fields.setdefault(t.lower(), {}).setdefault(f.lower(), set()).add(f)
    if any(len(v) > 1 for v in tn.values()):
        return True
    return any(len(s) > 1 for per in fields.values() for s in per.values())


# ---- observation helpers ------------------------------------------------------------------------------
def _q(name):
    return '"' + name.replace('"', '""') + '"'


class SecondConnection:
    """An independent sqlite3 connection on the same file, polled after every writer call."""

    def __init__(self, path):
        self.con = sqlite3.connect(path, timeout=0.25)
        self.polls = 0
        self.busy = 0

    def total(self):
        """Sum of the row counts of all tables this connection can see right now (None when the database is busy)."""
        self.polls += 1
        try:
            names = [r[0] for r in self.con.execute("SELECT name FROM sqlite_master WHERE type='table'").fetchall()]
            return sum(self.con.execute("SELECT count(*) FROM %s" % _q(n)).fetchall()[0][0] for n in names)
        except sqlite3.OperationalError:
            self.busy += 1
            return None

    def close(self):
        self.con.close()


def _cell(v):
    if isinstance(v, float):
        return ["f", observe.f64hex(v) if v != 0 else "zero"]
    if isinstance(v, bytes):
        return ["b", v.hex()]
    return v


def dump(path):
    """Schema and rows in rowid order, as seen by a fresh connection: {table: {"cols": [[name, type]...], "rows": [[cell...]...]}}
    plus the table creation order."""
    con = sqlite3.connect("file:%s?mode=ro" % path, uri=True)
    try:
        names = [r[0] for r in con.execute("SELECT name FROM sqlite_master WHERE type='table' ORDER BY rowid").fetchall()]
        out = {"order": names, "tables": {}}
        for t in names:
            cols = [[r[1], r[2]] for r in con.execute("PRAGMA table_info(%s)" % _q(t)).fetchall()]
            lower = {c[0].lower() for c in cols}
            alias = next(a for a in ("rowid", "_rowid_", "oid") if a not in lower)
            rows = con.execute("SELECT * FROM %s ORDER BY %s" % (_q(t), alias)).fetchall()
            out["tables"][t] = {"cols": cols, "rows": [[_cell(v) for v in row] for row in rows], "raw": rows}
        return out
    finally:
        con.close()


def instant_us(d):
    """UTC microseconds since 0001-01-01 of an aware datetime, from its wall clock and offset (own arithmetic)."""
    off = d.utcoffset()
    days = _dt.date(d.year, d.month, d.day).toordinal()
    us = ((days * 24 + d.hour) * 60 + d.minute) * 60 + d.second
    us = us * 10**6 + d.microsecond
    return us - ((off.days * 86400 + off.seconds) * 10**6 + off.microseconds)


def value_matches(ftype, wv, rv):
    """Does the value read back (rv) equal the written field value (wv) in the sense of the property?"""
    if wv is None:
        return rv is None
    if rv is None:
        return False
    if ftype == "datetime":
        # canonical observation: wall clock fields + utcoffset (never datetime ==, which only sees the instant)
        return (isinstance(rv, _dt.datetime) and rv.utcoffset() is not None and instant_us(rv) == instant_us(wv)
                and observe.odt(rv) == observe.odt(wv))
    if ftype == "float":
        return isinstance(rv, float) and float(rv) == float(wv)
    if ftype == "varint":
        return isinstance(rv, int) and not isinstance(rv, bool) and int(rv) == int(wv)
    if ftype == "bytes":
        return isinstance(rv, bytes) and bytes(rv) == bytes(wv)
    if ftype in ("string", "wstring"):
        return isinstance(rv, str) and str.__str__(rv) == str.__str__(wv)
    # other types: their text form (integer-like ones may also come back as the same integer)
    if ftype in INTLIKE:
        try:
            if int(rv) == int(wv):
                return True
        except (TypeError, ValueError):
            pass
    try:
        return str(rv) == str(wv)
    except Exception:  # noqa: BLE001 - str() of the written value itself fails (rendering is C20's subject)
        return False


def _txt(v, f=repr):
    try:
        return f(v)[:100]
    except Exception as e:  # noqa: BLE001
        return "<%s failed: %s>" % (f.__name__, type(e).__name__)


RESERVED_TYPES = {"_source": "string", "_classification": "string", "_generated": "datetime", "_version": "varint"}


# ---- one run: a history with one batch size -----------------------------------------------------------------
def run_once(ctx, versions, descs, records, plan, bs, path, problems):
    """Write the history with batch size bs under the polling connection.  Appends (part, message, detail) to problems.
    -> (number of records whose write() returned, their indices among the write steps), or None when the run was aborted."""
    from flow.record import RecordWriter

    def bad(part, msg, **detail):
        detail["batch_size"] = bs
        problems.append((part, msg, detail))

    try:
        w = RecordWriter("sqlite://%s?batch_size=%d" % (path, bs))
    except Exception as e:  # noqa: BLE001
        bad("write-error", "the writer cannot be created", exception=repr(e)[:300])
        return None
    second = SecondConnection(path)
    k = 0
    v_prev = second.total()
    if v_prev not in (0, None):
        bad("visibility", "rows visible before anything was written", visible=v_prev)
    v_prev = v_prev or 0
    seen = set()
    aborted = False
    ri = 0
    accepted = []
    for step in plan:
        if step[0] == "f":
            try:
                w.flush()
            except Exception as e:  # noqa: BLE001
                bad("write-error", "flush() raised", exception=repr(e)[:300], after_records=k)
                aborted = True
                break
            v = second.total()
            ctx.event("polls_after_flush")
            if v is not None:
                if v != k:
                    bad("visibility", "after flush() the second connection does not see every record written so far", visible=v, written=k)
                v_prev = v
            continue
        rec = records[ri]
        ri += 1
        vi = step[1]
        dkey = (versions[vi][0], tuple(versions[vi][1]))
        try:
            w.write(rec)
        except Exception as e:  # noqa: BLE001
            if len(step) > 3:
                # an unmappable record: refusing it is fine; the application catches the error and carries on.  Nothing may
                # become visible except through the commit that announces a new descriptor (then all k earlier rows)
                ctx.event("unmappable_refused")
                ctx.cell("refused", "batch%d" % bs, "accepted_before_mod_bs=%d" % (k % bs if bs < 1000 else min(k, 9)))
                newdesc = dkey not in seen
                seen.add(dkey)
                v = second.total()
                if v is not None:
                    if not (v == v_prev or (newdesc and v == k)):
                        bad("visibility", "a refused record changed what the second connection sees", visible=v, visible_before=v_prev, k=k)
                    v_prev = v
                continue
            bad("write-error", "write() raised for a mappable record", exception="%s: %s" % (type(e).__name__, str(e)[:200]),
                exception_is_sqlite_error=isinstance(e, sqlite3.Error), record_index=k, type=versions[vi][0])
            aborted = True
            break
        k += 1
        accepted.append(ri - 1)
        if len(step) > 3:
            ctx.event("unmappable_accepted")
        newdesc = dkey not in seen
        seen.add(dkey)
        v = second.total()
        ctx.event("polls_after_write")
        if v is None:
            continue
        ok = v <= k and v >= v_prev and (v == v_prev or (k % bs == 0 and v == k) or (newdesc and v in (k - 1, k)))
        if not ok:
            bad("visibility", "the second connection saw a row count that is not a commit point of the writer",
                visible=v, visible_before=v_prev, k=k, k_mod_batch=k % bs, first_of_new_descriptor=newdesc)
        if v != v_prev:
            ctx.event("commit_points_seen")
            if newdesc and k % bs:
                ctx.event("commit_points_at_new_descriptor")
        v_prev = v
    try:
        w.close()
        w.close()
    except Exception as e:  # noqa: BLE001
        bad("write-error", "close() raised", exception=repr(e)[:300])
    del w
    v = second.total()
    ctx.event("polls_after_close")
    ctx.event("polls", second.polls)
    ctx.event("polls_busy", second.busy)
    if v != k:
        bad("visibility" if not aborted else "after-abort", "after close() the second connection does not see every record written",
            visible=v, written=k)
    second.close()
    return None if aborted else (k, accepted)


def reader_usage(ctx, path, got, rb, bad):
    """One reader object used in several ways while its batch size is below the table size: two iterators in lockstep, a nested
    full iteration inside a loop, a partial iteration followed by a restart.  Every complete iteration must return exactly the
    records a fresh reader returns."""
    import itertools

    from flow.record import RecordReader

    want = [observe.obs(r) for r in got]

    def obs_list(it):
        return [observe.obs(r) for r in it]

    for usage in ("lockstep", "nested", "restart", "read_table-twice"):
        ctx.event("reader_usage_histories")
        try:
            rd = RecordReader("sqlite://%s?batch_size=%d" % (path, rb))
            try:
                if usage == "lockstep":
                    a, b = [], []
                    for x, y in itertools.zip_longest(iter(rd), iter(rd)):
                        if x is not None:
                            a.append(observe.obs(x))
                        if y is not None:
                            b.append(observe.obs(y))
                    results = [a, b]
                elif usage == "nested":
                    outer, inner = [], None
                    for i, x in enumerate(rd):
                        outer.append(observe.obs(x))
                        if i == 0:
                            inner = obs_list(iter(rd))  # a lookup over the whole database from inside the loop
                    results = [outer, inner if inner is not None else want]
                elif usage == "restart":
                    it = iter(rd)
                    next(it, None)
                    next(it, None)
                    results = [obs_list(iter(rd))]
                    results.append(obs_list(iter(rd)))
                else:
                    names = rd.table_names() if hasattr(rd, "table_names") and hasattr(rd, "read_table") else None
                    if not names:
                        continue
                    gens = [rd.read_table(names[0]), rd.read_table(names[0])]
                    a, b = [], []
                    for x, y in itertools.zip_longest(*gens):
                        if x is not None:
                            a.append(observe.obs(x))
                        if y is not None:
                            b.append(observe.obs(y))
                    first_table = [o for o in want if o[1] == (a[0][1] if a else None)]
                    results = [a, b] if first_table else []
                    want_here = first_table
            finally:
                rd.close()
        except Exception as e:  # noqa: BLE001
            bad("read-error", "using one SqliteReader for several iterations (%s) raised" % usage, reader_batch_size=rb,
                exception="%s: %s" % (type(e).__name__, str(e)[:200]))
            continue
        ref = want_here if usage == "read_table-twice" else want
        for res in results:
            if res != ref:
                bad("counts", "an iteration over a SqliteReader that is also used by another iteration (%s) does not return every record" % usage,
                    reader_batch_size=rb, returned=len(res), expected=len(ref))
                break


def check_content(ctx, versions, records, plan, path, bs, problems, accepted=None):
    """Schema, row order, raw cells and read-back through SqliteReader, against the records written."""
    from flow.record import RecordReader

    def bad(part, msg, **detail):
        detail["batch_size"] = bs
        problems.append((part, msg, detail))

    wsteps = [s for s in plan if s[0] == "w"]
    acc = set(range(len(wsteps))) if accepted is None else set(accepted)
    writes = [(step[1], records[i]) for i, step in enumerate(wsteps) if i in acc]
    skip = {id(records[i]): step[3] for i, step in enumerate(wsteps) if len(step) > 3}  # field holding the unmappable value
    attempted = {versions[step[1]][0] for step in wsteps}
    per_type = {}
    columns = {}
    ftypes = {}
    for vi, rec in writes:
        t, fl = versions[vi]
        per_type.setdefault(t, []).append((vi, rec))
        cols = columns.setdefault(t, [])
        for ft, fn in list(fl) + [(v, k) for k, v in RESERVED_TYPES.items()]:
            if fn not in cols:
                cols.append(fn)
                ftypes[(t, fn)] = ft
    # -- independent dump
    try:
        d = dump(path)
    except sqlite3.Error as e:
        bad("schema", "sqlite3 cannot dump the database", exception=repr(e)[:300])
        return None
    extra_tables = [t for t in d["order"] if t not in per_type]
    # a type whose records were all refused may have left its (empty) table behind
    if (sorted(t for t in d["order"] if t in per_type) != sorted(per_type)
            or any(t not in attempted or d["tables"][t]["raw"] for t in extra_tables)):
        bad("schema", "the tables are not one per record type name", tables=d["order"], types=sorted(per_type))
    for t, recs in per_type.items():
        tab = d["tables"].get(t)
        if tab is None:
            continue
        names = [c[0] for c in tab["cols"]]
        if sorted(names) != sorted(columns[t]):
            bad("schema", "the columns of a table are not one per field of the type", table=t, columns=names, fields=columns[t])
            continue
        if len(tab["raw"]) != len(recs):
            bad("counts", "a table does not hold one row per record of its type", table=t, rows=len(tab["raw"]), records=len(recs))
            continue
        for i, ((vi, rec), row) in enumerate(zip(recs, tab["raw"])):
            have = {fn: ft_ for ft_, fn in versions[vi][1]}
            have.update(RESERVED_TYPES)
            for cn, cell in zip(names, row):
                if cn not in have:
                    if cell is not None:
                        bad("values", "a column the record's version does not have is not NULL", table=t, row=i, column=cn, cell=repr(cell)[:80])
                    continue
                if skip.get(id(rec)) == cn:
                    continue  # an unmappable value that was stored anyway: what it became is not specified
                ft = have[cn]  # the field's type in this record's version (coincident versions may re-type a name)
                wv = getattr(rec, cn)
                ctx.event("raw_cells_checked")
                if wv is None:
                    if cell is not None:
                        bad("values", "an unset field is not stored as NULL", table=t, row=i, column=cn, cell=repr(cell)[:80])
                elif ft == "datetime":
                    # the stored text of THIS row must denote the value written for this row: same wall clock, same offset
                    ctx.event("raw_timestamp_cells_checked")
                    try:
                        stored = observe.odt(_dt.datetime.fromisoformat(cell)) if isinstance(cell, str) else None
                    except ValueError:
                        stored = None
                    if stored is None or stored[-1] is None or stored != observe.odt(wv):
                        bad("values", "the stored cell of a timestamp does not denote the value written for that row (wall clock + UTC offset)",
                            table=t, row=i, column=cn, written=_txt(wv, lambda v: v.isoformat()), cell=repr(cell)[:80])
                elif ft in ("string", "wstring", "varint", "float", "bytes"):
                    same = (type(cell) is {"string": str, "wstring": str, "varint": int, "float": float, "bytes": bytes}[ft]) and value_matches(ft, wv, cell)
                    if not same:
                        bad("values", "the stored cell differs from the %s value written (row order or value mapping)" % ft, table=t, row=i, column=cn,
                            written=_txt(wv), cell=repr(cell)[:80])
    # -- read back through the library
    try:
        rd = RecordReader("sqlite://" + path)
        try:
            got = list(rd)
        finally:
            rd.close()
        for r in got:
            observe.assert_typed(r, "read back")
    except Exception as e:  # noqa: BLE001
        bad("read-error", "RecordReader('sqlite://...') cannot read the database back", exception="%s: %s" % (type(e).__name__, str(e)[:300]))
        return d
    ctx.event("records_read", len(got))
    # the reader fetches in batches of its own batch_size (default 1000): what it returns must not depend on that size
    biggest = max([len(v) for v in per_type.values()] or [0])
    for rb in sorted({1, 2, bs if bs < 1000 else 3, max(1, biggest - 1), max(1, biggest), biggest + 1}):
        try:
            rd = RecordReader("sqlite://%s?batch_size=%d" % (path, rb))
            try:
                again = list(rd)
            finally:
                rd.close()
        except Exception as e:  # noqa: BLE001
            bad("read-error", "RecordReader('sqlite://...?batch_size=N') cannot read the database back", reader_batch_size=rb,
                exception="%s: %s" % (type(e).__name__, str(e)[:300]))
            continue
        ctx.event("reader_batch_size_reads")
        if [observe.obs(r) for r in again] != [observe.obs(r) for r in got]:
            bad("counts", "the records read back depend on the reader's batch size", reader_batch_size=rb, default_reader=len(got), this_reader=len(again),
                largest_table=biggest)
            break
    if biggest >= 2:
        problems_before = len(problems)
        reader_usage(ctx, path, got, 1 if biggest <= 3 else 2, bad)
        if len(problems) == problems_before:
            ctx.event("reader_usage_histories_held")
    by_name = {}
    for r in got:
        by_name.setdefault(r._desc.name, []).append(r)
    if {k: len(v) for k, v in by_name.items()} != {k: len(v) for k, v in per_type.items()}:
        bad("counts", "the number of records read back per type differs from the number written",
            read={k: len(v) for k, v in by_name.items()}, written={k: len(v) for k, v in per_type.items()})
        return d
    for t, recs in per_type.items():
        for i, ((vi, rec), r) in enumerate(zip(recs, by_name[t])):
            have = {fn: ft for ft, fn in versions[vi][1]}
            have.update(RESERVED_TYPES)
            rfields = [fn for _, fn in r._desc.get_field_tuples()]
            if sorted(rfields + list(RESERVED_TYPES)) != sorted(columns[t]):
                bad("schema", "the record type read back does not have one field per column", type=t, fields=rfields, expected=columns[t])
                break
            for cn in columns[t]:
                rv = getattr(r, cn)
                ctx.event("read_values_checked")
                if cn not in have:
                    if rv is not None:
                        bad("values", "a field the record's version does not have does not read None", type=t, row=i, field=cn, read=repr(rv)[:80])
                    continue
                if skip.get(id(rec)) == cn:
                    continue
                ft = have[cn]
                wv = getattr(rec, cn)
                ctx.cell("value", ft if ft in FAITHFUL else "other:" + ft, "none" if wv is None else "set")
                if not value_matches(ft, wv, rv):
                    bad("values", "a %s value read back differs from the value written" % (ft if ft in FAITHFUL else "'other' (%s)" % ft),
                        type=t, row=i, field=cn, field_type=ft, written=_txt(wv), written_text=_txt(wv, str), read=_txt(rv))
    return d


# ---- a reader holds an unfinished SELECT while the writer has to commit ---------------------------------------------
def exec_locked(ctx, case):
    """Either flush()/close() raises (the commit could not be made), or everything written is committed: a commit that
    fails because another connection still reads must never be swallowed."""
    from flow.record import RecordDescriptor, RecordWriter

    rng = random.Random(case["s"])
    ctx.state["n"] += 1
    d = os.path.join(ctx.state["tmp"], "c%d" % ctx.state["n"])
    os.makedirs(d)
    path = os.path.join(d, "locked.db")
    tname = _type_name(rng)
    names = _unique(rng, _field_name, 2, set())
    desc = RecordDescriptor(tname, [("string", names[0]), ("varint", names[1])])
    bs = case.get("bs") or rng.choice([3, 4, 1000])
    first = case.get("first") or rng.choice([3, 4, 6])  # committed before the reader starts (explicit flush)
    later = rng.choice([1, 2]) if bs != 1000 else rng.choice([1, 2, 5])  # stay inside a partly filled batch
    fault_at = case.get("at") or rng.choice(["close", "flush"])
    ctx.ev()
    held_open = None
    returned = 0
    raised = None
    w = None
    try:
        w = RecordWriter("sqlite://%s?batch_size=%d" % (path, bs))
        for i in range(first):
            w.write(desc.recordType(**{names[0]: "r%d" % i, names[1]: i}))
            returned += 1
        w.flush()
        con = getattr(w, "con", None)
        short = False
        if con is not None:
            try:
                con.execute("PRAGMA busy_timeout = 150")  # only shortens the wait for the lock; without it sqlite3 waits 5 s
                short = True
            except sqlite3.Error:
                pass
        ctx.event("locked_short_timeout" if short else "locked_default_timeout")
        held_open = sqlite3.connect(path, timeout=0.1)
        cur = held_open.execute("SELECT * FROM %s" % _q(tname))
        cur.fetchone()  # the statement is not finished: this connection keeps its shared lock
        while (returned + 1) % bs == 0 and later:
            later -= 1  # never cross a batch boundary while the reader is active (write() itself would have to commit)
        try:
            for i in range(first, first + later):
                if (returned + 1) % bs == 0:
                    break
                w.write(desc.recordType(**{names[0]: "r%d" % i, names[1]: i}))
                returned += 1
            if fault_at == "flush":
                w.flush()
            w.close()
        except Exception as e:  # noqa: BLE001 - a loud failure is what the statement allows
            raised = "%s: %s" % (type(e).__name__, str(e)[:200])
        cur.close()
        held_open.close()
        held_open = None
    except Exception as e:  # noqa: BLE001
        ctx.violation(None, "locked: the scenario could not be set up", detail={"exception": repr(e)[:300]})
        if held_open is not None:
            held_open.close()
        shutil.rmtree(d, ignore_errors=True)
        return
    ctx.nontrivial("locked", case["s"])
    ctx.event("locked_cases")
    ctx.event("histories")
    if raised is not None:
        ctx.event("locked_commit_raised")
        # the writer object is dropped only now: whatever its destructor still commits is not judged
        del w
    else:
        ctx.event("locked_commit_returned")
        del w
        chk = sqlite3.connect(path)
        try:
            n = chk.execute("SELECT count(*) FROM %s" % _q(tname)).fetchall()[0][0]
        finally:
            chk.close()
        if n != returned:
            ctx.violation(None, "close()/flush() returned normally although the commit was blocked by a reader, and the last batch is gone",
                          detail={"rows": n, "written": returned, "batch_size": bs, "fault_at": fault_at, "type": tname})
        else:
            ctx.event("histories_held")
    ctx.sample({"case": case, "batch_size": bs, "fault_at": fault_at, "raised": raised}, kind="locked")
    shutil.rmtree(d, ignore_errors=True)


# ---- relative database path and a changing working directory (child process) --------------------------------------------
CWD_HISTORIES = ["dwwwc", "wdwwc", "wwdwc", "wwwdc", "dwdwdwc", "dwx", "wwdx", "dfwwc"]


def exec_cwd(ctx, case):
    import json
    import subprocess
    import sys

    from .. import io_c17 as io17
    from ..core import VERIF_DIR

    rng = random.Random(case["s"])
    ctx.state["n"] += 1
    d = os.path.join(ctx.state["tmp"], "c%d" % ctx.state["n"])
    dir_a, dir_b = os.path.join(d, "A"), os.path.join(d, "B")
    for x in (dir_a, dir_b):
        os.makedirs(os.path.join(x, "export"))
    jobs, meta = [], []
    for j, hist in enumerate(rng.sample(CWD_HISTORIES, 4)):
        bs = rng.choice([1, 2, 1000])
        rel = "export/out%d.db" % j
        seed = subseed(case["s"], j)
        jobs.append({"uri": "sqlite://%s?batch_size=%d" % (rel, bs), "hist": hist, "seed": seed, "shapes": "xy", "cwd": dir_a, "dirs": [dir_a, dir_b]})
        meta.append((rel, hist, seed, bs))
    jobs_path, status_path = os.path.join(d, "jobs.json"), os.path.join(d, "status.json")
    with open(jobs_path, "w") as f:
        json.dump(jobs, f)
    env = dict(os.environ)
    pp = env.get("PYTHONPATH", "")
    if VERIF_DIR not in pp.split(os.pathsep):
        env["PYTHONPATH"] = VERIF_DIR + (os.pathsep + pp if pp else "")
    if env.get("VERIF_REPO"):
        env["VERIF_REPO"] = os.path.abspath(env["VERIF_REPO"])
    ctx.ev()
    status = None
    try:
        p = subprocess.run([sys.executable, "-W", "ignore", "-m", "verif.worker_c17", "--state", "plain", jobs_path, status_path], env=env,
                           cwd=VERIF_DIR, stdin=subprocess.DEVNULL, stdout=subprocess.PIPE, stderr=subprocess.PIPE, timeout=120)
        with open(status_path) as f:
            status = json.load(f)
    except (subprocess.TimeoutExpired, OSError, ValueError):
        p = None
    repo = os.path.realpath(os.environ.get("VERIF_REPO", "/repo"))
    if (status is None or not status.get("done") or p is None or p.returncode != 0
            or not os.path.realpath(status["flow_record_file"]).startswith(repo + os.sep)):
        ctx.require(False, "the C18 working-directory child did not report (never a verdict)")
        shutil.rmtree(d, ignore_errors=True)
        return
    ctx.nontrivial("cwd", case["s"])
    ctx.event("cwd_children")
    ctx.event("histories")
    held = True
    for (rel, hist, seed, bs), js in zip(meta, status["jobs"]):
        nw = hist.count("w")
        extra = {"relative_path": rel, "history": hist, "batch_size": bs, "op_errors": js["errors"]}
        ctx.event("cwd_jobs")
        ctx.cell("cwd", "chdir_before_first_write" if hist.index("d") < (hist + "w").index("w") else "chdir_later", "bs%d" % bs)
        if not js.get("created") or js["errors"]:
            held = False
            ctx.violation(None, "cwd: the writer failed on a relative database path", detail=dict(extra, error=js.get("create_error")))
            continue
        stray = os.path.join(dir_b, rel)
        if os.path.exists(stray):
            held = False
            ctx.violation(None, "cwd: a database appeared relative to a later working directory instead of the one at creation",
                          detail=dict(extra, stray_size=os.path.getsize(stray)))
        expected = io17.observe_all(io17.make_records(seed, nw, "xy", generated=io17.fixed_generated(nw)))
        view = io17.inspect_file("sqlite", None, os.path.join(dir_a, rel))
        for code, msg, detail in io17.diff_view("sqlite", view, expected):
            held = False
            ctx.violation(None, "cwd: the database named at creation: " + msg, detail=dict(extra, **detail))
    if held:
        ctx.event("histories_held")
    ctx.sample({"case": case, "jobs": [m[:2] for m in meta]}, kind="cwd")
    shutil.rmtree(d, ignore_errors=True)


def execute(ctx, case):
    from flow.record import RecordDescriptor

    if case["k"] == "locked":
        return exec_locked(ctx, case)
    if case["k"] == "cwd":
        return exec_cwd(ctx, case)
    versions, plan = build_case(case, thorough=not ctx.quick)
    kind = case["k"]
    collide = collision_in_case(versions, plan)
    if collide and kind not in KIND_COLLIDE:
        ctx.event("skipped_unintended_collision")
        return
    # records are built once and written once per batch size
    descs, records = [], []
    try:
        descs = [RecordDescriptor(t, fl) for t, fl in versions]
        for step in plan:
            if step[0] == "w":
                records.append(descs[step[1]].recordType(**step[2]))
    except Exception as e:  # noqa: BLE001
        ctx.violation(None, "the generated descriptors / records cannot be built", detail={"exception": repr(e)[:300], "versions": versions})
        return
    for r in records:
        observe.assert_typed(r, "written")
    before = [observe.obs(r) for r in records]
    nrec = len(records)
    ctx.state["n"] += 1
    d = os.path.join(ctx.state["tmp"], "c%d" % ctx.state["n"])
    os.makedirs(d)
    dumps = {}
    problems = []
    batches = case.get("batches") or (BATCHES if ctx.quick else BATCHES_THOROUGH)
    for bs in batches:
        ctx.ev()
        path = os.path.join(d, "b%d.db" % bs)
        res = run_once(ctx, versions, descs, records, plan, bs, path, problems)
        k, accepted = res if res is not None else (None, None)
        ctx.cell("batch", bs, "n<bs" if nrec < bs else ("n%bs=0" if nrec % bs == 0 else "n%bs>0"))
        if k is None:
            continue
        dd = check_content(ctx, versions, records, plan, path, bs, problems, accepted)
        if dd is not None:
            dumps[bs] = {"order": dd["order"], "tables": {t: {"cols": v["cols"], "rows": v["rows"]} for t, v in dd["tables"].items()}}
    if [observe.obs(r) for r in records] != before:
        problems.append(("mutated", "writing mutated a record", {}))
    ref = None
    for bs, dd in dumps.items():
        if ref is None:
            ref = (bs, dd)
        elif dd != ref[1]:
            where = [t for t in dd["tables"] if dd["tables"].get(t) != ref[1]["tables"].get(t)]
            problems.append(("dump-batch", "the stored content depends on the batch size",
                             {"batch_sizes": [ref[0], bs], "tables_differing": where[:5], "order": [ref[1]["order"], dd["order"]]}))
    ctx.event("dump_comparisons", max(0, len(dumps) - 1))
    ctx.event("histories")
    ctx.event("records_written", nrec * len(batches))
    ctx.event("kind:" + kind)
    import keyword

    for vi in sorted({step[1] for step in plan if step[0] == "w"}):
        t, fl = versions[vi]
        ctx.event("type_names_multi_segment" if "/" in t else "type_names_single_segment")
        if any(seg.lower() in SQL_LOWER for seg in t.split("/")):
            ctx.event("type_names_with_sql_keyword")
        for _, fn in fl:
            ctx.event("field_names")
            if fn.lower() in SQL_LOWER:
                ctx.event("field_names_sql_keyword")
            if keyword.iskeyword(fn):
                ctx.event("field_names_python_keyword")
            if fn != fn.lower() and fn != fn.upper():
                ctx.event("field_names_mixed_case")
    seen_dt = {}
    for r in records:
        for ftype, fname in list(r._desc.get_field_tuples()) + [("datetime", "_generated")]:
            v = getattr(r, fname) if ftype == "datetime" else None
            if v is None:
                continue
            o = tuple(observe.odt(v))
            key = (instant_us(v))
            if key in seen_dt and o not in seen_dt[key]:
                ctx.event("timestamps_equal_instant_other_offset")
            wkey = ("wall", o[1:8], str(getattr(v, "tzinfo", None)))
            if wkey in seen_dt and o not in seen_dt[wkey]:
                ctx.event("timestamps_same_wall_clock_other_fold")
            seen_dt.setdefault(key, set()).add(o)
            seen_dt.setdefault(wkey, set()).add(o)
    if kind == "coincident":
        prev = {}
        for step in plan:
            if step[0] == "w":
                t_ = versions[step[1]][0]
                if t_ in prev and prev[t_] != step[1]:
                    ctx.event("coincident_version_switches")
                prev[t_] = step[1]
    table_cols = {}
    for step in plan:
        if step[0] != "w":
            continue
        t, fl = versions[step[1]]
        fs = {fn for _, fn in fl}
        have = table_cols.get(t)
        if have is None:
            table_cols[t] = set(fs)
            if t.lower().startswith("sqlite"):
                ctx.event("type_names_starting_with_sqlite")
            continue
        if (fs - have) and (have - fs):
            ctx.event("versions_not_superset_with_new_field")  # the table lacks a field of this record AND has fields it lacks
        have |= fs
    nver = {}
    for t, _ in versions:
        nver[t] = nver.get(t, 0) + 1
    used = {step[1] for step in plan if step[0] == "w"}
    if len({versions[vi][0] for vi in used}) > 1:
        ctx.event("histories_interleaving_types")
    if any(sum(1 for vi in used if versions[vi][0] == t) > 1 for t in nver):
        ctx.event("histories_with_evolution")
    if nrec:
        ctx.nontrivial(kind, case["s"])
    # classification
    seen_msgs = set()
    for part, msg, detail in problems:
        key = None
        if collide and part in ("write-error", "schema", "counts", "values", "read-error", "after-abort"):
            if part != "write-error" or detail.get("exception_is_sqlite_error"):
                key = "sqlite-case-insensitive-identifiers"
        if part == "after-abort" and key is None:
            continue  # consequence of a write error that was reported already
        if (key, msg) in seen_msgs:
            continue
        seen_msgs.add((key, msg))
        detail = dict(detail)
        detail["versions"] = [(t, fl) for t, fl in versions]
        detail["n_records"] = nrec
        detail["plan"] = "".join("f" if s[0] == "f" else str(s[1]) for s in plan)[:120]
        ctx.violation(key, msg, detail=detail)
    if not problems:
        ctx.event("histories_held")
    ctx.sample({"case": case, "versions": versions, "plan": "".join("f" if s[0] == "f" else str(s[1]) for s in plan)}, kind=kind)
    shutil.rmtree(d, ignore_errors=True)


def finish(ctx):
    ctx.state["reach"].into(ctx)
    if ctx.evaluations == 0:
        return
    ev = ctx.events
    ctx.require(ev.get("polls_after_write", 0) > 0 and ev.get("polls_after_close", 0) > 0, "the second connection was never polled")
    ctx.require(ev.get("commit_points_seen", 0) > 0, "the second connection never saw a commit point")
    ctx.require(ev.get("polls_busy", 0) * 10 <= ev.get("polls", 1), "the second connection was locked out in more than 10% of the polls")
    ctx.require(ev.get("dump_comparisons", 0) > 0, "no dump was compared across batch sizes")
    ctx.require(ev.get("timestamps_equal_instant_other_offset", 0) > 0 and ev.get("timestamps_same_wall_clock_other_fold", 0) > 0
                and ev.get("raw_timestamp_cells_checked", 0) > 0,
                "no database held equal-instant timestamps with different offsets and a fold=0/fold=1 pair")
    ctx.require(ev.get("reader_usage_histories", 0) > 0, "no reader-usage history (lockstep / nested / restart) ran")
    ctx.require(ev.get("kind:redeclare", 0) > 0, "no descriptor with a re-declared field name was written")
    ctx.require(ev.get("reader_batch_size_reads", 0) > 0, "the database was never read back with another reader batch size")
    ctx.require(ctx.shard != 0 or ev.get("kind:bigtable", 0) > 0, "no table with more rows than the reader's default batch size")
    ctx.require(ev.get("kind:coincident", 0) > 0 and ev.get("coincident_version_switches", 0) > 0,
                "no schema evolution between identifier-coincident versions of one type name")
    ctx.require(ev.get("unmappable_refused", 0) > 0, "no history in which an unmappable record was refused between accepted ones")
    ctx.require(ev.get("locked_cases", 0) > 0 and ev.get("locked_commit_raised", 0) + ev.get("locked_commit_returned", 0) > 0,
                "no commit was attempted while another connection held an unfinished SELECT")
    ctx.require(ev.get("cwd_jobs", 0) > 0, "no relative database path was written under a changing working directory")
    ctx.require(ev.get("type_names_starting_with_sqlite", 0) > 0, "no type name starting with 'sqlite' was written")
    ctx.require(ev.get("versions_not_superset_with_new_field", 0) > 0, "no descriptor evolution with a non-superset version bringing a new field")
    ctx.require(ev.get("read_values_checked", 0) > 0 and ev.get("raw_cells_checked", 0) > 0, "no value was compared after reading back")
    for q in ANCHORS:
        ctx.require(ctx.reach.get(q, 0) > 0, "anchor %s was never entered" % q)
