"""C12 - record equality and hashing obey the value-object contract (DESIGN section 4, C12)."""
from __future__ import annotations

import datetime as _dt
import json
import os
import random
import subprocess
import sys
import warnings

from .. import gen, observe, probes
from ..core import VERIF_DIR, subseed

ID = "C12"
TITLE = "record equality / hashing contract and scoped ignore configuration"
LEVEL = "exploration"
RULE = (
    "cases: 'type' = for every whitelisted field type (scalar and T[]) x value class of the shared pools, a record whose descriptor "
    "holds that type plus 0-3 random other fields, built twice independently from the same recipe (fresh descriptor objects, fresh "
    "value objects, _generated pinned at every nesting level) -> pairs: record vs rebuilt copy, vs one single-field variation per "
    "field (data and metadata; the varied field gets a clearly different value: other integer / longer text / other year / longer "
    "list ...), vs the same values under another descriptor (renamed type, renamed field, extra field, alias type, reordered "
    "fields), vs non-records; 'nested' / 'grouped' = the same for records holding record / record[] values and for grouped "
    "records (variation inside a member / nested record, other group name, swapped members); 'borderline' = value pairs whose "
    "equality the statement leaves open (NaN, 0.0/-0.0, 1/True, differently spelled paths, same instant in another zone, hex "
    "case); 'dictorder' = dictlist values whose dicts have keys of mixed, mutually unorderable types (int / str / None / bytes / tuple / "
    "float), also nested in lists and dicts of the dict values, inserted in different orders in two otherwise identical records (plain, "
    "held by record / record[] fields, as grouped members): must be equal, hash equal and be found in sets / dicts; 'mutate' = a plain "
    "record, a holder of record / record[] values and a grouped record are hashed, then modified (through the grouped view, through a "
    "member's own reference, in place through a held typed list / digest, through nested records) and compared with independently "
    "rebuilt copies of the new state (equal, equal hash, set / dict lookup) and of the old state (unequal); 'envignore' = one worker "
    "process per FLOW_RECORD_IGNORE value (unset, '_generated', '_source,_generated', a data field, empty) running a script of "
    "explicit set_ignored_fields_for_comparison calls and (nested, failing) scopes incl. explicitly empty ones: a dictionary model "
    "of the configuration in force (environment default until the first explicit call, explicit = exactly what was given, restored "
    "after a scope) decides every probe; 'edges' = range-edge values of 20 types (datetime min / max and year 1 / 9999 within their offset of the edge, +-2**63 / 2**200 integers, nan / inf / -0.0 / denormals, empty versus None, 64 KiB texts, non-NFC text, byte escapes, all-zero / all-one addresses, /0 and /128 networks, empty paths / digests) as scalar, as T[] element and as _generated: rebuilt copies equal, every pair compared, sets and dicts built - nothing may raise; 'variants' = 34 pairs of representations of the same logical input (str / bytes values and group / type / field names, int / equal float / bool, naive / UTC / text / epoch timestamps, text / object addresses and paths, tuple / dict / list digests, hex case, list / tuple) must give the same observation, equal records, equal hashes; grouped cases also compare seven structural variants (a member twice, an extra member of an existing type, nested groups flattening to the same members, reversed members): equal exactly when the canonical observation is the same; thorough tier: every field varied under every single-field ignore set, up to 28 field pairs and 6 all-but-one sets, groups of up to 6 members, up to 16 modification rounds, recursion depth up to 9, dict nesting depth 4, ~1000 environment children; 'rawlist' = T[] fields of 19 element types filled in place with plain untyped values (append / extend / insert / item and slice assignment; plain, grouped member, nested in record / record[]): ==, !=, hash and set / dict membership must not raise and agree with a record rebuilt from the same values; 'nametwin' = descriptors with identical fields whose names differ only in '/' versus '_' (plus clones and same-name-other-fields descriptors) created before and after the compared records: different names => unequal, hash / reported descriptor name / observation of untouched records stable; 'scope2' = scopes ended through a suspended generator (close / exhaust / throw / drop), recursion, and an explicit set inside a scope; every scope and set call goes through one of the two public entry points flow.record.X / flow.record.base.X; " 
    "'classcache' = equal descriptors re-created (directly / from a stream / as grouped members) "
    "after the lru_cache of generated record classes overflowed; 'coincident' = two different descriptors whose identifiers coincide by construction; 'ipfamily' = addresses of "
    "different family / scope with the same integer; 'scope' = the ignore configuration installed by "
    "set_ignored_fields_for_comparison or the context manager (list / set / tuple / frozenset / dict / generator; nested scopes; an "
    "exception injected inside the scope in half of the cases).  Every pair is compared under the ignore configurations {} , "
    "{_generated}, {the varied/focus field}, all fields, a random subset.  One evaluation = one pair under one configuration "
    "(==, != in both directions, hash of both, set and dict membership).  Oracle = dictionary model: same descriptor and identical "
    "deep observation of every non-ignored slot => must be equal with equal hashes; exactly one non-ignored slot clearly different "
    "or another descriptor or a non-record => must be unequal; always: nothing raises, == is reflexive and symmetric, != is its "
    "negation, a == b implies hash(a) == hash(b) and set/dict lookup succeeds, hash is stable; the configuration observed after a "
    "scope equals the one before it.  A case is non-trivial when at least one pair with a fixed expectation was compared; distinct "
    "= distinct (kind, field type, value class, sub-seed)."
)
ASSUMPTIONS = [
    "expectations are derived only where unambiguous: a rebuilt copy holding a NaN float, and the borderline pairs, are checked for never-raises, "
    "reflexivity, symmetry and hash consistency only",
    "an ignored field name is applied by the library inside nested records and group members as well; a variation inside a nested record is given "
    "an expectation only under configurations that name neither the nested field nor (for 'must be unequal') the holding field",
    "group names differ from member type names; descriptors of the 'other descriptor' pairs never coincide in identifier (checked independently), "
    "coincidences are the subject of the dedicated 'coincident' cases",
    "values come from the shared generator pools (verif/gen.py); _generated is always pinned, no wall-clock value decides anything",
    "copy.copy / copy.deepcopy are judged only where the copy can be made (deep copies of command values raise on the unchanged tree); a deep copy "
    "that differs from the original only in the text of path values ('.' -> '', '\\c:\\x' -> 'c:x': pathlib rebuilds the copy from the parts) is noted, not judged; scope objects are single-use on the unchanged tree: entering one object twice may be "
    "refused, the decorator form creates a fresh scope per call - in every case the configuration in force before must be back afterwards",
    "the ignore configuration is observed through flow.record.base.IGNORE_FIELDS_FOR_COMPARISON (the property's own anchor) and through behaviour",
    "FLOW_RECORD_IGNORE is a comma separated list of field names taken literally (value.split(','): no stripping of blanks, no case folding, an empty "
    "entry is the name '' which matches no field, duplicates collapse; unset or empty = nothing ignored); field names are case sensitive",
]
SHARDS = {"quick": 8, "thorough": 16}
BUDGET_S = {"quick": 150, "thorough": 3600}

ANCHORS = [
    "flow.record.base:Record.__eq__",
    "flow.record.base:Record.__hash__",
    "flow.record.base:Record._pack",
    "flow.record.base:GroupedRecord._pack",
    "flow.record.base:set_ignored_fields_for_comparison",
    "flow.record.base:ignore_fields_for_comparison",
    "flow.record.base:_freeze",
]

STAMP = _dt.datetime(2022, 2, 2, 2, 2, 2, 222222, tzinfo=_dt.timezone.utc)
META = ("_source", "_classification", "_generated", "_version")
CONTAINERS = ("list", "set", "tuple", "frozenset", "dict", "generator")
KEY_COINCIDENT = "descriptor-identifier-coincidence-equal"
KEY_IPFAMILY = "ipaddress-int-pack-loses-family"


ENV_IGNORE = [None, "_generated", "_source,_generated", "n", "", "_generated,userName,EventID", "username,eventid", " userName ,EventID,", "USERNAME,,n,n", "_Generated, _source",
              "Field9,field9,_classification", ","]
ENV_NAME_POOL = ["_generated", "_source", "_classification", "_version", "n", "s", "userName", "username", "EventID", "eventid", "Field9", "field9", "USERNAME", "EVENTID", "_Generated",
                 " userName", "userName ", " n ", "\tn", "", "", "zz_missing", "N", "S", "event ID", "userName;n"]


def random_env_value(rng):
    """a FLOW_RECORD_IGNORE value: names with capitals, digits, leading underscores, surrounding blanks, empty entries, duplicates, a trailing
    comma, names of fields that do not exist, reserved names"""
    names = [rng.choice(ENV_NAME_POOL) for _ in range(rng.randint(1, 6))]
    if rng.random() < 0.3:
        names.append(rng.choice(names))
    value = ",".join(names)
    if rng.random() < 0.25:
        value += ","
    if rng.random() < 0.15:
        value = "," + value
    return value


def parse_env_ignore(value):
    """The documented form is 'a comma separated list of field names'; the names are taken as they are: no stripping, no case folding,
    an empty entry is the (matching nothing) name ''.  An unset or empty variable means nothing is ignored."""
    return set(value.split(",")) if value else set()
MUT_SHAPES = ("plain", "grouped", "holder")
WORKER_TIMEOUT_S = 120
KEY_ENV_EMPTY = "explicit-empty-ignore-falls-back-to-environment"
KEY_STALE_HASH = "hash-stale-after-mutation"
KEY_CLASS_IDENTITY = "equality-depends-on-record-class-identity"


# plain (UNTYPED) values a caller may put into a typed list in place; the library converts them while packing
RAW_LIST_ELEMENTS = {
    "path": ["/etc/shadow", "relative/x y", "c"], "command": ["ls -la /tmp", "/bin/sh -c 'echo hi'", "x"],
    "digest": [("d41d8cd98f00b204e9800998ecf8427e", None, None), (None, "da39a3ee5e6b4b0d3255bfef95601890afd80709", None)], "string": ["raw text", b"raw \xff bytes", ""],
    "wstring": ["raw w"], "varint": [0, -1, 2**70], "uint16": [0, 65535, 80], "uint32": [4294967295, 1], "float": [1, 2.5], "boolean": [True, 0], "uri": ["http://raw.example/x?y"],
    "net.ipaddress": ["10.1.2.3", "2001:db8::5"], "net.ipnetwork": ["10.0.0.0/8", "10.1.2.3"], "filesize": [12345], "unix_file_mode": [0o644],
    "datetime": ["2020-01-02T03:04:05", _dt.datetime(2021, 2, 3, 4, 5, 6), _dt.datetime(2021, 2, 3, 4, 5, 6, tzinfo=_dt.timezone(_dt.timedelta(hours=2))), 0], "bytes": [b"raw", b""],
    "net.tcp.Port": [443],
}
EDGE_TYPES = ("datetime", "varint", "filesize", "float", "string", "wstring", "bytes", "net.ipaddress", "net.ipnetwork", "path", "digest", "uint16", "uint32", "boolean", "uri",
              "stringlist", "dictlist", "dynamic", "unix_file_mode", "command")


class _Boom(Exception):
    """injected inside an ignore scope"""


def setup(ctx):
    import flow.record.base as base

    warnings.simplefilter("ignore")
    ctx.state["reach"] = probes.Reach(ANCHORS)
    ctx.state["original_config"] = set(getattr(base, "IGNORE_FIELDS_FOR_COMPARISON", set()))
    ctx.state["has_global"] = hasattr(base, "IGNORE_FIELDS_FOR_COMPARISON")


def teardown(ctx):
    import flow.record.base as base

    try:
        base.set_ignored_fields_for_comparison(ctx.state.get("original_config", set()))
    except Exception:  # noqa: BLE001
        pass
    ctx.state["reach"].stop()


def generate(ctx):
    idx = 0
    for rep in range(ctx.scale(24, 3000)):
        if ctx.mine(idx):
            yield {"k": "nametwin", "s": subseed("c12", ctx.seed, "nametwin", rep)}
        idx += 1
    for variant in ("generator", "recursive", "set-inside", "decorator", "same-object"):
        for rep in range(ctx.scale(16, 1500)):
            if ctx.mine(idx):
                yield {"k": "scope2", "variant": variant, "s": subseed("c12", ctx.seed, "scope2", variant, rep), "depth": ctx.scale(4, 9)}
            idx += 1
    for rep in range(ctx.scale(1, 4)):
        if ctx.mine(idx + 3):  # one shard pays the ~1-2 s of overflowing the record-class cache
            yield {"k": "classcache", "s": subseed("c12", ctx.seed, "classcache", rep)}
        idx += 1
    for rep in range(ctx.scale(1, 8)):
        for e in range(len(ENV_IGNORE)):
            if ctx.mine(idx):
                yield {"k": "envignore", "value": ENV_IGNORE[e], "s": subseed("c12", ctx.seed, "envignore", e, rep)}
            idx += 1
    for rep in range(ctx.scale(8, 420)):
        if ctx.mine(idx):
            sd = subseed("c12", ctx.seed, "envignore-random", rep)
            yield {"k": "envignore", "value": random_env_value(random.Random(sd)), "s": sd}
        idx += 1
    for shape in MUT_SHAPES:
        for i in range(ctx.scale(30, 3600)):
            if ctx.mine(idx):
                yield {"k": "mutate", "shape": shape, "s": subseed("c12", ctx.seed, "mutate", shape, i), "rounds": ctx.scale(4, 16)}
            idx += 1
    for rep in range(ctx.scale(3, 120)):
        for t in sorted(RAW_LIST_ELEMENTS):
            if ctx.mine(idx):
                yield {"k": "rawlist", "t": t, "s": subseed("c12", ctx.seed, "rawlist", t, rep), "rounds": ctx.scale(4, 12)}
            idx += 1
    for i in range(ctx.scale(24, 4000)):
        if ctx.mine(idx):
            yield {"k": "dictorder", "s": subseed("c12", ctx.seed, "dictorder", i), "depth": ctx.scale(2, 4)}
        idx += 1
    for t in sorted(EDGE_TYPES):
        for form in ("scalar", "list", "generated"):
            if ctx.mine(idx):
                yield {"k": "edges", "t": t, "form": form, "s": subseed("c12", ctx.seed, "edges", t, form)}
            idx += 1
    for rep in range(ctx.scale(2, 40)):
        if ctx.mine(idx):
            yield {"k": "variants", "s": subseed("c12", ctx.seed, "variants", rep)}
        idx += 1
    for kind in ("coincident", "ipfamily", "borderline"):
        for i in range(ctx.scale(2, 6)):
            if ctx.mine(idx):
                yield {"k": kind, "s": subseed("c12", ctx.seed, kind, i)}
            idx += 1
    for i, cont in enumerate(CONTAINERS):
        for raise_inside in (False, True):
            for nested in (False, True):
                for rep in range(ctx.scale(1, 6)):
                    if ctx.mine(idx):
                        yield {"k": "scope", "container": cont, "raise": raise_inside, "nested": nested, "s": subseed("c12", ctx.seed, "scope", cont, raise_inside, nested, rep)}
                    idx += 1
    for rep in range(ctx.scale(2, 200)):
        for t, vc in gen.all_cells():
            if vc == "extreme" and rep > 0:
                continue
            if ctx.mine(idx):
                c = {"k": "type", "t": t, "vc": vc, "s": subseed("c12", ctx.seed, "type", t, vc, rep)}
                if not ctx.quick:
                    c["full"] = True  # every field varied; every single-field ignore set, every pair of data fields
                yield c
            idx += 1
    for kind in ("nested", "grouped"):  # kind-major, so that every shard receives cases of both kinds
        for rep in range(ctx.scale(40, 7000)):
            if ctx.mine(idx):
                c = {"k": kind, "s": subseed("c12", ctx.seed, kind, rep)}
                if not ctx.quick:
                    c["full"] = True
                yield c
            idx += 1


# ---- building -------------------------------------------------------------------------------------
def pin_generated(rec, depth=0):
    """_generated defaults to 'now': pin it everywhere so that two builds of one recipe carry the same inputs"""
    import flow.record.base as base

    if isinstance(rec, base.GroupedRecord):
        for m in rec.records:
            pin_generated(m, depth + 1)
        return
    rec._generated = STAMP
    if depth > 6:
        return
    for k in rec.__slots__:
        v = getattr(rec, k)
        for x in v if isinstance(v, list) else [v]:
            if isinstance(x, base.Record):
                pin_generated(x, depth + 1)


def build_record(seed, focus_type=None, vc=None, thorough=False, kind="type"):
    """-> (record, descriptor, focus field name).  Deterministic in the arguments; every call returns fresh objects."""
    rng = random.Random(seed)
    b = gen.Builder(rng, thorough=False, max_depth=2)
    if kind == "grouped":
        g = b.grouped(n=rng.randint(1, 6 if thorough else 3))
        pin_generated(g)
        return g, None, None
    if kind == "nested":
        must = [rng.choice(["record", "record[]"])]
        desc = b.descriptor(must=must, nfields=rng.choice([1, 2, 3]), allow_keyword=False, name="c12n/" + gen.rand_ident(rng))
        fname = next(n for t, n in desc.get_field_tuples() if t == must[0])
        rec = b.record(desc, focus={fname: "random"})
        pin_generated(rec)
        return rec, desc, fname
    pool = [t for t in gen.ALL_FIELD_TYPES if not t.startswith("record")]
    desc = b.descriptor(must=[focus_type], nfields=rng.choice([1, 2, 3, 4]), types=pool, allow_keyword=True, name="c12/" + gen.rand_ident(rng))
    fname = next(n for t, n in desc.get_field_tuples() if t == focus_type)
    rec = b.record(desc, focus={fname: vc})
    pin_generated(rec)
    return rec, desc, fname


def has_nan(o):
    if isinstance(o, list):
        if len(o) == 2 and o[0] == "float" and isinstance(o[1], str) and len(o[1]) == 16:
            try:
                bits = int(o[1], 16)
            except ValueError:
                return False
            return (bits >> 52) & 0x7FF == 0x7FF and bits & ((1 << 52) - 1) != 0
        if o and o[0] == "rec" and len(o) == 4:
            return any(has_nan(v) for _, v in o[3])
        return any(has_nan(x) for x in o)
    return False


def nan_slots(o):
    """names of top-level slots of a 'rec' observation that hold a NaN somewhere"""
    if o and o[0] == "rec":
        return {k for k, v in o[3] if has_nan(v)}
    if o and o[0] == "grouped":
        out = set()
        for m in o[2]:
            out |= nan_slots(m)
        return out
    return set()


def slots_differing(oa, ob):
    if oa[0] != "rec" or ob[0] != "rec" or oa[1:3] != ob[1:3]:
        return None
    return {k for (k, va), (_, vb) in zip(oa[3], ob[3]) if va != vb}


# ---- clearly different values ---------------------------------------------------------------------
def alt_value(ftype, cur, rng):
    """A value for a field of `ftype` that is clearly different from the current one (`cur` = its observation)."""
    from flow.record import RecordDescriptor

    if ftype.endswith("[]"):
        # one more (valid) element than now: a longer list is clearly a different list
        return ("append", alt_value(ftype[:-2], None, rng))
    if ftype == "boolean":
        return not (cur is not None and cur[1])
    if ftype in ("uint16", "uint32", "net.tcp.Port", "net.udp.Port"):
        n = cur[2] if cur else 6
        return n + 1 if n < 65535 else n - 1
    if ftype in ("varint", "filesize", "unix_file_mode"):
        return (cur[2] if cur else 6) + 1
    if ftype == "float":
        return 1.5 if not cur or cur[1] != observe.f64hex(1.5) else 2.5
    if ftype in ("string", "wstring"):
        return (cur[2] if cur else "") + "~x"
    if ftype == "uri":
        return "http://alt.example/a" if not cur or cur[2] != "http://alt.example/a" else "http://alt.example/b"
    if ftype == "bytes":
        return (bytes.fromhex(cur[1]) if cur else b"") + b"\x01"
    if ftype == "datetime":
        year = cur[1] if cur else 1
        return _dt.datetime(2001, 2, 3, 4, 5, 6, tzinfo=_dt.timezone.utc) if abs(year - 2001) >= 2 else _dt.datetime(2010, 6, 7, 8, 9, 10, tzinfo=_dt.timezone.utc)
    if ftype == "digest":
        md5 = "11" * 16 if not cur or cur[1] != "11" * 16 else "22" * 16
        return (md5, None, None)
    if ftype in ("net.ipaddress", "net.IPAddress", "net.ipv4.Address"):
        n = cur[2] if cur and cur[0] == "ip" else (cur[1] if cur else -1)
        return "10.9.8.7" if n != 0x0A090807 else "10.9.8.8"
    if ftype in ("net.ipnetwork", "net.IPNetwork"):
        return "10.9.0.0/16" if not cur or cur[2] != "10.9.0.0/16" else "10.10.0.0/16"
    if ftype == "path":
        from flow.record.fieldtypes import path as fpath

        return fpath.from_posix("/alt/path") if not cur or cur[2] != "/alt/path" else fpath.from_posix("/alt/path2")
    if ftype == "command":
        from flow.record.fieldtypes import command as fcommand

        exe = cur[2][2] if cur and cur[2] else None
        return fcommand.from_posix("altcmd --flag") if exe != "altcmd" else fcommand.from_posix("altcmd2 --flag")
    if ftype == "stringlist":
        return ("append", "~x")
    if ftype == "dictlist":
        return ("append", {"alt": 1})
    if ftype == "dynamic":
        return "dyn~alt" if not (cur and cur[0] == "str" and cur[2] == "dyn~alt") else "dyn~alt2"
    if ftype == "record":
        d = RecordDescriptor("c12/altinner", [("string", "alt_inner")])
        inner = d(alt_inner="v" if not (cur and cur[0] == "rec" and cur[1] == "c12/altinner" and cur[3][0][1] == ["str", "string", "v"]) else "w")
        pin_generated(inner)
        return inner
    raise KeyError(ftype)


def apply_variation(rec, fname, ftype, rng):
    """Set field `fname` of `rec` (a fresh rebuilt copy) to a clearly different value."""
    cur = getattr(rec, fname)
    alt = alt_value(ftype, observe.oval(cur), rng)
    if isinstance(alt, tuple) and len(alt) == 2 and alt[0] == "append":
        setattr(rec, fname, list(cur or []) + [alt[1]])
    else:
        setattr(rec, fname, alt)


def meta_type(name):
    return {"_source": "string", "_classification": "string", "_generated": "datetime", "_version": "varint"}[name]


# ---- other descriptors ----------------------------------------------------------------------------
ALIASES = {"string": "wstring", "wstring": "string", "net.ipaddress": "net.IPAddress", "net.IPAddress": "net.ipaddress", "net.ipnetwork": "net.IPNetwork",
           "net.IPNetwork": "net.ipnetwork", "varint": "filesize", "filesize": "varint", "uint16": "net.tcp.Port", "net.tcp.Port": "net.udp.Port",
           "net.udp.Port": "uint16", "unix_file_mode": "varint"}


def ident_text(name, fields):
    """what the descriptor identifier is computed from (independently): equal text => coinciding identifier"""
    return name + "".join(n + t for t, n in fields)


def other_descriptors(desc, rng):
    """[(label, RecordDescriptor, positional source names)] different from `desc`, values mapped positionally"""
    from flow.record import RecordDescriptor

    name = desc.name
    fields = [tuple(f) for f in desc.get_field_tuples()]
    names = [n for _, n in fields]
    out = [("renamed-type", name + "_o", list(fields), names)]
    if fields:
        i = rng.randrange(len(fields))
        f2 = list(fields)
        f2[i] = (fields[i][0], fields[i][1] + "_r")
        out.append(("renamed-field", name, f2, names))
        out.append(("extra-field", name, list(fields) + [("string", "zz_extra")], names))
        al = [j for j, (t, _) in enumerate(fields) if (t[:-2] if t.endswith("[]") else t) in ALIASES]
        if al:
            j = rng.choice(al)
            t = fields[j][0]
            t2 = ALIASES[t[:-2]] + "[]" if t.endswith("[]") else ALIASES[t]
            f3 = list(fields)
            f3[j] = (t2, fields[j][1])
            out.append(("alias-type", name, f3, names))
    else:
        out.append(("extra-field", name, [("string", "zz_extra")], names))
    if len(fields) >= 2:
        f4 = list(fields)
        f4.reverse()
        out.append(("reordered", name, f4, [n for _, n in f4]))
    res = []
    for label, n2, f2, src in out:
        if ident_text(n2, f2) == ident_text(name, fields):
            continue
        res.append((label, RecordDescriptor(n2, f2), src))
    return res


def under_descriptor(rec, d2, src_names):
    vals = [getattr(rec, n) for n in src_names]
    return d2.recordType(*vals, **{"_source": rec._source, "_classification": rec._classification, "_generated": rec._generated})


# ---- ignore configurations ------------------------------------------------------------------------
def as_container(names, kind):
    names = list(names)
    if kind == "list":
        return names
    if kind == "set":
        return set(names)
    if kind == "tuple":
        return tuple(names)
    if kind == "frozenset":
        return frozenset(names)
    if kind == "dict":
        return {n: True for n in names}
    return (n for n in names)


def entry(ctx, what, rng):
    """one of the public entry points: the package-level name (flow.record.X) or the defining module's (flow.record.base.X)"""
    import flow.record
    import flow.record.base as base

    mod, label = (flow.record, "flow.record") if rng.random() < 0.6 else (base, "flow.record.base")
    fn = getattr(mod, what, None)
    if fn is None:
        fn, label = getattr(base, what), "flow.record.base"
    ctx.event("entry:%s.%s" % (label, what))
    return fn


def read_config(ctx):
    import flow.record.base as base

    try:
        return set(base.IGNORE_FIELDS_FOR_COMPARISON)
    except Exception:  # noqa: BLE001 - tolerant accessor: absence makes the state sub-check inconclusive, not violated
        ctx.state["has_global"] = False
        return None


class Config:
    """Installs an ignore configuration for the duration of a `with` block (one of the two public ways), runs the scope
    monitor on the way out and always restores what was there before."""

    def __init__(self, ctx, names, how, container, inject=False, rng=None):
        self.ctx, self.names, self.how, self.container, self.inject = ctx, set(names), how, container, inject
        self.rng = rng or random.Random(len(self.names) * 7 + len(container))

    def run(self, body):
        import flow.record.base as base

        ctx = self.ctx
        before = read_config(ctx)
        if self.how == "global":
            entry(ctx, "set_ignored_fields_for_comparison", self.rng)(as_container(self.names, self.container))
            ctx.event("config_installed:global")
            try:
                self.verify_installed()
                body()
            finally:
                base.set_ignored_fields_for_comparison(before if before is not None else set())
            return
        ctx.event("config_installed:scope" + ("+exception" if self.inject else ""))
        try:
            with entry(ctx, "ignore_fields_for_comparison", self.rng)(as_container(self.names, self.container)):
                self.verify_installed()
                body()
                if self.inject:
                    raise _Boom()
        except _Boom:
            pass
        finally:
            after = read_config(ctx)
            ctx.event("scope_restore_checked")
            if before is not None and after is not None and after != before:
                ctx.violation(None, "ignored-fields configuration not restored after the scope ended%s" % (" with an error" if self.inject else ""),
                              detail={"before": sorted(before), "inside": sorted(self.names), "after": sorted(after), "container": self.container})
                base.set_ignored_fields_for_comparison(before)

    def verify_installed(self):
        inside = read_config(self.ctx)
        if inside is not None and inside != self.names:
            self.ctx.violation(None, "ignored-fields configuration inside the scope is not the one given",
                               detail={"given": sorted(self.names), "observed": sorted(inside), "container": self.container, "how": self.how})


# ---- the comparison monitor -----------------------------------------------------------------------
def _try(ctx, what, fn, pairinfo):
    try:
        return True, fn()
    except Exception as e:  # noqa: BLE001
        ctx.violation(classify_raise(what, e, pairinfo.get("_operands", ())), "%s raised %s" % (what, type(e).__name__),
                      detail=dict({k: v for k, v in pairinfo.items() if k != "_operands"}, operation=what, exception=repr(e)[:300]))
        return False, None


def classify_raise(what, exc, operands):
    """the two repaired mechanisms (status fixed: the keys only name what came back): comparing / hashing a grouped record
    raised TypeError; hashing a record whose packed form nests lists (command values) raised TypeError"""
    import flow.record.base as base
    import flow.record.fieldtypes as ft

    if not isinstance(exc, TypeError):
        return None
    recs = [r for r in operands if isinstance(r, base.Record)]
    if any(isinstance(r, base.GroupedRecord) for r in recs):
        try:
            recs[0]._pack(excluded_fields=set())
        except TypeError:
            return "grouped-pack-signature"
        except Exception:  # noqa: BLE001
            return None
    if "hash" in what or "reflexive" in what or "membership" in what:
        def holds_command(r, depth=0):
            if isinstance(r, base.GroupedRecord):
                return any(holds_command(m, depth + 1) for m in r.records)
            for k in r.__slots__:
                v = getattr(r, k)
                for x in v if isinstance(v, list) else [v]:
                    if isinstance(x, ft.command) or (isinstance(x, base.Record) and depth < 4 and holds_command(x, depth + 1)):
                        return True
            return False

        try:
            if any(holds_command(r) or isinstance(r, base.GroupedRecord) for r in recs):
                return "hash-nested-list"
        except Exception:  # noqa: BLE001
            return None
    return None


def compare(ctx, a, b, expect, info):
    """One pair under the current configuration.  expect: 'equal' | 'unequal' | None (open).  -> a == b or None"""
    ctx.ev()
    ctx.event("pairs:" + (expect or "open"))
    if expect is not None:
        ctx.nontrivial(info.get("case", {}).get("k"), info.get("case", {}).get("s"), info.get("pair"), info.get("config"), info.get("where"))
    info = dict(info, _operands=(a, b))
    ok1, eq_ab = _try(ctx, "==", lambda: a == b, info)
    ok2, eq_ba = _try(ctx, "== (reflected)", lambda: b == a, info)
    ok3, ne_ab = _try(ctx, "!=", lambda: a != b, info)
    ok4, ne_ba = _try(ctx, "!= (reflected)", lambda: b != a, info)
    ctx.event("ops:eq", 2)
    ctx.event("ops:ne", 2)
    ha = hb = None
    import flow.record.base as base

    a_rec, b_rec = isinstance(a, base.Record), isinstance(b, base.Record)
    okh = True
    if a_rec:
        okh, ha = _try(ctx, "hash()", lambda: hash(a), info)
        ctx.event("ops:hash")
    if b_rec and okh:
        okh, hb = _try(ctx, "hash()", lambda: hash(b), info)
        ctx.event("ops:hash")
    info = {k: v for k, v in info.items() if k != "_operands"}
    if not (ok1 and ok2 and ok3 and ok4 and okh):
        return None
    key = info.get("key")
    for what, v in (("==", eq_ab), ("reflected ==", eq_ba), ("!=", ne_ab), ("reflected !=", ne_ba)):
        if not isinstance(v, bool):
            ctx.violation(None, "%s did not return a bool" % what, detail=dict(info, returned=repr(v)[:100]))
            return None
    if eq_ab != eq_ba:
        ctx.violation(None, "== is not symmetric", detail=dict(info, a_eq_b=eq_ab, b_eq_a=eq_ba))
    if ne_ab != (not eq_ab) or ne_ba != (not eq_ba):
        ctx.violation(None, "!= is not the negation of ==", detail=dict(info, eq=[eq_ab, eq_ba], ne=[ne_ab, ne_ba]))
    if eq_ab and a_rec and b_rec:
        ctx.event("hash_consistency_checked")
        if ha != hb:
            hkey = KEY_STALE_HASH if key == KEY_STALE_HASH else classify_hash_difference(a, b)
            ctx.violation(hkey, "equal records have different hashes", detail=dict(info, hash_a=ha, hash_b=hb))
        else:
            okm, res = _try(ctx, "set / dict membership", lambda: (a in {b}, {a: 1}.get(b), len({a, b})), info)
            ctx.event("ops:membership")
            if okm and res != (True, 1, 1):
                ctx.violation(None, "equal records are not found in a set / dict", detail=dict(info, observed=repr(res)))
    if expect == "equal" and not eq_ab:
        ctx.violation(key, "records with the same descriptor and equal non-ignored values are not equal", detail=info)
    if expect == "unequal" and eq_ab:
        ctx.violation(key, "records compare equal although %s" % info.get("because", "they differ"), detail=info)
    return eq_ab


KEY_DICT_ORDER = "hash-dict-insertion-order"


def _sort_dicts(o):
    if isinstance(o, list):
        if o and o[0] == "dict" and len(o) == 2:
            return ["dict", sorted(([_sort_dicts(k), _sort_dicts(v)] for k, v in o[1]), key=repr)]
        return [_sort_dicts(x) for x in o]
    return o


def classify_hash_difference(a, b):
    """hash-dict-insertion-order: the two records are identical except for the insertion order of the items of dicts held by
    dictlist fields (dict equality ignores that order, the hash is computed from the items in order)."""
    try:
        oa, ob = observe.obs(a), observe.obs(b)
        # dict observations only occur inside dictlist values: identical once every dict's items are put in one canonical order
        return KEY_DICT_ORDER if oa != ob and _sort_dicts(oa) == _sort_dicts(ob) else None
    except Exception:  # noqa: BLE001
        return None


def _dot_paths_emptied(o):
    if isinstance(o, list):
        if len(o) == 3 and o[0] == "path" and isinstance(o[2], str):
            return ["path", o[1], "<any path text>"]
        return [_dot_paths_emptied(x) for x in o]
    return o


def copies_equal(ctx, r, info):
    """copy.copy / copy.deepcopy of a record (where the copy can be made at all: deep copies of some field values are not supported):
    same observation, equal, equal hash, collapse in a set"""
    import copy

    for how, fn in (("copy.copy", copy.copy), ("copy.deepcopy", copy.deepcopy)):
        try:
            c = fn(r)
        except Exception as e:  # noqa: BLE001 - whether a copy can be made is not the property's subject
            ctx.event("copy_not_supported:" + how)
            continue
        ctx.event("copies_compared:" + how)
        oc, orr = observe.obs(c) if hasattr(c, "__slots__") or True else None, observe.obs(r)
        i2 = dict(info, pair=how + " of the record", b=describe(c), key="copy-of-record-differs")
        if oc != orr and how == "copy.deepcopy" and _dot_paths_emptied(orr) == _dot_paths_emptied(oc):
            # observed on the unchanged tree, reported to the lead as a candidate finding, not judged here: pathlib rebuilds a deep-copied
            # path from its parts, so '.' comes back as the library's EMPTY path '' and the windows path '\\c:\\x' as 'c:x'
            ctx.event("deepcopy_dot_path_becomes_empty")
            ctx.note("deepcopy_path_rebuilt_from_parts", "copy.deepcopy(record) changes some path values ('.' -> '', '\\c:\\x' -> 'c:x'): only the text of path values differs")
            continue
        if oc != orr:
            ctx.violation("copy-of-record-differs", "%s of a record has another observation than the record" % how, detail=dict(i2, diff=observe.first_diff(orr, oc)))
            continue
        compare(ctx, r, c, None if has_nan(orr) else "equal", i2)


def reflexive(ctx, r, info):
    ctx.event("reflexive_checked")
    ok, res = _try(ctx, "== (reflexive)", lambda: (r == r, r != r, hash(r), hash(r)), dict(info, _operands=(r,)))
    if not ok:
        return
    eq, ne, h1, h2 = res
    if eq is not True or ne is not False:
        ctx.violation(None, "== is not reflexive", detail=dict(info, eq=repr(eq), ne=repr(ne)))
    if h1 != h2:
        ctx.violation(None, "hash() of one record is not stable", detail=dict(info, hashes=[h1, h2]))


NONRECORDS = [None, 0, 1, True, "", "text", b"", b"x", 1.5, (), [], {}, ("a", 1), frozenset()]


def describe(r):
    try:
        s = repr(r)
    except Exception as e:  # noqa: BLE001
        s = "<repr raised %s>" % type(e).__name__
    return s if len(s) < 400 else s[:400] + "..."


def configs_for(ctx, rng, all_names, focus_names):
    """[(label, names)] ignore configurations under which every pair of a case is compared"""
    data = [n for n in all_names if n not in META]
    out = [("none", set()), ("_generated", {"_generated"})]
    for f in focus_names[:2]:
        out.append(("field:" + ("meta" if f in META else "data"), {f}))
    out.append(("all", set(all_names)))
    k = rng.randint(1, max(1, len(all_names) - 1))
    out.append(("subset", set(rng.sample(sorted(all_names), min(k, len(all_names))))))
    if data:
        out.append(("alldata", set(data)))
    return out


def run_under_configs(ctx, rng, configs, body):
    """body(label, names) is run under every configuration, installed alternately by the two public ways"""
    for i, (label, names) in enumerate(configs):
        if not names and rng.random() < 0.5:
            ctx.event("config_installed:untouched")
            if read_config(ctx) in (set(), None):
                body(label, set(names))
                continue
        how = "global" if rng.random() < 0.4 else "scope"
        Config(ctx, names, how, rng.choice(CONTAINERS), inject=(how == "scope" and rng.random() < 0.5), rng=rng).run(lambda: body(label, set(names)))
        ctx.cell("config", label, how)


# ---- case kinds -----------------------------------------------------------------------------------
def run_type(ctx, case):
    kind = case["k"]
    t, vc = case.get("t"), case.get("vc")
    rng = random.Random(case["s"] ^ 0x5A5A)
    a, desc, focus = build_record(case["s"], t, vc, kind=kind)
    b, desc_b, _ = build_record(case["s"], t, vc, kind=kind)
    oa, ob = observe.obs(a), observe.obs(b)
    if oa != ob or a is b:
        ctx.event("generator_selfcheck_failed")
        ctx.note("generator_selfcheck_example", observe.first_diff(oa, ob))
        return
    observe.assert_typed(a, "built")
    nans = nan_slots(oa)
    fields = [(ft_, n) for ft_, n in desc.get_field_tuples()]
    all_names = [n for _, n in fields] + list(META)
    # single-field variations: one per data field and per metadata field
    variations = []
    vary = list(fields) + [(meta_type(m), m) for m in META]
    if len(vary) > 6 and not case.get("full"):
        keep = [f for f in vary if f[1] == focus]
        rest = [f for f in vary if f[1] != focus]
        rng.shuffle(rest)
        vary = keep + rest[:5]
    for ftype, fname in vary:
        v, _, _ = build_record(case["s"], t, vc, kind=kind)
        try:
            apply_variation(v, fname, ftype, rng)
        except Exception as e:  # noqa: BLE001 - the generator could not vary this field: counted, not judged
            ctx.event("variation_not_applicable")
            ctx.note_add("variation_not_applicable:" + ftype)
            continue
        diff = slots_differing(oa, observe.obs(v))
        if diff != {fname}:
            ctx.event("variation_not_single_field")
            continue
        variations.append((ftype, fname, v))
    others = []
    for label, d2, src in other_descriptors(desc, rng):
        try:
            others.append((label, under_descriptor(a, d2, src)))
        except Exception as e:  # noqa: BLE001
            ctx.event("other_descriptor_not_buildable")
    nested_var = None
    if kind == "nested":
        nested_var = make_nested_variation(ctx, case, a, focus, rng)
    info0 = {"case": case, "descriptor": [desc.name, fields], "a": describe(a)}
    configs = configs_for(ctx, rng, all_names, [focus] + [rng.choice(all_names)])
    if case.get("full"):
        # thorough: every single-field ignore set and every pair of data fields (exhaustive over ignore sets of size <= 1, data pairs of size 2)
        data = [n for n in all_names if n not in META]
        configs += [("single", {n}) for n in all_names]
        configs += [("pair", {x, y}) for i, x in enumerate(data) for y in data[i + 1:]][:28]
        configs += [("all-but-one", set(all_names) - {n}) for n in all_names[:6]]

    copies_equal(ctx, a, dict(info0, config="none"))

    def body(label, ignored):
        base_info = dict(info0, ignored=sorted(ignored), config=label)
        reflexive(ctx, a, base_info)
        nan_blocks_equal = bool(nans - ignored)
        compare(ctx, a, b, None if nan_blocks_equal else "equal", dict(base_info, pair="rebuilt copy", b=describe(b)))
        ctx.cell("pair", "rebuilt", label)
        for ftype, fname, v in variations:
            if fname in ignored:
                exp = None if nan_blocks_equal else "equal"
                why = None
            else:
                exp, why = "unequal", "field %r (%s) differs and is not ignored" % (fname, ftype)
            compare(ctx, a, v, exp, dict(base_info, pair="variation of " + fname, varied_type=ftype, b=describe(v), because=why))
            ctx.cell("pair", "variation:" + ("ignored" if fname in ignored else "counted"), ftype)
        for lab, o in others:
            compare(ctx, a, o, "unequal", dict(base_info, pair="other descriptor: " + lab, b=describe(o), b_descriptor=[o._desc.name, list(o._desc.get_field_tuples())],
                                                because="the descriptors differ (%s)" % lab))
            ctx.cell("pair", "other-descriptor", lab)
        for x in NONRECORDS + [a._desc, type(a), tuple(a._pack()) if hasattr(a, "_pack") else None]:
            compare(ctx, a, x, "unequal", dict(base_info, pair="non-record", b=describe(x), because="the other operand is not a record"))
        ctx.cell("pair", "non-record", label)
        if nested_var is not None:
            inner_field, holder, v = nested_var
            if holder in ignored:
                exp = None if nan_blocks_equal else "equal"
            elif inner_field in ignored:
                exp = None
            else:
                exp = "unequal"
            compare(ctx, a, v, exp, dict(base_info, pair="variation inside nested record", b=describe(v), because="nested field %r differs" % inner_field))
            ctx.cell("pair", "nested-variation", exp or "open")

    run_under_configs(ctx, rng, configs, body)
    ctx.cell("type", t or kind, vc or "-")
    if variations or others:
        ctx.nontrivial(kind, t, vc, case["s"])
    ctx.sample({"case": case, "record": describe(a), "variations": [f for _, f, _ in variations], "other_descriptors": [lab for lab, _ in others]}, kind=kind + ":" + (vc or ""))


def make_nested_variation(ctx, case, a, holder, rng):
    """copy of `a` whose nested record (first one in field `holder`) differs in one of its own data fields"""
    import flow.record.base as base

    v, _, _ = build_record(case["s"], kind="nested")
    cur = getattr(v, holder)
    inner = cur[0] if isinstance(cur, list) and cur else cur
    if not isinstance(inner, base.Record) or isinstance(inner, base.GroupedRecord):
        return None
    cands = [(t, n) for t, n in inner._desc.get_field_tuples() if not t.startswith("record")]
    if not cands:
        return None
    ftype, fname = rng.choice(cands)
    if fname in [n for _, n in a._desc.get_field_tuples()]:
        return None
    try:
        apply_variation(inner, fname, ftype, rng)
    except Exception:  # noqa: BLE001
        return None
    if slots_differing(observe.obs(a), observe.obs(v)) != {holder}:
        return None
    return fname, holder, v


def run_grouped(ctx, case):
    from flow.record import GroupedRecord

    rng = random.Random(case["s"] ^ 0xA5A5)
    full = bool(case.get("full"))
    a, _, _ = build_record(case["s"], kind="grouped", thorough=full)
    b, _, _ = build_record(case["s"], kind="grouped", thorough=full)
    oa = observe.obs(a)
    if oa != observe.obs(b):
        ctx.event("generator_selfcheck_failed")
        return
    member_names = {m._desc.name for m in a.records}
    if a.name in member_names:
        ctx.event("grouped_name_equals_member_name_skipped")
        return
    nans = nan_slots(oa)
    all_names = sorted({n for m in a.records for n in m.__slots__})
    # variation in one member's data field (field names are unique per member here only by chance: require uniqueness)
    variations = []
    counts = {}
    for m in a.records:
        for _, n in m._desc.get_field_tuples():
            counts[n] = counts.get(n, 0) + 1
    for mi, m in enumerate(a.records):
        cands = [(t, n) for t, n in m._desc.get_field_tuples() if counts[n] == 1 and not t.startswith("record")]
        if not cands:
            continue
        ftype, fname = rng.choice(cands)
        v, _, _ = build_record(case["s"], kind="grouped", thorough=full)
        try:
            apply_variation(v.records[mi], fname, ftype, rng)
        except Exception:  # noqa: BLE001
            ctx.event("variation_not_applicable")
            continue
        ov = observe.obs(v)
        changed = [i for i, (x, y) in enumerate(zip(oa[2], ov[2])) if x != y]
        if changed != [mi] or slots_differing(oa[2][mi], ov[2][mi]) != {fname}:
            ctx.event("variation_not_single_field")
            continue
        variations.append((ftype, fname, v))
    renamed = GroupedRecord(a.name + "_o", list(b.records))
    swapped = GroupedRecord(a.name, list(reversed(b.records))) if len(b.records) > 1 and observe.obs(b.records[0]) != observe.obs(b.records[-1]) else None
    fewer = GroupedRecord(a.name, list(b.records[:-1])) if len(b.records) > 1 else None
    # structural variants: member count / duplicated member / an extra member that adds no new flat field / a nested group
    structural = []
    try:
        last = b.records[-1]
        rebuilt_last = build_record(case["s"], kind="grouped", thorough=full)[0].records[-1]
        structural.append(("last member twice (same object)", GroupedRecord(a.name, list(b.records) + [last])))
        structural.append(("last member twice (rebuilt copy)", GroupedRecord(a.name, list(b.records) + [rebuilt_last])))
        structural.append(("first member twice", GroupedRecord(a.name, [b.records[0]] + list(b.records))))
        extra = type(last)(*[getattr(last, k) for k in last.__slots__])
        extra._source = "another record of a member's type"
        structural.append(("extra member of an existing member's type", GroupedRecord(a.name, list(b.records) + [extra])))
        structural.append(("nested group (flattened to the same members)", GroupedRecord(a.name, [GroupedRecord(a.name + "_inner", list(b.records[:1]))] + list(b.records[1:]))))
        if len(b.records) > 1:
            structural.append(("members reversed", GroupedRecord(a.name, list(reversed(b.records)))))
            structural.append(("nested group of all but the first", GroupedRecord(a.name, [b.records[0], GroupedRecord(a.name + "_in2", list(b.records[1:]))])))
    except Exception as e:  # noqa: BLE001
        ctx.violation(None, "a structural variant of a grouped record could not be built", detail={"case": case, "exception": repr(e)[:300]})
    structural = [(lab, x, observe.obs(x) == oa) for lab, x in structural]
    info0 = {"case": case, "a": describe(a)}
    focus = [variations[0][1]] if variations else []
    configs = configs_for(ctx, rng, all_names, focus + ["_generated"])

    copies_equal(ctx, a, dict(info0, config="none"))
    try:
        from flow.record import RecordDescriptor as _RD

        holder = _RD("c12/copyholder", [("record", "inner"), ("record[]", "inners")])(inner=a, inners=[a.records[0], a], _generated=STAMP)
        copies_equal(ctx, holder, dict(info0, config="none", a=describe(holder)))
    except Exception as e:  # noqa: BLE001
        ctx.event("copy_holder_not_buildable")

    def body(label, ignored):
        base_info = dict(info0, ignored=sorted(ignored), config=label)
        reflexive(ctx, a, base_info)
        nan_blocks_equal = bool(nans - ignored)
        compare(ctx, a, b, None if nan_blocks_equal else "equal", dict(base_info, pair="rebuilt grouped copy", b=describe(b)))
        ctx.cell("pair", "grouped-rebuilt", label)
        for ftype, fname, v in variations:
            if fname in ignored:
                exp, why = (None if nan_blocks_equal else "equal"), None
            else:
                exp, why = "unequal", "member field %r (%s) differs and is not ignored" % (fname, ftype)
            compare(ctx, a, v, exp, dict(base_info, pair="variation of member field " + fname, b=describe(v), because=why))
            ctx.cell("pair", "grouped-variation:" + ("ignored" if fname in ignored else "counted"), ftype)
        compare(ctx, a, renamed, "unequal", dict(base_info, pair="same members, other group name", b=describe(renamed), because="the group names differ"))
        if swapped is not None:
            # member order is part of a grouped record's descriptor (field order / precedence): left open when everything is ignored
            compare(ctx, a, swapped, None, dict(base_info, pair="members swapped", b=describe(swapped)))
        if fewer is not None:
            compare(ctx, a, fewer, "unequal", dict(base_info, pair="one member fewer", b=describe(fewer), because="a member record is missing"))
        if label in ("none", "_generated"):
            # the canonical observation decides: the same members in the same order => equal; another member count / order => unequal
            for lab, x, same_obs in structural:
                exp = (None if nan_blocks_equal else "equal") if same_obs else "unequal"
                compare(ctx, a, x, exp, dict(base_info, pair="structural variant: " + lab, b=describe(x), key="grouped-structure-ignored-by-equality",
                                             because="the groups differ in their members (%s)" % lab))
                ctx.event("grouped_structural_pairs")
                ctx.cell("pair", "grouped-structure", lab)
        for m in a.records:
            compare(ctx, a, m, "unequal", dict(base_info, pair="grouped vs its plain member", b=describe(m), because="one is a grouped record of another descriptor"))
        for x in NONRECORDS[:6]:
            compare(ctx, a, x, "unequal", dict(base_info, pair="non-record", b=describe(x), because="the other operand is not a record"))
        ctx.cell("pair", "grouped-others", label)

    run_under_configs(ctx, rng, configs, body)
    ctx.nontrivial("grouped", case["s"])
    ctx.sample({"case": case, "record": describe(a), "variations": [f for _, f, _ in variations]}, kind="grouped")


def run_borderline(ctx, case):
    """value pairs whose equality the statement leaves open: contract checks only"""
    from flow.record import RecordDescriptor
    from flow.record.fieldtypes import path as fpath

    rng = random.Random(case["s"])
    nan1, nan2 = float("nan"), gen._f("7ff80000deadbeef")
    z = gen._zone("Europe/Amsterdam")
    inst = _dt.datetime(2020, 6, 1, 12, 0, 0, tzinfo=_dt.timezone.utc)
    pairs = [
        ("float", nan1, nan1), ("float", nan1, nan2), ("float", 0.0, -0.0), ("float[]", [nan1], [nan1]), ("float[]", [0.0], [-0.0]),
        ("dynamic", 1, True), ("dynamic", 0, False), ("dynamic", "x", b"x"), ("varint", 1, True),
        ("path", fpath.from_posix("a/b"), fpath.from_posix("a//b")), ("path", fpath.from_posix("a/b"), fpath.from_windows("a/b")), ("path", fpath.from_posix(""), fpath.from_posix(".")),
        ("path", fpath.from_windows("C:\\X"), fpath.from_windows("c:\\x")),
        ("datetime", inst, inst.astimezone(_dt.timezone(_dt.timedelta(hours=5, minutes=30)))), ("datetime", inst, inst.astimezone(z) if z else inst),
        ("digest", ("AA" * 16, None, None), ("aa" * 16, None, None)), ("digest", None, (None, None, None)), ("string[]", None, []), ("stringlist", None, []),
        ("string", "é", "e\u0301"), ("uri", "HTTP://X/", "http://x/"), ("command", "ls  -l", "ls -l"), ("net.ipnetwork", "10.0.0.0/8", "10.0.0.0/255.0.0.0"),
        ("boolean", True, 1), ("dictlist", [{"a": 1, "b": 2}], [{"b": 2, "a": 1}]), ("dictlist", [{"a": 1.0}], [{"a": 1}]),
    ]
    configs = [("none", set()), ("_generated", {"_generated"}), ("field", {"f"}), ("all", {"f", "_source", "_classification", "_generated", "_version"})]
    for t, x, y in pairs:
        d = RecordDescriptor("c12/borderline", [(t, "f")])
        a, b = d(f=x, _generated=STAMP), d(f=y, _generated=STAMP)
        info0 = {"case": case, "descriptor": [d.name, [[t, "f"]]], "a": describe(a), "b": describe(b), "pair": "borderline"}

        def body(label, ignored):
            info = dict(info0, ignored=sorted(ignored), config=label)
            reflexive(ctx, a, info)
            reflexive(ctx, b, info)
            exp = "equal" if "f" in ignored else None
            compare(ctx, a, b, exp, info)
            ctx.cell("pair", "borderline", t)

        run_under_configs(ctx, rng, configs, body)
    ctx.nontrivial("borderline", case["s"])


MIXED_KEYS = [1, "x", None, b"k", "k", (1, 2), 2.5, -7, "", ("a", None), b"", 10**30, "1"]


def _reorder(value, rng):
    """the same value with the items of every dict (at any depth) inserted in another order"""
    if isinstance(value, dict):
        items = [(k, _reorder(v, rng)) for k, v in value.items()]
        if len(items) > 1:
            first = items[:]
            for _ in range(5):
                rng.shuffle(items)
                if [k for k, _ in items] != [k for k, _ in first]:
                    break
            else:
                items.reverse()
        return dict(items)
    if isinstance(value, list):
        return [_reorder(v, rng) for v in value]
    return value


def _mixed_dict(rng, depth=0, maxdepth=2):
    keys = rng.sample(MIXED_KEYS, rng.randint(2, 5))
    if len({type(k) for k in keys}) < 2:
        keys[0] = 1 if not isinstance(keys[0], int) else "x"
        keys = list(dict.fromkeys(keys))
        if len(keys) < 2:
            keys = [1, "x"]
    d = {}
    for k in keys:
        r = rng.random()
        if depth < maxdepth and r < 0.2:
            d[k] = _mixed_dict(rng, depth + 1, maxdepth)
        elif depth < maxdepth and r < 0.4:
            d[k] = [_mixed_dict(rng, depth + 1, maxdepth) for _ in range(rng.randint(1, 2))] + [rng.choice([1, "s", None])]
        else:
            d[k] = rng.choice([1, "s", None, 2.5, True, b"v", "\udcff"])
    return d


def run_dictorder(ctx, case):
    """dictlist values whose dicts have keys of mixed, mutually unorderable types (int / str / None / bytes / tuple), also nested
    inside lists and dicts of the dict values, populated in different insertion orders in two otherwise identical records; plain,
    held by a nested record field, and as members of grouped records.  Dict equality ignores insertion order, so the records are
    equal: equal hashes and set / dict membership are demanded."""
    from flow.record import GroupedRecord, RecordDescriptor

    rng = random.Random(case["s"])
    d = RecordDescriptor("c12/dictorder", [("dictlist", "f"), ("string", "s"), ("dictlist", "g")])
    md = case.get("depth", 2)
    fa = [_mixed_dict(rng, 0, md) for _ in range(rng.randint(1, 3))]
    ga = [_mixed_dict(rng, 0, md)] if rng.random() < 0.5 else None
    fb, gb = _reorder(fa, rng), _reorder(ga, rng) if ga is not None else None
    if fa != fb or repr(fa) == repr(fb):
        ctx.event("dictorder_generator_selfcheck_failed")
        return
    a, b = d(f=fa, s="x", g=ga, _generated=STAMP), d(f=fb, s="x", g=gb, _generated=STAMP)
    holder = RecordDescriptor("c12/dictorder_holder", [("record", "inner"), ("record[]", "inners")])
    other = RecordDescriptor("c12/dictorder_other", [("varint", "n")])
    pairs = [("plain", a, b),
             ("nested", holder(inner=a, inners=[a], _generated=STAMP), holder(inner=b, inners=[b], _generated=STAMP)),
             ("grouped", GroupedRecord("c12/dictgroup", [a, other(n=1, _generated=STAMP)]), GroupedRecord("c12/dictgroup", [b, other(n=1, _generated=STAMP)]))]
    configs = [("none", set()), ("_generated", {"_generated"}), ("field", {"s"})]
    for shape, x, y in pairs:
        info0 = {"case": case, "a": describe(x), "b": describe(y), "pair": "dict insertion order (%s)" % shape}

        def body(label, ignored):
            info = dict(info0, ignored=sorted(ignored), config=label)
            reflexive(ctx, x, info)
            before = ctx.events.get("hash_consistency_checked", 0)
            compare(ctx, x, y, "equal", info)
            ctx.event("dictorder_hash_checked", ctx.events.get("hash_consistency_checked", 0) - before)
            ctx.cell("pair", "dictorder", shape)

        run_under_configs(ctx, rng, configs, body)
    ctx.nontrivial("dictorder", case["s"])
    ctx.sample({"case": case, "a": describe(a), "b": describe(b)}, kind="dictorder")


# ---- hash / == coherence across mutation ----------------------------------------------------------------
def _mut_descs():
    from flow.record import RecordDescriptor

    m = RecordDescriptor("c12/mut_member", [("string", "s"), ("varint", "n"), ("string[]", "tags"), ("digest", "d"), ("uint16[]", "ports"), ("command", "c")])
    o = RecordDescriptor("c12/mut_other", [("uint16", "p")])
    h = RecordDescriptor("c12/mut_holder", [("record", "inner"), ("record[]", "inners"), ("string", "hs")])
    return m, o, h


def _mut_member(ms):
    m, _, _ = _mut_descs()
    from flow.record.fieldtypes import command as fcommand

    dg = (ms["md5"], ms.get("sha1"), None) if (ms["md5"] or ms.get("sha1")) else None
    return m(s=ms["s"], n=ms["n"], tags=list(ms["tags"]), d=dg, ports=list(ms["ports"]), c=fcommand.from_posix(" ".join(["/bin/tool"] + ms["args"])), _generated=STAMP)


def mut_build(shape, st):
    """fresh objects for model state `st` (plain data); every call is independent of every other"""
    from flow.record import GroupedRecord

    _, o, h = _mut_descs()
    if shape == "plain":
        return _mut_member(st["m"])
    if shape == "grouped":
        return GroupedRecord("c12/mutgroup", [_mut_member(st["m"]), o(p=st["p"], _generated=STAMP)])
    return h(inner=_mut_member(st["m"]), inners=[_mut_member(x) for x in st["extra"]], hs=st["hs"], _generated=STAMP)


def mut_member_ref(shape, x):
    return x if shape == "plain" else (x.records[0] if shape == "grouped" else x.inner)


def _mut_state(rng):
    def ms():
        return {"s": gen._rand_text(rng), "n": rng.randint(-5, 10**6), "tags": [gen._rand_text(rng, 3) for _ in range(rng.randint(0, 3))],
                "md5": gen._hex(rng, 16) if rng.random() < 0.6 else None, "sha1": gen._hex(rng, 20) if rng.random() < 0.4 else None,
                "ports": [rng.randrange(65536) for _ in range(rng.randint(0, 3))], "args": ["a%d" % rng.randrange(100) for _ in range(rng.randint(0, 2))]}

    return {"m": ms(), "p": rng.randrange(65535), "hs": gen._rand_text(rng), "extra": [ms() for _ in range(rng.randint(0, 2))]}


def mut_apply(shape, x, st, rng):
    """One modification of the live object `x` and of the model state.  -> (label, new state)"""
    import copy

    new = copy.deepcopy(st)
    m = mut_member_ref(shape, x)
    kinds = ["member_assign_s", "member_assign_n", "list_append", "list_extend", "digest_attr", "member_assign_list", "digest_sha1", "cmd_args_append", "digest_same"]
    if st["m"]["md5"] or st["m"]["sha1"]:
        kinds += ["digest_clear"] * 3
    if st["m"]["tags"]:
        kinds += ["list_pop", "list_clear"]
    if len(set(st["m"]["ports"])) > 1 and st["m"]["ports"] != st["m"]["ports"][::-1]:
        kinds += ["list_reverse"] * 2
    if shape == "grouped":
        kinds += ["view_assign_s", "view_assign_n", "view_assign_list", "other_member_assign", "view_assign_other"] * 2
    if shape == "holder":
        kinds += ["holder_assign", "holder_list_append"] + (["holder_elem_assign", "holder_elem_list_append"] if st["extra"] else [])
    k = rng.choice(kinds)
    if k in ("member_assign_s", "view_assign_s"):
        new["m"]["s"] = st["m"]["s"] + "~" + str(rng.randrange(10))
        setattr(x if k.startswith("view") else m, "s", new["m"]["s"])
    elif k in ("member_assign_n", "view_assign_n"):
        new["m"]["n"] = st["m"]["n"] + rng.randint(1, 9)
        setattr(x if k.startswith("view") else m, "n", new["m"]["n"])
    elif k in ("member_assign_list", "view_assign_list"):
        new["m"]["tags"] = st["m"]["tags"] + ["new" + str(rng.randrange(100))]
        setattr(x if k.startswith("view") else m, "tags", list(new["m"]["tags"]))
    elif k == "list_append":
        t = "app" + str(rng.randrange(100))
        new["m"]["tags"].append(t)
        m.tags.append(type(m.tags).__type__(t))
    elif k == "list_extend":
        ps = [rng.randrange(65536) for _ in range(rng.randint(1, 2))]
        new["m"]["ports"] += ps
        m.ports.extend([type(m.ports).__type__(p) for p in ps])
    elif k == "digest_attr":
        v = gen._hex(rng, 16)
        while v == st["m"]["md5"]:
            v = gen._hex(rng, 16)
        new["m"]["md5"] = v
        m.d.md5 = v
    elif k == "digest_sha1":
        v = gen._hex(rng, 20)
        new["m"]["sha1"] = v
        m.d.sha1 = v
    elif k == "digest_clear":
        which = rng.choice([w for w in ("md5", "sha1") if st["m"][w]])
        new["m"][which] = None
        setattr(m.d, which, None)
    elif k == "digest_same":
        which = rng.choice(["md5", "sha1"])
        setattr(m.d, which, st["m"][which])  # the value it already holds (possibly None): the state does not change
    elif k == "list_pop":
        new["m"]["tags"].pop()
        m.tags.pop()
    elif k == "list_clear":
        new["m"]["tags"] = []
        m.tags.clear()
    elif k == "list_reverse":
        new["m"]["ports"].reverse()
        m.ports.reverse()
    elif k == "cmd_args_append":
        arg = "x%d" % rng.randrange(100)
        new["m"]["args"].append(arg)
        m.c.args.append(arg)
    elif k in ("other_member_assign", "view_assign_other"):
        new["p"] = (st["p"] + 1) % 65536
        setattr(x if k.startswith("view") else x.records[1], "p", new["p"])
    elif k == "holder_assign":
        new["hs"] = st["hs"] + "~"
        x.hs = new["hs"]
    elif k == "holder_list_append":
        ms = dict(st["m"], s=st["m"]["s"] + "+", tags=list(st["m"]["tags"]), ports=list(st["m"]["ports"]), args=list(st["m"]["args"]))
        new["extra"].append(ms)
        x.inners.append(_mut_member(ms))
    elif k == "holder_elem_assign":
        new["extra"][0]["n"] += 1
        x.inners[0].n = new["extra"][0]["n"]
    elif k == "holder_elem_list_append":
        new["extra"][0]["tags"].append("e")
        x.inners[0].tags.append(type(x.inners[0].tags).__type__("e"))
    return k, new


def run_mutate(ctx, case):
    """hash a record, modify it (through the grouped view, through a member's own reference, in place through a held list /
    digest value, through nested records), then compare with independently rebuilt copies: equal, equal hash and found in a
    set / dict built from the copy of the NEW state; unequal to the copy of the OLD state."""
    import flow.record.base as base

    rng = random.Random(case["s"])
    shape = case["shape"]
    st = _mut_state(rng)
    x = mut_build(shape, st)
    info0 = {"case": case}
    for rnd in range(rng.randint(1, case.get("rounds", 4))):
        y_old = mut_build(shape, st)
        # the hash (and everything a cache could hold on to) is taken BEFORE the modification
        compare(ctx, x, y_old, "equal", dict(info0, pair="before modification %d" % rnd, a=describe(x), b=describe(y_old), config="none"))
        k, st2 = mut_apply(shape, x, st, rng)
        y_new = mut_build(shape, st2)
        unchanged = st2 == st
        if observe.obs(x) != observe.obs(y_new) or ((observe.obs(x) == observe.obs(y_old)) != unchanged):
            ctx.event("mutate_model_selfcheck_failed")
            ctx.note("mutate_model_selfcheck_example", [k, observe.first_diff(observe.obs(x), observe.obs(y_new))])
            return
        ctx.event("mutations:" + k)
        ctx.cell("mutate", shape, k)
        info = dict(info0, modification=k, a=describe(x), round=rnd)

        def both(label):
            compare(ctx, x, y_new, "equal", dict(info, pair="modified record vs rebuilt copy of the new state", b=describe(y_new), config=label, key=KEY_STALE_HASH))
            compare(ctx, x, y_old, "equal" if unchanged else "unequal",
                    dict(info, pair="modified record vs rebuilt copy of the old state", b=describe(y_old), config=label, key=KEY_STALE_HASH,
                         because="the record was modified (%s) after the copy's state" % k))
            ctx.event("mutate_pairs_checked")

        both("none")
        Config(ctx, {"_generated"}, "scope", rng.choice(CONTAINERS), inject=rng.random() < 0.5).run(lambda: both("_generated"))
        st = st2
    ctx.nontrivial("mutate", shape, case["s"])
    ctx.sample({"case": case, "final": describe(x)}, kind="mutate:" + shape)


def run_rawlist(ctx, case):
    """A T[] field is filled IN PLACE with plain, untyped values (append / extend / insert / item and slice assignment on the typed
    list): the library converts such elements while packing, so ==, !=, hash and set / dict membership must not raise and the live
    record must equal, and hash like, a record REBUILT from the same values (the constructor converts them), and differ from a
    rebuilt copy of the state before.  Plain record, nested in a holder's record / record[] field, and as a grouped member."""
    from flow.record import GroupedRecord, RecordDescriptor

    rng = random.Random(case["s"])
    t = case["t"]
    raws = RAW_LIST_ELEMENTS[t]
    d = RecordDescriptor("c12/rawlist", [(t + "[]", "items"), ("string", "s")])
    o = RecordDescriptor("c12/rawlist_other", [("varint", "n")])
    h = RecordDescriptor("c12/rawlist_holder", [("record", "inner"), ("record[]", "inners")])
    shape = rng.choice(["plain", "grouped", "holder", "holder-list"])

    def build(values):
        r = d(items=list(values), s="x", _generated=STAMP)
        if shape == "grouped":
            return GroupedRecord("c12/rawlistgroup", [r, o(n=1, _generated=STAMP)]), r
        if shape == "holder":
            return h(inner=r, _generated=STAMP), r
        if shape == "holder-list":
            return h(inners=[r], _generated=STAMP), r
        return r, r

    state = [rng.choice(raws) for _ in range(rng.randint(0, 2))]
    x, live = build(state)
    info0 = {"case": case, "shape": shape}
    for rnd in range(rng.randint(1, case.get("rounds", 4))):
        y_old, _ = build(state)
        compare(ctx, x, y_old, "equal", dict(info0, pair="before the in-place fill %d" % rnd, a=describe(x), b=describe(y_old), config="none", key="typed-list-raw-element-breaks-comparison"))
        new = list(state)
        raw = rng.choice(raws)
        ops = ["append", "extend", "insert"] + (["setitem", "slice"] if state else [])
        op = rng.choice(ops)
        if op == "append":
            live.items.append(raw)
            new.append(raw)
        elif op == "extend":
            more = [raw, rng.choice(raws)]
            live.items.extend(more)
            new.extend(more)
        elif op == "insert":
            i = rng.randint(0, len(state))
            live.items.insert(i, raw)
            new.insert(i, raw)
        elif op == "setitem":
            i = rng.randrange(len(state))
            live.items[i] = raw
            new[i] = raw
        else:
            live.items[0:1] = [raw, raw]
            new[0:1] = [raw, raw]
        y_new, _ = build(new)
        ctx.event("rawlist_fills:" + op)
        ctx.cell("rawlist", t, op)
        info = dict(info0, fill=op, raw=describe(raw), a=describe(x), round=rnd)
        changed = observe.obs(y_new) != observe.obs(y_old)

        def both(label):
            compare(ctx, x, y_new, "equal", dict(info, pair="record with raw list elements vs record rebuilt from the same values", b=describe(y_new), config=label,
                                                 key="typed-list-raw-element-breaks-comparison"))
            compare(ctx, x, y_old, "unequal" if changed else "equal", dict(info, pair="record with raw list elements vs rebuilt copy of the state before", b=describe(y_old), config=label,
                                                                              because="an element was put into the list in place (%s)" % op))
            reflexive(ctx, x, dict(info, config=label))
            ctx.event("rawlist_pairs_checked")

        both("none")
        Config(ctx, {"_generated"}, "scope", rng.choice(CONTAINERS), inject=rng.random() < 0.5, rng=rng).run(lambda: both("_generated"))
        state = new
    ctx.nontrivial("rawlist", t, shape, case["s"])
    ctx.sample({"case": case, "shape": shape, "final": describe(x)}, kind="rawlist:" + shape)


# ---- FLOW_RECORD_IGNORE: one worker process per environment ----------------------------------------------
def env_script(rng):
    """operations for verif/worker_c12.py; see there"""
    def cont():
        return rng.choice(CONTAINERS)

    def flag():
        return rng.random() < 0.5

    ops = [["probe", "initial (environment default in force)"]]
    blocks = []
    blocks.append([["enter", cont(), [], flag()], ["probe", "inside an explicitly empty scope"], ["exit"], ["probe", "after the explicitly empty scope"]])
    inner = rng.choice([[], ["n"], ["_source"], ["username"], ["EventID", "Field9"]])
    blocks.append([["enter", cont(), ["s"], flag()], ["probe", "inside scope {s}"], ["enter", cont(), inner, flag()], ["probe", "inside nested scope %s" % inner], ["exit"],
                   ["probe", "after the nested scope"], ["exit"], ["probe", "after scope {s}"]])
    rng.shuffle(blocks)
    for b in blocks:
        ops += b
    blocks = []
    blocks.append([["set", rng.choice(["list", "set", "tuple", "generator", "frozenset", "dict"]), []], ["probe", "after set_ignored_fields_for_comparison(<empty>)"],
                   ["enter", cont(), ["n"], flag()], ["probe", "inside scope {n} over an explicitly empty configuration"], ["exit"],
                   ["probe", "after scope {n}: explicitly empty configuration restored"]])
    sub = rng.choice([["_generated"], ["_source", "s"], ["n", "_generated"], ["userName"], ["eventid", "Field9", "_classification"]])
    blocks.append([["set", cont(), sub], ["probe", "after set_ignored_fields_for_comparison(%s)" % sub], ["enter", cont(), [], flag()],
                   ["probe", "inside an explicitly empty scope over %s" % sub], ["exit"], ["probe", "after the explicitly empty scope: %s restored" % sub]])
    rng.shuffle(blocks)
    for b in blocks:
        ops += b
    ops += [["set", cont(), []], ["probe", "final explicit empty configuration"]]
    return ops


def env_model(script, default):
    cur, stack, out = set(default), [], []
    for op in script:
        if op[0] == "probe":
            out.append(set(cur))
        elif op[0] == "set":
            cur = set(op[2])
        elif op[0] == "enter":
            stack.append(cur)
            cur = set(op[2])
        elif op[0] == "exit":
            cur = stack.pop()
    return out


def run_envignore(ctx, case):
    rng = random.Random(case["s"])
    value = case["value"] if "value" in case else ENV_IGNORE[case["env"]]
    default = parse_env_ignore(value)
    script = env_script(rng)
    expected = env_model(script, default)
    info = {"case": case, "FLOW_RECORD_IGNORE": value, "script": script}

    def worker(env_value, the_script):
        env = dict(os.environ)
        env.pop("FLOW_RECORD_IGNORE", None)
        if env_value is not None:
            env["FLOW_RECORD_IGNORE"] = env_value
        pp = env.get("PYTHONPATH", "")
        if VERIF_DIR not in pp.split(os.pathsep):
            env["PYTHONPATH"] = VERIF_DIR + (os.pathsep + pp if pp else "")
        env.setdefault("PYTHONHASHSEED", "0")
        try:
            p = subprocess.run([sys.executable, "-W", "ignore", "-m", "verif.worker_c12"], input=json.dumps(the_script), env=env, cwd=VERIF_DIR, capture_output=True, text=True,
                               timeout=WORKER_TIMEOUT_S)
        except subprocess.TimeoutExpired:
            ctx.require(False, "a C12 environment worker exceeded its %d s watchdog" % WORKER_TIMEOUT_S)
            return None
        ctx.event("env_workers_run")
        line = next((ln for ln in p.stdout.splitlines() if ln.startswith("C12WORKER ")), None)
        if p.returncode != 0 or line is None:
            ctx.violation(None, "worker under FLOW_RECORD_IGNORE=%r failed (exit %s)" % (env_value, p.returncode), detail=dict(info, stderr=p.stderr[-2500:], stdout=p.stdout[-300:]))
            return None
        res = json.loads(line[len("C12WORKER "):])
        if res["env"] != env_value:
            ctx.require(False, "environment was not propagated to a C12 worker: wanted %r got %r" % (env_value, res["env"]))
            return None
        repo = os.path.realpath(os.environ.get("VERIF_REPO", "/repo"))
        ctx.require(os.path.realpath(res["flow_record_file"]).startswith(repo + os.sep), "C12 worker imported flow.record from %s, not from %s" % (res["flow_record_file"], repo))
        return res

    out = worker(value, script)
    if out is None:
        return
    if value:
        # the same set configured through the API in a process started without the variable must behave identically
        api = worker(None, [["set", rng.choice(["list", "set", "tuple"]), sorted(default)], ["probe", "configured through the API"]])
        if api is not None and not api["error"] and len(api["probes"]) == 1 and out["probes"]:
            ctx.event("env_vs_api_compared")
            a0, b0 = out["probes"][0], api["probes"][0]
            diff = [k for k in ("config", "eq", "ne", "hash_eq", "same_eq", "same_hash_eq") if a0[k] != b0[k]]
            if diff:
                ctx.violation("environment-ignore-list-not-taken-literally", "FLOW_RECORD_IGNORE=%r does not behave like the same names configured through the API" % value,
                              detail=dict(info, differs=diff, environment={k: a0[k] for k in diff}, api={k: b0[k] for k in diff}, names=sorted(default)))
    if out["error"] or len(out["probes"]) != len(expected):
        ctx.violation(None, "the ignore-configuration script raised under FLOW_RECORD_IGNORE=%r" % value, detail=dict(info, error=out["error"], probes=len(out["probes"])))
        return
    for pr, exp in zip(out["probes"], expected):
        ctx.ev()
        ctx.event("env_probes_checked")
        ctx.cell("env", repr(value), "expected-empty" if not exp else "expected-nonempty")
        ctx.nontrivial("envignore", value, pr["label"], case["s"])
        d = dict(info, where=pr["label"], expected_ignored=sorted(exp), observed_configuration=pr["config"], eq=pr["eq"], hash_eq=pr["hash_eq"])
        key = "environment-ignore-list-not-taken-literally" if "initial" in pr["label"] else None
        if not exp and default and pr["config"] is not None and set(pr["config"]) == default and "initial" not in pr["label"]:
            key = KEY_ENV_EMPTY
        if pr["config"] is None:
            ctx.state["has_global"] = False
        elif set(pr["config"]) != exp:
            ctx.violation(key, "the ignored-fields configuration in force is not the one the explicit calls / scopes define", detail=d)
            continue
        bad = [f for f in pr["eq"] if pr["eq"][f] is not (f in exp) or pr["ne"][f] is not (f not in exp) or (f in exp and pr["hash_eq"][f] is not True)]
        if bad or pr["same_eq"] is not True or pr["same_hash_eq"] is not True:
            ctx.violation(key, "comparisons do not follow the ignored-fields configuration in force", detail=dict(d, fields=bad, same=[pr["same_eq"], pr["same_hash_eq"]]))
    ctx.sample({"case": case, "FLOW_RECORD_IGNORE": value, "probes": [[pr["label"], pr["config"]] for pr in out["probes"][:6]]}, kind="envignore:" + repr(value))


# ---- equality must not depend on the identity of the generated record class -----------------------------------
def run_classcache(ctx, case):
    """The generated record classes live in an lru_cache: after more descriptors than it holds were created, an equal descriptor
    (created directly, or by reading a record back from a stream) gets a NEW class.  Records of the old and of the new class
    with the same descriptor and values must be equal and hash equal, and unequal when a value differs; also as grouped members."""
    import io

    import flow.record.base as base
    from flow.record import GroupedRecord, RecordDescriptor, RecordStreamReader, RecordStreamWriter

    rng = random.Random(case["s"])
    tag = gen.rand_ident(rng)
    fields = [("string", "s"), ("varint", "n"), ("string[]", "tags"), ("net.ipaddress", "ip")]
    name, oname = "c12/cache_" + tag, "c12/cacheother_" + tag

    def build():
        d, o = RecordDescriptor(name, list(fields)), RecordDescriptor(oname, [("uint16", "p")])
        r = d(s="v", n=7, tags=["a", "b"], ip="10.1.2.3", _generated=STAMP, _source="src")
        return d, r, GroupedRecord("c12/cachegroup_" + tag, [d(s="g", n=1, tags=[], ip="::1", _generated=STAMP), o(p=5, _generated=STAMP)])

    d_old, old, g_old = build()
    buf = io.BytesIO()
    w = RecordStreamWriter(buf)
    w.write(old)
    w.write(g_old)
    w.flush()
    data = buf.getvalue()
    w.fp = None
    try:
        maxsize = base._generate_record_class.cache_info().maxsize or 4096
    except Exception:  # noqa: BLE001
        maxsize = 4096
    n = min(maxsize, 20000) + 150
    for i in range(n):
        RecordDescriptor("c12/evict_%s_%d" % (tag, i), [("string", "f")])
    ctx.event("classcache_descriptors_created", n)
    read = list(RecordStreamReader(io.BytesIO(data)))  # descriptors arrive from the stream: classes are generated anew
    d_new, new, g_new = build()
    evicted = type(new) is not type(old)
    ctx.event("classcache_new_class_for_equal_descriptor" if evicted else "classcache_class_still_cached")
    ctx.state["classcache_evicted"] = ctx.state.get("classcache_evicted", False) or evicted
    ctx.state["classcache_ran"] = True
    varied = d_new(s="v", n=8, tags=["a", "b"], ip="10.1.2.3", _generated=STAMP, _source="src")
    g_varied = GroupedRecord(g_new.name, [g_new.records[0]._replace(n=2), g_new.records[1]])
    info = {"case": case, "descriptor": [name, fields], "new_class_for_equal_descriptor": evicted, "key": KEY_CLASS_IDENTITY}
    pairs = [("old vs rebuilt after the class cache overflowed", old, new, "equal"), ("old vs varied rebuilt", old, varied, "unequal"),
             ("grouped old vs rebuilt", g_old, g_new, "equal"), ("grouped old vs varied rebuilt", g_old, g_varied, "unequal")]
    if len(read) == 2:
        pairs += [("old vs read back from a stream", old, read[0], "equal"), ("rebuilt vs read back", new, read[0], "equal"),
                  ("grouped old vs read back", g_old, read[1], "equal"), ("varied vs read back", varied, read[0], "unequal")]
    else:
        ctx.violation(None, "stream read back %d records instead of 2" % len(read), detail=info)
    for label, a, b, exp in pairs:
        for cfg in ("none", "_generated"):
            def one():
                compare(ctx, a, b, exp, dict(info, pair=label, a=describe(a), b=describe(b), config=cfg, classes_identical=type(a) is type(b),
                                             because="a field value differs" if exp == "unequal" else None))
            if cfg == "none":
                one()
            else:
                Config(ctx, {"_generated"}, "scope", "set").run(one)
            ctx.cell("classcache", label)
    ctx.nontrivial("classcache", case["s"])
    ctx.sample({"case": case, "descriptors_created": n, "new_class": evicted}, kind="classcache")


# ---- range-edge values: ==, !=, hash, set / dict must never raise and obey the contract ---------------------------------
def edge_values(t):
    """values at the edge of what the type can hold (built lazily: some need the library)"""
    tz = lambda h, m=0: _dt.timezone(_dt.timedelta(hours=h, minutes=m))  # noqa: E731
    if t == "datetime":
        return [_dt.datetime.min, _dt.datetime.max, _dt.datetime(1, 1, 1, 0, 30, tzinfo=tz(2)), _dt.datetime(1, 1, 1, 0, 0, tzinfo=tz(14)), _dt.datetime(1, 1, 1, 23, 59, 59, tzinfo=tz(23, 59)),
                _dt.datetime(9999, 12, 31, 23, 30, tzinfo=tz(-5)), _dt.datetime(9999, 12, 31, 23, 59, 59, 999999, tzinfo=tz(-12)), _dt.datetime(9999, 12, 31, 0, 0, 1, tzinfo=tz(-23, -59)),
                "0001-01-01T00:30:00+02:00", "9999-12-31T23:30:00-05:00", _dt.datetime(1, 1, 1, tzinfo=_dt.timezone.utc), _dt.datetime(9999, 12, 31, 23, 59, 59, 999999, tzinfo=_dt.timezone.utc),
                0, _dt.datetime(1970, 1, 1, tzinfo=tz(0)), None]
    if t in ("varint", "filesize", "unix_file_mode"):
        return [0, -1, 2**63 - 1, 2**63, -(2**63), -(2**63) - 1, 2**64, 2**200, -(2**200), 10**40, None]
    if t == "float":
        return [float("nan"), gen._f("7ff80000deadbeef"), float("inf"), float("-inf"), 0.0, -0.0, 5e-324, -5e-324, 2.2250738585072014e-308, 1.7976931348623157e308, None]
    if t in ("string", "wstring"):
        return ["", None, "x" * 65536, "\u00e9" * 65535, "\udc80\udcff", "e\u0301", "\u00e9", "\x00", "\U0010ffff", "a\x00b"]
    if t == "uri":
        return ["", None, "http://x/" + "a" * 65536, "x\udcffy", "http://e\u0301.example/"]
    if t == "bytes":
        return [b"", None, b"\x00" * 65536, b"\xff", bytes(range(256))]
    if t == "net.ipaddress":
        return ["0.0.0.0", "::", "255.255.255.255", "ffff:ffff:ffff:ffff:ffff:ffff:ffff:ffff", 0, 2**32 - 1, 2**32, 2**128 - 1, None]
    if t == "net.ipnetwork":
        return ["0.0.0.0/0", "::/0", "255.255.255.255/32", "::/128", "ffff:ffff:ffff:ffff:ffff:ffff:ffff:ffff/128", "0.0.0.0/32", None]
    if t == "path":
        from flow.record.fieldtypes import path as fpath

        return ["", ".", "/", fpath.from_windows(""), fpath.from_windows("c:"), fpath.from_posix("/" + "d/" * 2000), None]
    if t == "command":
        return ["x", "c:\\x.exe", "x " + "a " * 3000, None]
    if t == "digest":
        return [None, (None, None, None), {}, ("00" * 16, "00" * 20, "00" * 32), ("ff" * 16, None, None), (None, None, "FF" * 32)]
    if t == "uint16":
        return [0, 65535, None]
    if t == "uint32":
        return [0, 2**32 - 1, None]
    if t == "boolean":
        return [False, True, 0, 1, None]
    if t == "stringlist":
        return [None, [], [""], ["x" * 65536], ["a"] * 65536]
    if t == "dictlist":
        return [None, [], [{}], [{"k": 2**200}], [{"k": float("nan")}]]
    if t == "dynamic":
        return [None, "", b"", 0, False, 2**200, [], _dt.datetime(1, 1, 1, 0, 30, tzinfo=tz(2))]
    raise KeyError(t)


def run_edges(ctx, case):
    """Every edge value of a type in a scalar field, as the only element of a T[] field, and (datetimes) as _generated: two
    independent builds must be equal with equal hashes (NaN aside), and ==, !=, hash, set and dict operations between records
    holding different edge values must never raise, be symmetric and hash-consistent."""
    from flow.record import RecordDescriptor

    t, form = case["t"], case["form"]
    if form == "list" and t in ("stringlist", "dictlist", "dynamic"):
        return
    if form == "generated" and t != "datetime":
        return
    ftype = t + "[]" if form == "list" else t
    fields = [("string", "f")] if form == "generated" else [(ftype, "f")]

    def build(v):
        d = RecordDescriptor("c12/edge", fields + [("string", "s")])
        if form == "generated":
            return d(f="x", s="s", _generated=v if v is not None else STAMP)
        return d(f=([v] if v is not None else []) if form == "list" else v, s="s", _generated=STAMP)

    recs = []
    for v in edge_values(t):
        try:
            a, b = build(v), build(v)
        except Exception as e:  # noqa: BLE001 - whether an edge value is accepted is C05's subject
            ctx.event("edge_value_not_accepted")
            ctx.note("edge_value_not_accepted:%s/%s" % (ftype, form), repr(e)[:100])
            continue
        oa, ob = observe.obs(a), observe.obs(b)
        info = {"case": case, "value": describe(v), "a": describe(a), "config": "none"}
        ctx.cell("edges", ftype if form != "generated" else "_generated", "value")
        reflexive(ctx, a, info)
        if oa == ob:
            compare(ctx, a, b, None if has_nan(oa) else "equal", dict(info, pair="edge value vs rebuilt copy", b=describe(b)))
            ctx.event("edge_rebuilt_compared")
        recs.append(a)
    for i in range(len(recs)):
        for j in range(i + 1, len(recs)):
            compare(ctx, recs[i], recs[j], None, {"case": case, "pair": "two edge values", "a": describe(recs[i]), "b": describe(recs[j]), "config": "none"})
            ctx.event("edge_pairs_compared")
    try:
        distinct = len(set(recs))
        lookup = {r: i for i, r in enumerate(recs)}
        ctx.event("edge_set_built")
        if not 1 <= distinct <= len(recs) or len(lookup) != distinct:
            ctx.violation(None, "a set / dict of records holding edge values is inconsistent", detail={"case": case, "records": len(recs), "set": distinct, "dict": len(lookup)})
    except Exception as e:  # noqa: BLE001
        ctx.violation(None, "building a set / dict of records holding edge values raised %s" % type(e).__name__, detail={"case": case, "exception": repr(e)[:300]})
    Config(ctx, {"s"}, "scope", "set").run(lambda: [reflexive(ctx, r, {"case": case, "config": "s", "a": describe(r)}) for r in recs])
    ctx.nontrivial("edges", t, form)


# ---- representation variants of the same logical input ----------------------------------------------------------------
def variant_pairs():
    import ipaddress
    import pathlib

    from flow.record.fieldtypes import path as fpath

    utc = _dt.timezone.utc
    bsub = type("BytesSub", (bytes,), {})
    return [
        ("string", "abc", b"abc"), ("string", "R\u00e9my", "R\u00e9my".encode()), ("wstring", "", b""), ("varint", 5, 5.0), ("varint", 1, True), ("varint", 5, "5"), ("float", 1, 1.0),
        ("float", "1.5", 1.5), ("boolean", 1, True), ("boolean", 0, False), ("datetime", _dt.datetime(2020, 1, 2, 3, 4, 5), _dt.datetime(2020, 1, 2, 3, 4, 5, tzinfo=utc)),
        ("datetime", "2020-01-02T03:04:05", _dt.datetime(2020, 1, 2, 3, 4, 5)), ("datetime", 0, _dt.datetime(1970, 1, 1)), ("datetime", "2020-01-02T03:04:05Z", "2020-01-02T03:04:05+00:00"),
        ("datetime", b"2020-01-02T03:04:05Z", "2020-01-02T03:04:05Z"), ("path", "/a/b", pathlib.PurePosixPath("/a/b")), ("path", "/a/b", fpath.from_posix("/a/b")),
        ("path", "c:\\x", pathlib.PureWindowsPath("c:\\x")) if False else ("path", "a//b", "a/b"), ("net.ipaddress", "1.2.3.4", ipaddress.IPv4Address("1.2.3.4")),
        ("net.ipaddress", "1.2.3.4", 16909060), ("net.ipaddress", "1.2.3.4", b"\x01\x02\x03\x04"), ("net.ipaddress", "::1", ipaddress.ip_address("::1")),
        ("net.ipaddress", "0:0:0:0:0:0:0:1", "::1"), ("net.ipnetwork", "10.0.0.0/8", ipaddress.ip_network("10.0.0.0/8")), ("net.ipnetwork", "10.0.0.0/255.0.0.0", "10.0.0.0/8"),
        ("digest", ("aa" * 16, None, None), {"md5": "aa" * 16}), ("digest", ("aa" * 16, None, None), ["aa" * 16, None, None]), ("digest", ("AA" * 16, None, None), ("aa" * 16, None, None)),
        ("uri", "http://x/", b"http://x/"), ("bytes", b"ab", bsub(b"ab")), ("string[]", ["a", "b"], ("a", "b")), ("string[]", [b"a"], ["a"]), ("varint[]", [1, 2], (1.0, True + 1)),
        ("datetime[]", [_dt.datetime(2020, 1, 2)], ["2020-01-02T00:00:00Z"]),
    ]


def run_variants(ctx, case):
    """Two representations of the SAME logical input (str / bytes names and values, int / equal float, naive / UTC timestamp, text /
    object forms of paths and addresses, tuple / dict / list digests, list / tuple lists ...): the records must have the same
    observation, be equal, hash equal and collapse in sets / dicts."""
    from flow.record import GroupedRecord, RecordDescriptor

    rng = random.Random(case["s"])

    def rec(t, v, name="c12/variant", fname="f", tname=None, source="src"):
        d = RecordDescriptor(name, [(tname or t, fname), ("string", "s")])
        return d.recordType(v, "x", _generated=STAMP, _source=source)

    def judge(label, a, b):
        ctx.event("variant_pairs")
        ctx.cell("variants", label)
        info = {"case": case, "pair": "representation variants: " + label, "a": describe(a), "b": describe(b), "config": "none", "key": "representation-variants-differ"}
        oa, ob = observe.obs(a), observe.obs(b)
        if oa != ob:
            ctx.violation("representation-variants-differ", "two representations of the same input give records with different observations", detail=dict(info, diff=observe.first_diff(oa, ob)))
        compare(ctx, a, b, None if has_nan(oa) else "equal", info)

    pairs = variant_pairs()
    rng.shuffle(pairs)
    for t, x, y in pairs[: (len(pairs) if case["s"] % 2 else 18)]:
        try:
            judge("%s %s/%s" % (t, type(x).__name__, type(y).__name__), rec(t, x), rec(t, y))
        except Exception as e:  # noqa: BLE001
            ctx.violation(None, "a representation of a valid input was rejected", detail={"case": case, "type": t, "inputs": [describe(x), describe(y)], "exception": repr(e)[:200]})
    tag = gen.rand_ident(rng)
    m = rec("string", "v")
    other = RecordDescriptor("c12/variant_o", [("varint", "n")])(n=1, _generated=STAMP)
    judge("group name str/bytes", GroupedRecord("c12grp/" + tag, [m, other]), GroupedRecord(("c12grp/" + tag).encode(), [rec("string", "v"), other]))
    judge("type name str/bytes", rec("string", "v", name="c12/nm_" + tag), rec("string", "v", name=("c12/nm_" + tag).encode()))
    judge("field name str/bytes", rec("string", "v"), rec("string", "v", fname=b"f"))
    judge("field type str/bytes", rec("string", "v"), rec("string", "v", tname=b"string"))
    judge("_source str/bytes", rec("string", "v", source="s\u00e9"), rec("string", "v", source="s\u00e9".encode()))
    d1 = RecordDescriptor("c12/variant_l", [("string", "f")])
    d2 = RecordDescriptor("c12/variant_l", (("string", "f"),))
    judge("field list list/tuple", d1(f="x", _generated=STAMP), d2(f="x", _generated=STAMP))
    ctx.nontrivial("variants", case["s"])


def run_coincident(ctx, case):
    """Two different descriptors (same name, different field lists) built so that name + sum(fieldname + fieldtype) is the same
    text: their records must still be unequal.  Known mechanism: the identifier coincides."""
    from flow.record import RecordDescriptor

    rng = random.Random(case["s"])
    name = "c12/" + gen.rand_ident(rng)
    n1, n2 = gen.unique_names(rng, 2)
    shapes = [
        # (fields 1, fields 2, positional values)
        ([("stringlist", n1), ("string", n2)], [("string", n1), ("string", "list" + n2)], (None, "v")),
        ([("wstring", n1), ("varint", n2)], [("string", n1 + "w"), ("varint", n2)], ("text", 5)),
        ([("wstring", n1)], [("string", n1 + "w")], (None,)),
        ([("varint", n1), ("string", n2)], [("varint", n1), ("wstring", n2)], (1, "v")),  # control: alias type, identifier text differs
        ([("uint16", n1), ("uint32", n2)], [("uint16", n1), ("uint32", n2)], (1, 2)),  # control: the same descriptor, must be equal
    ]
    for f1, f2, vals in shapes:
        d1, d2 = RecordDescriptor(name, f1), RecordDescriptor(name, f2)
        a, b = d1(*vals, _generated=STAMP), d2(*vals, _generated=STAMP)
        same_desc = [tuple(x) for x in f1] == [tuple(x) for x in f2]
        coincide = ident_text(name, f1) == ident_text(name, f2) and not same_desc
        info = {"case": case, "descriptor": [name, f1], "b_descriptor": [name, f2], "a": describe(a), "b": describe(b), "pair": "coincident descriptors" if coincide else "control",
                "identifier_text_coincides": coincide, "because": "the descriptors differ (field lists %r vs %r)" % (f1, f2)}
        if coincide:
            info["key"] = KEY_COINCIDENT
            ctx.event("coincident_pairs")
        compare(ctx, a, b, "equal" if same_desc else "unequal", info)
        ctx.cell("pair", "coincident" if coincide else ("control-same" if same_desc else "control-different"))
    ctx.nontrivial("coincident", case["s"])


def run_ipfamily(ctx, case):
    """Addresses that differ in family or scope but share the integer: different field values, so the records must differ.
    Known mechanism: records are compared through the packed (bare integer) form."""
    import ipaddress as _ip

    from flow.record import RecordDescriptor

    rng = random.Random(case["s"])
    pairs = [("::1", "0.0.0.1"), ("::", "0.0.0.0"), ("::ffff:ffff", "255.255.255.255"), ("fe80::1%eth0", "fe80::1"), ("fe80::1%eth0", "fe80::1%eth1"), ("::0.0.1.0", "0.0.1.0"),
             ("1.2.3.4", "1.2.3.5"), ("::1", "::2")]
    for t in ("net.ipaddress", "net.ipaddress[]"):
        d = RecordDescriptor("c12/ipfamily", [(t, "ip")])
        for x, y in pairs:
            px, py = _ip.ip_address(x), _ip.ip_address(y)
            mech = int(px) == int(py) and (px.version != py.version or getattr(px, "scope_id", None) != getattr(py, "scope_id", None))
            wrap = (lambda v: [v]) if t.endswith("[]") else (lambda v: v)
            a, b = d(ip=wrap(x), _generated=STAMP), d(ip=wrap(y), _generated=STAMP)
            info = {"case": case, "descriptor": [d.name, [[t, "ip"]]], "a": describe(a), "b": describe(b), "pair": "address family / scope" if mech else "control",
                    "because": "the addresses %s and %s are different" % (x, y)}
            if mech:
                info["key"] = KEY_IPFAMILY
                ctx.event("ipfamily_pairs")
            compare(ctx, a, b, "unequal", info)
            ctx.cell("pair", "ipfamily" if mech else "ip-control", t)
    ctx.nontrivial("ipfamily", case["s"])


def run_scope(ctx, case):
    """The scoped override: configuration before / inside / after, nested scopes, exception inside, behaviour after the scope."""
    import flow.record.base as base
    from flow.record import RecordDescriptor

    rng = random.Random(case["s"])
    cont, inject, nested = case["container"], case["raise"], case["nested"]
    d = RecordDescriptor("c12/scope", [("string", "s"), ("varint", "n")])
    a = d(s="x", n=1, _generated=STAMP)
    b = d(s="x", n=2, _generated=STAMP)  # differs in n only
    c = d(s="y", n=1, _generated=STAMP)  # differs in s only
    outer_names = rng.choice([{"n"}, {"n", "_generated"}, {"n", "s"}, set(), {"zz_not_a_field"}])
    info = {"case": case, "a": describe(a), "b": describe(b), "outer": sorted(outer_names)}
    before = read_config(ctx)
    ctx.ev()

    def probe(ignored, where):
        """behavioural observation of the configuration in force"""
        compare(ctx, a, b, "equal" if "n" in ignored else "unequal", dict(info, where=where, ignored=sorted(ignored), because="field 'n' differs and is not ignored"))
        compare(ctx, a, c, "equal" if "s" in ignored else "unequal", dict(info, where=where, ignored=sorted(ignored), because="field 's' differs and is not ignored"))

    try:
        try:
            with entry(ctx, "ignore_fields_for_comparison", rng)(as_container(outer_names, cont)):
                inside = read_config(ctx)
                if inside is not None and inside != outer_names:
                    ctx.violation(None, "ignored-fields configuration inside the scope is not the one given", detail=dict(info, observed=sorted(inside)))
                probe(outer_names, "inside outer scope")
                if nested:
                    inner_names = {"s"}
                    try:
                        with entry(ctx, "ignore_fields_for_comparison", rng)(as_container(inner_names, rng.choice(CONTAINERS))):
                            probe(inner_names, "inside inner scope")
                            if inject:
                                raise _Boom()
                    except _Boom:
                        pass
                    mid = read_config(ctx)
                    ctx.event("scope_restore_checked")
                    if mid is not None and mid != outer_names:
                        ctx.violation(None, "ignored-fields configuration of the outer scope not restored after the inner scope ended%s" % (" with an error" if inject else ""),
                                      detail=dict(info, expected=sorted(outer_names), observed=sorted(mid)))
                    if mid is None or mid == outer_names:
                        probe(outer_names, "after inner scope")
                elif inject:
                    raise _Boom()
        except _Boom:
            pass
        after = read_config(ctx)
        ctx.event("scope_restore_checked")
        ctx.cell("scope", cont, "exception" if inject else "normal", "nested" if nested else "flat")
        if before is not None and after is not None and after != before:
            ctx.violation(None, "ignored-fields configuration not restored after the scope ended%s" % (" with an error" if inject else ""),
                          detail=dict(info, before=sorted(before), after=sorted(after)))
        elif before is not None:
            probe(before, "after the scope")
    finally:
        base.set_ignored_fields_for_comparison(before if before is not None else ctx.state["original_config"])
    ctx.nontrivial("scope", cont, inject, nested, case["s"])
    ctx.sample({"case": case, "outer": sorted(outer_names)}, kind="scope")


def run_scope2(ctx, case):
    """Scopes that do not end by falling off the end of a with block in the same frame: a generator suspended inside its scope
    (advanced, then closed / exhausted / thrown into), recursion entering the scope again at every level (each level raising or
    not), and the set function called inside a scope.  After every exit the configuration in force is the one before the entry,
    observed as state and by behaviour."""
    import flow.record.base as base
    from flow.record import RecordDescriptor

    rng = random.Random(case["s"])
    d = RecordDescriptor("c12/scope2", [("string", "s"), ("varint", "n")])
    a, b, c = d(s="x", n=1, _generated=STAMP), d(s="x", n=2, _generated=STAMP), d(s="y", n=1, _generated=STAMP)
    info = {"case": case, "variant": case["variant"]}
    before = read_config(ctx)
    ctx.ev()

    def probe(ignored, where):
        compare(ctx, a, b, "equal" if "n" in ignored else "unequal", dict(info, where=where, ignored=sorted(ignored), pair="differ in n", a=describe(a), b=describe(b),
                                                                          because="field 'n' differs and is not ignored"))
        compare(ctx, a, c, "equal" if "s" in ignored else "unequal", dict(info, where=where, ignored=sorted(ignored), pair="differ in s", a=describe(a), b=describe(c),
                                                                          because="field 's' differs and is not ignored"))

    def expect_config(want, where):
        ctx.event("scope_restore_checked")
        got = read_config(ctx)
        if got is not None and got != want:
            ctx.violation(None, "ignored-fields configuration is not the one in force before the scope (%s)" % where, detail=dict(info, expected=sorted(want), observed=sorted(got)))
            base.set_ignored_fields_for_comparison(want)
            return False
        probe(want, where)
        return True

    outer = rng.choice([set(), {"n"}, {"s"}, {"_generated"}])
    try:
        base.set_ignored_fields_for_comparison(as_container(outer, rng.choice(CONTAINERS)))
        variant = case["variant"]
        if variant == "generator":
            def scoped(names):
                with entry(ctx, "ignore_fields_for_comparison", rng)(as_container(names, rng.choice(CONTAINERS))):
                    yield "inside"
                    yield "still inside"

            how = rng.choice(["close", "exhaust", "throw", "drop"])
            names = rng.choice([{"n"}, {"s"}, {"n", "s"}, set()])
            g = scoped(names)
            next(g)
            inside = read_config(ctx)
            if inside is not None and inside != names:
                ctx.violation(None, "ignored-fields configuration inside the scope is not the one given", detail=dict(info, given=sorted(names), observed=sorted(inside)))
            probe(names, "while a generator is suspended inside its scope")
            if how == "close":
                g.close()
            elif how == "exhaust":
                for _ in g:
                    pass
            elif how == "throw":
                try:
                    g.throw(_Boom())
                except _Boom:
                    pass
            else:
                del g
                import gc

                gc.collect()
            ctx.cell("scope2", "generator", how)
            expect_config(outer, "after a generator suspended inside its scope was ended by " + how)
        elif variant == "recursive":
            depth = rng.randint(2, case.get("depth", 4))
            plan = [(rng.choice([{"n"}, {"s"}, set(), {"n", "s"}]), rng.random() < 0.5) for _ in range(depth)]

            def level(i, outside):
                if i == len(plan):
                    return
                names, boom = plan[i]
                try:
                    with entry(ctx, "ignore_fields_for_comparison", rng)(as_container(names, rng.choice(CONTAINERS))):
                        probe(names, "inside level %d" % i)
                        level(i + 1, names)
                        expect_config(names, "back in level %d after level %d ended" % (i, i + 1))
                        if boom:
                            raise _Boom()
                except _Boom:
                    pass
                expect_config(outside, "after level %d ended%s" % (i, " with an error" if boom else ""))

            level(0, outer)
            ctx.cell("scope2", "recursive", depth)
        elif variant == "decorator":
            # the scope object used as a decorator on a (recursive, possibly raising) function, where the library supports that
            names = rng.choice([{"n"}, {"s"}, {"n", "s"}])
            depth = rng.randint(1, case.get("depth", 4))
            boom_at = rng.choice([None, 0, depth - 1])
            try:
                deco = entry(ctx, "ignore_fields_for_comparison", rng)(as_container(names, rng.choice(["list", "set", "tuple", "frozenset"])))

                @deco
                def recurse(i):
                    probe(names, "inside the decorated function, level %d" % i)
                    if i + 1 < depth:
                        recurse(i + 1)
                        got = read_config(ctx)
                        if got is not None and got != names:
                            ctx.violation(None, "ignored-fields configuration inside a decorated function changed when a nested call of it returned",
                                          detail=dict(info, expected=sorted(names), observed=sorted(got)))
                    if boom_at == i:
                        raise _Boom()

                supported = True
            except TypeError:
                supported = False  # the scope object cannot be used as a decorator
                ctx.event("scope2_decorator_form_not_supported")
            if supported:
                try:
                    recurse(0)
                except _Boom:
                    pass
                ctx.event("scope2_decorator_calls")
                expect_config(outer, "after a decorated (recursive) function returned")
                try:
                    recurse(0)  # the decorated function is used again
                except _Boom:
                    pass
                expect_config(outer, "after the decorated function was called a second time")
            ctx.cell("scope2", "decorator", depth)
        elif variant == "same-object":
            # ONE scope object entered again while it is active / after it ended: whatever the library allows (a single-use object may
            # refuse), afterwards the configuration in force before must be back
            names = rng.choice([{"n"}, {"s"}])
            cm = entry(ctx, "ignore_fields_for_comparison", rng)(as_container(names, rng.choice(["list", "set", "tuple"])))
            how = rng.choice(["nested", "sequential", "nested-raise"])
            try:
                if how == "sequential":
                    with cm:
                        probe(names, "inside, first use")
                    expect_config(outer, "after the first use of a scope object")
                    with cm:
                        probe(names, "inside, second use of the same object")
                else:
                    with cm:
                        probe(names, "inside, outer use")
                        with cm:
                            probe(names, "inside, same object entered again")
                            if how == "nested-raise":
                                raise _Boom()
                        ctx.event("scope2_same_object_reentered")
                        expect_config(names, "after the inner use of the same scope object ended")
            except _Boom:
                pass
            except Exception as e:  # noqa: BLE001 - a single-use scope object refusing to be entered again is fine
                ctx.event("scope2_same_object_refused:" + type(e).__name__)
            ctx.cell("scope2", "same-object", how)
            expect_config(outer, "after one scope object was entered more than once (%s)" % how)
        else:  # the set function called inside a scope: the scope still restores what was in force before it
            names = rng.choice([{"n"}, {"s"}])
            boom = rng.random() < 0.5
            try:
                with entry(ctx, "ignore_fields_for_comparison", rng)(as_container(names, rng.choice(CONTAINERS))):
                    probe(names, "inside")
                    entry(ctx, "set_ignored_fields_for_comparison", rng)(as_container({"_generated"}, rng.choice(CONTAINERS)))
                    probe({"_generated"}, "inside, after an explicit set")
                    if boom:
                        raise _Boom()
            except _Boom:
                pass
            ctx.cell("scope2", "set-inside", "exception" if boom else "normal")
            expect_config(outer, "after a scope in which the configuration was set explicitly")
    finally:
        base.set_ignored_fields_for_comparison(before if before is not None else ctx.state["original_config"])
    ctx.event("scope2_cases")
    ctx.nontrivial("scope2", case["variant"], case["s"])


# ---- descriptor name twins: equality / hash stability across creation of other descriptors ---------------------------
def run_nametwin(ctx, case):
    """Descriptors with identical fields whose names differ only in '/' versus '_' (demo/proc_info, demo/proc/info), created
    before and after the records that are compared; plus clones and same-name-different-fields descriptors.  Records of
    differently named descriptors are unequal; hash(rec), the descriptor name a record reports and its whole observation are
    stable across the creation of any other descriptor."""
    from flow.record import GroupedRecord, RecordDescriptor

    rng = random.Random(case["s"])
    tag = gen.rand_ident(rng) + str(rng.randrange(10**6))
    stem = "c12tw/" + tag
    names = [stem + "/proc_info", stem + "/proc/info", stem + "_proc/info", stem + "/proc_info_x"[:-2]]
    names = list(dict.fromkeys(names))
    rng.shuffle(names)
    fields = [("string", "s"), ("varint", "n")] + ([("string[]", "tags")] if rng.random() < 0.5 else [])
    vals = {"s": "v", "n": 7, "_generated": STAMP, "_source": "src"}
    info0 = {"case": case, "names": names, "fields": fields}

    def state(r):
        return [hash(r), str(r._desc.name), observe.obs(r), repr(r)]

    live = []  # [descriptor name it was built from, record, state when built]

    def build(desc):
        r = desc(**vals)
        live.append([desc.name, r, state(r)])
        if observe.obs(r)[1] != desc.name:
            ctx.violation(None, "a record reports another descriptor name than the descriptor it was built from", detail=dict(info0, built_from=desc.name, reports=observe.obs(r)[1]))
        return r

    def recheck(after):
        for built_from, r, st in live:
            ctx.event("nametwin_stability_checked")
            now = state(r)
            if now != st:
                what = [n for n, x, y in zip(("hash", "descriptor name", "observation", "repr"), now, st) if x != y]
                ctx.violation("record-changes-when-another-descriptor-is-created", "an untouched record changed (%s) after %s" % (", ".join(what), after),
                              detail=dict(info0, built_from=built_from, before=[st[0], st[1]], after=[now[0], now[1]]))
                st[:] = now

    descs = {}
    first = names[0]
    descs[first] = RecordDescriptor(first, fields)
    a = build(descs[first])
    g = GroupedRecord(stem + "/group", [build(descs[first])])
    live.append([first, g, state(g)])
    for nm in names[1:]:
        descs[nm] = RecordDescriptor(nm, fields)
        recheck("a descriptor named %r with the same fields was created" % nm)
        build(descs[nm])
    RecordDescriptor(first, list(fields))
    recheck("an equal descriptor (same name, same fields) was created again")
    RecordDescriptor(first, fields + [("string", "extra")])
    RecordDescriptor(names[-1], [("varint", "other")])
    recheck("same-name descriptors with other fields were created")
    later = build(descs[first])  # the first descriptor object is used again after all the others exist
    recheck("the first descriptor built another record")
    # pairwise: same name => equal, other name => unequal
    recs = [(n, r) for n, r, _ in live if not isinstance(r, GroupedRecord)]
    for i in range(len(recs)):
        for j in range(i + 1, len(recs)):
            (n1, r1), (n2, r2) = recs[i], recs[j]
            same = n1 == n2
            compare(ctx, r1, r2, "equal" if same else "unequal",
                    dict(info0, pair="name twins" if not same else "same descriptor, built before / after the twins", a=describe(r1), b=describe(r2), config="none",
                         because=None if same else "the descriptor names %r and %r differ" % (n1, n2), key=None if same else "descriptor-name-twins-share-record-class"))
            ctx.cell("pair", "nametwin", "same" if same else "twin")
    distinct = len({r for _, r in recs})
    ctx.event("nametwin_set_checked")
    if distinct != len(names):
        ctx.violation("descriptor-name-twins-share-record-class", "a set of records of %d differently named descriptors holds %d elements" % (len(names), distinct), detail=info0)
    g2 = GroupedRecord(stem + "/group", [descs[names[1]](**vals)])
    compare(ctx, g, g2, "unequal", dict(info0, pair="grouped records whose members are name twins", a=describe(g), b=describe(g2), config="none",
                                       because="the member descriptors' names differ", key="descriptor-name-twins-share-record-class"))
    ctx.nontrivial("nametwin", case["s"])
    ctx.sample({"case": case, "names": names}, kind="nametwin")


def execute(ctx, case):
    k = case["k"]
    if k in ("type", "nested"):
        run_type(ctx, case)
    elif k == "grouped":
        run_grouped(ctx, case)
    elif k == "borderline":
        run_borderline(ctx, case)
    elif k == "coincident":
        run_coincident(ctx, case)
    elif k == "dictorder":
        run_dictorder(ctx, case)
    elif k == "edges":
        run_edges(ctx, case)
    elif k == "variants":
        run_variants(ctx, case)
    elif k == "mutate":
        run_mutate(ctx, case)
    elif k == "rawlist":
        run_rawlist(ctx, case)
    elif k == "scope2":
        run_scope2(ctx, case)
    elif k == "nametwin":
        run_nametwin(ctx, case)
    elif k == "envignore":
        run_envignore(ctx, case)
    elif k == "classcache":
        run_classcache(ctx, case)
    elif k == "ipfamily":
        run_ipfamily(ctx, case)
    elif k == "scope":
        run_scope(ctx, case)
    else:
        raise ValueError(k)
    # whatever happened inside: the configuration every case starts from is the original one
    cfg = read_config(ctx)
    if cfg is not None and cfg != ctx.state["original_config"]:
        import flow.record.base as base

        ctx.event("config_leaked_between_cases")
        base.set_ignored_fields_for_comparison(ctx.state["original_config"])


def finish(ctx):
    ctx.state["reach"].into(ctx)
    ev = ctx.events
    ctx.note("matrix_cells_expected", len(gen.all_cells()) if ctx.shard == 0 else 0)
    if ctx.evaluations == 0:
        return
    ctx.require(ctx.state.get("has_global", False), "flow.record.base.IGNORE_FIELDS_FOR_COMPARISON is not observable: scope restoration could only be judged by behaviour")
    ctx.require(ev.get("generator_selfcheck_failed", 0) == 0, "two builds of one recipe were not identical (%d cases): rebuilt-copy expectations unusable" % ev.get("generator_selfcheck_failed", 0))
    ctx.require(ev.get("pairs:equal", 0) > 0, "no pair expected to be equal was compared")
    ctx.require(ev.get("pairs:unequal", 0) > 0, "no pair expected to be unequal was compared")
    ctx.require(ev.get("hash_consistency_checked", 0) > 0, "hash consistency was never checked")
    ctx.require(ev.get("scope_restore_checked", 0) > 0, "the scope-restoration monitor never ran")
    ctx.require(ev.get("config_installed:scope+exception", 0) > 0, "no scope ended with an injected exception")
    ctx.require(ev.get("reflexive_checked", 0) > 0, "reflexivity was never checked")
    ctx.require(ev.get("nametwin_stability_checked", 0) > 0, "the descriptor name-twin stability monitor never ran")
    ctx.require(ev.get("scope2_cases", 0) > 0, "generator-suspended / recursive scopes were never exercised")
    ctx.require(ev.get("entry:flow.record.ignore_fields_for_comparison", 0) > 0 and ev.get("entry:flow.record.base.ignore_fields_for_comparison", 0) > 0,
                "the scope was not driven through both public entry points (flow.record and flow.record.base)")
    if any(c.startswith("edges/") for c in ctx.cells):
        ctx.require(ev.get("edge_pairs_compared", 0) > 0 or ev.get("edge_rebuilt_compared", 0) > 0, "the edge-value family compared nothing")
    if any(c.startswith("variants/") for c in ctx.cells):
        ctx.require(ev.get("variant_pairs", 0) > 0, "the representation-variant family compared nothing")
    ctx.require(ev.get("grouped_structural_pairs", 0) > 0, "no structural variant of a grouped record was compared")
    if any(c.startswith("rawlist/") for c in ctx.cells):
        ctx.require(ev.get("rawlist_pairs_checked", 0) > 0, "the raw-list-element family compared nothing")
    ctx.require(ev.get("mutate_pairs_checked", 0) > 0, "hash / == coherence across mutation was never checked")
    ctx.require(ev.get("mutate_model_selfcheck_failed", 0) == 0, "the mutation model disagreed with the observed record (%d cases)" % ev.get("mutate_model_selfcheck_failed", 0))
    if ctx.state.get("classcache_ran"):
        ctx.require(ctx.state.get("classcache_evicted", False), "re-creating an equal descriptor after overflowing the class cache did not yield a new record class")
    ctx.require(ev.get("dictorder_hash_checked", 0) > 0, "hash consistency of records differing only in dict insertion order was never checked")
    for q in ANCHORS[:6]:
        ctx.require(ctx.reach.get(q, 0) > 0, "anchor %s was never entered" % q)
