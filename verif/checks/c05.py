"""C05 - record fields always hold values of their declared type (DESIGN section 4, C05)."""
from __future__ import annotations

import datetime as _dt
import json
import os
import random
import subprocess
import sys
import warnings

from .. import cands_c05 as cands
from .. import gen, observe, probes
from ..core import VERIF_DIR, subseed

ID = "C05"
TITLE = "typed slots, rejection leaves the record unchanged, accepted records serialise"
LEVEL = "exploration"
RULE = (
    "cases = operation histories on one record of a generated descriptor (1-4 fields; the focus field runs over every whitelisted "
    "serialisable field type in scalar and T[] form).  'sweep' cases enumerate, per field type and per operation kind (construct "
    "by args / by kwargs, attribute assignment, _replace, init_from_dict, init_from_record, assignment through a GroupedRecord, "
    "digest attribute assignment), every candidate of that type's pool (valid, boundary, just outside the boundary, malformed, "
    "wrong kind, naive/aware/text/epoch timestamps, bytes for text, lone surrogates); 'hist' cases are seeded random histories of "
    "1-8 operations mixing kinds, fields and candidates; 'shadow' cases construct records whose field is named like a name the "
    "generated __init__ could look up; 'alias' cases build 2-4 records of one descriptor that leave digest / T[] fields unset (by "
    "constructor, kwargs, init_from_dict, _replace / init_from_record of a throw-away source, an equal descriptor) plus one with "
    "explicit values, fill one record's field in place (digest setters; append / extend / insert of element-type values on the typed "
    "list) and demand: that record changed as requested and is still typed and serialisable, the deep observation of every other "
    "record is unchanged, defaulted slots of different records are different objects, a record built afterwards starts unset; "
    "'history' cases offer, for address / network / bytes / boolean fields (scalar and list), a wrong-kind value that is equal to and hashes "
    "like a valid one (float / Decimal / Fraction of an address integer, 1.0 for 1 / True, a memoryview of bytes) before that valid value "
    "was ever offered (fresh random values), after it was accepted, and after a common value: the outcome must be the same in every "
    "position.  After an assignment through a GroupedRecord, getattr(group, field), group._asdict()[field] and the member's slot must show "
    "the same typed value, and after a rejected one the view is unchanged.  Every history runs next to 1-3 bystander records (same "
    "descriptor; another descriptor with the same field types) holding ordinary values (False / True / 0 / '' / [] / small ints): their "
    "deep observation, packed bytes and repr, taken when they were built, are compared after EVERY operation on the focus record.  "
    "'copies' cases apply the replace-style operations of plain and grouped records (_replace with no / one member's / every field, extend_record, "
    "init_from_record, init_from_dict(_asdict()), RecordFieldRewriter with fields / exclude / expression) and then assign every field of the copy and of "
    "the original: the other one's observation, packed bytes and repr must not change, and no record object may be shared.  'groupoverlap' cases build grouped records of 2-4 members that share a field name with different types (every ordered pair of 18 type "
    "families; the shared name first / middle / last; a second shared name; the reserved names, which all members have): after construction, "
    "assignment through the group, _replace and a stream / JSON round trip every flat field's value must be of the type the flat descriptor "
    "declares.  The pools of every text-parsing type hold Unicode look-alikes of well-formed text (digits of six other scripts, superscript / "
    "circled / Roman numerals, full-width punctuation and hex letters, eight invisible characters, seven kinds of surrounding blanks, sign / "
    "underscore separators, radix prefixes, leading zeros); the stdlib parser of this Python (ipaddress, bytes.fromhex) decides 'malformed' for "
    "addresses, networks and digests (must be rejected), for the other types only the invariants apply.  Thorough tier only: 'pairs' cases "
    "enumerate EVERY ordered pair of candidates of a type's pool as a two-operation history for eight operation pairs; hist cases use 1-6 fields "
    "and 1-40 operations; cold children make every serialiser the first action of a fresh interpreter for every field type; seven locale "
    "environments.  'inputtypes' cases offer unusual but plausible input types (bytearray, memoryviews incl. sliced / released, array.array, str / bytes / float "
    "subclasses, IntEnum, Decimal / Fraction, pathlib / ipaddress / uuid objects, date / time, os.PathLike; tuple / generator / set / frozenset / "
    "dict views / deque / map for T[] fields) to every field type: accepted => typed, serialisable by stream and JSON, hashable, and decoupled "
    "from the caller's object (the input buffer is modified / released afterwards and the record re-observed incl. its packed bytes).  'cold' "
    "cases run a child interpreter per field type that imports only RecordDescriptor and serialises ordinary records by JSON packer, stream "
    "packer and the stream / jsonfile / csvfile / line / text / sqlite writers in a seeded order; outcome and output of every step must equal "
    "those of the same job in the warm parent.  'dtroute' cases offer values that already are instances of fieldtypes.datetime, obtained from 29 constructor routes (field-wise, "
    "strptime, combine, fromisoformat, fromtimestamp, utcnow / now / today, fromordinal, fromisocalendar, replace, arithmetic, astimezone, copy, "
    "pickle, min / max), to datetime and datetime[] fields: accepted => timezone aware, serialisable by the stream and the JSON packer and read "
    "back equal.  'jsonfloat' cases put nan / inf / -inf (also from text, also inside float[]) through JsonRecordPacker, JsonfileWriter and "
    "RecordWriter on .json / .jsonl / jsonfile:// targets and read them back.  'decode' cases craft stream frames with the independent "
    "reference encoder that carry malformed packed values (digest hashes of the wrong length / slot / kind, out-of-range unsigned integers, "
    "boolean 2, addresses outside the address space, malformed networks): refused, or well-formed typed values that serialise again.  At "
    "the end of every history the JSON packer must serialise the record too.  'locale' cases run one fixed sweep of bytes -> text conversions (string, wstring, uri, string[] elements, _source; construct / assign "
    "/ _replace; valid UTF-8 with accents, CJK, emoji; invalid bytes) in a worker process under LC_ALL=C LANG=C PYTHONUTF8=0 "
    "PYTHONCOERCECLOCALE=0 and under the default environment and in-process: identical results, equal to the surrogate-escaped UTF-8 "
    "decoding.  One evaluation = one operation executed by the real code.  Oracle after every operation: "
    "(1) outcome against the expectation the statement fixes (valid => accepted; out-of-range unsigned / boolean not 0,1 / "
    "malformed digest or address / non-bytes for bytes => raised; everything else open), (2) after a raised operation the deep "
    "observation of the record (observe.obs + packed digest bytes), taken before the operation, is unchanged, (3) after an "
    "accepted one every slot is None / empty default or an instance of the declared type, list elements included "
    "(observe.assert_typed), (4) named conversions: naive timestamp => same wall clock at UTC offset 0, bytes => text whose "
    "surrogate-escaped UTF-8 encoding is the input; plain value identity for integers / bytes / text, (5) at the end of the "
    "history RecordPacker().pack(record) succeeds and what it decodes to is typed again.  The thorough tier additionally runs the "
    "repository's own test-suite with the typed-slot invariant installed as a post-condition of every record construction "
    "(verif/suite_plugin.py; ~37 000 constructions by users, _replace and every reader).  A case is non-trivial when at least one "
    "operation ran; distinct = distinct (type, operation kind, candidate kind, candidate)."
)
ASSUMPTIONS = [
    "accept/reject is demanded only for the candidate kinds the statement names; other wrong kinds (text for integers, bytearray/memoryview "
    "for bytes, a network with host bits, out-of-range integers for the deprecated net.ipv4.Address, unknown digest keys, bytes hex digests) "
    "are exercised for the invariants only",
    "in-range non-integral numbers are not offered to integer types (uint16(3.7) yields a hybrid object today; the statement does not name it); "
    "out-of-range non-integral numbers (-0.5, 65535.5, Fraction, Decimal) are offered to the unsigned types and fractional numbers to boolean, as "
    "must-reject; 0.0 / 1.0 / Decimal(1) for boolean are left open",
    "nested-record fields receive records and None only (documented pass-through type); record[] elements are records",
    "in-place mutation of a typed list is not an attribute assignment: it is generated only in the 'alias' cases, with values that already are "
    "of the element type, to observe that default objects are not shared between records",
    "replace-style operations (_replace, extend_record, init_from_record / init_from_dict, RecordFieldRewriter) make SHALLOW copies on the unchanged tree: field "
    "value objects (typed lists, digests, commands, nested records) are shared between original and copy, record objects (the copy, member records of a "
    "grouped copy) are not; GroupedRecord(name, records) is a view on the caller's member records; the 'copies' family therefore judges assignments and "
    "record-object identity, not in-place fills of shared value objects",
    "sharing is judged only for default objects the library creates; a _replace copy shares the values of its source record by design, so "
    "_replace / init_from_record sources are throw-away records outside the observed set",
    "text with a lone surrogate outside U+DC80-DCFF is offered to string / wstring / uri (scalar and list), dynamic, _source and "
    "_classification only",
    "net.ipv4.Subnet (deprecated, no packed form) is left out; the deprecated net.ipv4.Address has no JSON form and is left out of the JSON part of the "
    "'can always be serialised' clause; decoding what the JSON packer wrote is C14's subject and only judged for float / datetime fields here",
    "the decode route is judged for crafted stream frames only: refused while decoding, or a well-formed typed value that serialises again",
    "decoding is monitored for typed slots, not for value preservation (that is C01)",
    "a field literally named 'self' is never passed by keyword to Record._replace / RecordDescriptor.__call__ (Python binds that keyword to "
    "the instance, the call fails whatever the value); such records are built through recordType(**kwargs) and positional arguments",
]
SHARDS = {"quick": 8, "thorough": 16}
BUDGET_S = {"quick": 150, "thorough": 3600}

ANCHORS = [
    "flow.record.base:Record.__setattr__",
    "flow.record.base:Record._replace",
    "flow.record.base:RecordDescriptor.init_from_dict",
    "flow.record.base:RecordDescriptor.init_from_record",
    "flow.record.base:GroupedRecord.__setattr__",
    "flow.record.fieldtypes:typedlist._convert",
    "flow.record.fieldtypes:uint16.__init__",
    "flow.record.fieldtypes:uint32.__init__",
    "flow.record.fieldtypes:boolean.__init__",
    "flow.record.fieldtypes:bytes.__init__",
    "flow.record.fieldtypes:datetime.__new__",
    "flow.record.fieldtypes:string.__new__",
    "flow.record.fieldtypes:digest.__init__",
    "flow.record.fieldtypes.net.ip:ipaddress.__init__",
    "flow.record.fieldtypes.net.ip:ipnetwork.__init__",
    "flow.record.packer:RecordPacker.pack_obj",
]

CREATING = ("ctor_args", "ctor_kwargs", "replace", "from_dict", "from_record")
MUTATING = ("assign", "group_assign", "digest_attr")
OPS = CREATING + ("assign", "group_assign")
SURROGATE_TYPES = ("string", "wstring", "uri", "string[]", "wstring[]", "uri[]", "dynamic")
CARRIER_OK = (int, str, bytes)

SHADOW_NAMES = ["RECORD_VERSION", "Record", "args", "kwargs", "self", "cls", "k", "v", "f", "values", "RESERVED_FIELDS", "object", "setattr", "type", "print"]
SHADOW_TYPES = ["string", "varint", "digest", "string[]", "datetime", "uint16"]
KEY_SHADOW = "field-name-shadows-template-global"
# field types whose unset form is a non-None default object created by the library (empty digest, empty typed list)
# types with a named wrong-kind class for which a hash-equal valid value exists (see run_history)
HISTORY_TYPES = ["net.ipaddress", "net.IPAddress", "net.ipaddress[]", "net.ipnetwork", "net.IPNetwork", "net.ipnetwork[]", "net.ipv4.Address", "bytes", "bytes[]",
                 "boolean", "boolean[]"]
KEY_HISTORY = "acceptance-depends-on-history"
OVERLAP_FAMILIES = ["string", "varint", "uint16", "boolean", "float", "bytes", "datetime", "digest", "net.ipaddress", "net.ipnetwork", "path", "command", "uri", "string[]",
                    "varint[]", "stringlist", "dictlist", "dynamic"]
KEY_GROUP_FLAT = "grouped-flat-field-type-disagrees-with-value"
KEY_COPY_ALIAS = "copy-shares-record-with-original"
COPY_FIELD_TYPES = ["string", "varint", "uint16", "boolean", "string[]", "varint[]", "digest", "command", "bytes", "datetime", "net.ipaddress", "path", "float", "stringlist"]
PAIR_OPS = (("assign", "assign"), ("ctor_kwargs", "assign"), ("assign", "replace"), ("group_assign", "from_dict"), ("replace", "group_assign"), ("from_dict", "ctor_args"),
            ("from_record", "assign"), ("ctor_args", "from_record"))
KEY_BYSTANDER = "operation-changes-another-record"
KEY_BOOL_FRACTION = "boolean-accepts-fractional-value"
KEY_LOCALE = "bytes-to-text-depends-on-locale"
LOCALE_ENVS = [("C locale, UTF-8 mode off", {"LC_ALL": "C", "LANG": "C", "PYTHONUTF8": "0", "PYTHONCOERCECLOCALE": "0"}), ("default environment", None),
               # thorough tier only:
               ("POSIX locale, UTF-8 mode forced on", {"LC_ALL": "POSIX", "PYTHONUTF8": "1"}), ("LANG=C only, coercion off", {"LANG": "C", "PYTHONUTF8": "0", "PYTHONCOERCECLOCALE": "0"}),
               ("C locale with coercion allowed", {"LC_ALL": "C"}), ("PYTHONIOENCODING=latin-1", {"PYTHONIOENCODING": "latin-1"}),
               ("LC_CTYPE=C, UTF-8 mode off", {"LC_CTYPE": "C", "PYTHONUTF8": "0", "PYTHONCOERCECLOCALE": "0"})]
WORKER_TIMEOUT_S = 120
BY_STAMP = _dt.datetime(2021, 1, 2, 3, 4, 5, 6, tzinfo=_dt.timezone.utc)
KEY_DT_REPLACE = "datetime-replace-tzinfo-none-stored-naive"
# ways to obtain a value that already IS an instance of flow.record.fieldtypes.datetime (stored without another conversion)
DT_ROUTES = ["fieldwise", "fieldwise_us", "fieldwise_tzinfo_none", "fieldwise_aware", "strptime", "strptime_tz", "combine", "combine_aware", "fromisoformat",
             "fromisoformat_tz", "fromtimestamp", "fromtimestamp_tz", "utcfromtimestamp", "utcnow", "now", "now_tz", "today", "fromordinal", "fromisocalendar",
             "replace_tzinfo_none", "replace_year", "min", "max", "plus_timedelta", "astimezone", "copy", "pickle", "from_std_naive", "from_text"]
# field types offered unusual input types (stringlist / dictlist hold arbitrary elements, record is the pass-through type: left out)
INPUT_TYPES = [t for t in cands.TYPES if t not in ("stringlist", "dictlist", "record", "record[]")]
KEY_UINT_RAW = "unsigned-int-keeps-non-int-argument"
KEY_ALIAS_INPUT = "field-value-aliases-callers-buffer"
DECODE_KINDS = ["digest", "digest[]", "grouped-digest", "uint16", "uint32", "boolean", "net.ipaddress", "net.ipnetwork"]
ALIAS_TYPES = ["digest"] + [t + "[]" for t in gen.LIST_ELEM_TYPES]


def setup(ctx):
    import tempfile

    warnings.simplefilter("ignore")
    ctx.state["reach"] = probes.Reach(ANCHORS)
    ctx.state["tmp"] = tempfile.mkdtemp(prefix="frv-c05-", dir=os.environ.get("VERIF_TMP", "/var/tmp"))


def teardown(ctx):
    import shutil

    ctx.state["reach"].stop()
    if ctx.state.get("tmp"):
        shutil.rmtree(ctx.state["tmp"], ignore_errors=True)


def ops_for(ftype):
    return OPS + (("digest_attr",) if ftype == "digest" else ())


def generate(ctx):
    idx = 0
    for e in range(ctx.scale(2, len(LOCALE_ENVS))):
        if ctx.mine(idx + 5):
            yield {"k": "locale", "env": e}
        idx += 1
    # cold children: quick = one per field type with a seeded order of the serialisers; thorough = every serialiser is the FIRST thing
    # the fresh interpreter does, for every field type (9 rotations of the order)
    for rot in range(ctx.scale(1, 9)):
        for t in cands.TYPES:
            if ctx.mine(idx):
                c = {"k": "cold", "t": t, "s": subseed("c05", ctx.seed, "cold", t, rot)}
                if not ctx.quick:
                    c["rot"] = rot
                yield c
            idx += 1
    for rep in range(ctx.scale(2, 12)):
        for t in INPUT_TYPES:
            if ctx.mine(idx):
                c = {"k": "inputtypes", "t": t, "s": subseed("c05", ctx.seed, "inputtypes", t, rep)}
                if not ctx.quick:
                    c["allops"] = True  # every unusual input through every operation kind
                yield c
            idx += 1
    for rep in range(ctx.scale(40, 1500)):
        if ctx.mine(idx):
            yield {"k": "copies", "s": subseed("c05", ctx.seed, "copies", rep)}
        idx += 1
    for rep in range(ctx.scale(24, 600)):
        if ctx.mine(idx):
            yield {"k": "samename", "s": subseed("c05", ctx.seed, "samename", rep)}
        idx += 1
    k = 0
    for t1 in OVERLAP_FAMILIES:
        for t2 in OVERLAP_FAMILIES:
            if t1 != t2:
                if ctx.mine(idx):
                    yield {"k": "redeclared", "t1": t1, "t2": t2, "s": subseed("c05", ctx.seed, "redeclared", t1, t2)}
                idx += 1
                k += 1
    # grouped records whose members share a field name with DIFFERENT types: every ordered pair of type families; quick samples the
    # position of the shared name, thorough enumerates first / middle / last
    fams = OVERLAP_FAMILIES
    k = 0
    for t1 in fams:
        for t2 in fams:
            if t1 == t2:
                continue
            for pos in ((k % 3,) if ctx.quick else (0, 1, 2)):
                if ctx.mine(idx):
                    yield {"k": "groupoverlap", "t1": t1, "t2": t2, "pos": pos, "s": subseed("c05", ctx.seed, "groupoverlap", t1, t2, pos)}
                idx += 1
            k += 1
    if not ctx.quick:
        # exhaustive histories of length two: every ordered pair of candidates of a type's pool, for four operation pairs
        for t in cands.TYPES:
            for ops in PAIR_OPS:
                if ctx.mine(idx):
                    yield {"k": "pairs", "t": t, "ops": list(ops), "s": subseed("c05", ctx.seed, "pairs", t, ops)}
                idx += 1
    for rep in range(ctx.scale(2, 40)):
        for route in DT_ROUTES:
            if ctx.mine(idx):
                yield {"k": "dtroute", "route": route, "s": subseed("c05", ctx.seed, "dtroute", route, rep)}
            idx += 1
    for rep in range(ctx.scale(16, 480)):
        if ctx.mine(idx):
            yield {"k": "jsonfloat", "s": subseed("c05", ctx.seed, "jsonfloat", rep)}
        idx += 1
    for rep in range(ctx.scale(3, 60)):
        for kind in DECODE_KINDS:
            if ctx.mine(idx):
                yield {"k": "decode", "what": kind, "s": subseed("c05", ctx.seed, "decode", kind, rep)}
            idx += 1
    if not ctx.quick and ctx.shard == 0:
        yield {"k": "suite"}
    for name in SHADOW_NAMES:
        for t in SHADOW_TYPES:
            if ctx.mine(idx):
                yield {"k": "shadow", "name": name, "t": t}
            idx += 1
    for rep in range(ctx.scale(4, 60)):
        for t in ALIAS_TYPES:
            if ctx.mine(idx):
                c = {"k": "alias", "t": t, "s": subseed("c05", ctx.seed, "alias", t, rep)}
                if not ctx.quick:
                    c["deep"] = True  # up to 10 in-place fills, up to 6 records
                yield c
            idx += 1
    for rep in range(ctx.scale(6, 150)):
        for t in HISTORY_TYPES:
            if ctx.mine(idx):
                yield {"k": "history", "t": t, "s": subseed("c05", ctx.seed, "history", t, rep)}
            idx += 1
    for rep in range(ctx.scale(2, 16)):
        for t in cands.TYPES:
            for op in ops_for(t):
                if ctx.mine(idx):
                    yield {"k": "sweep", "t": t, "op": op, "s": subseed("c05", ctx.seed, "sweep", t, op, rep)}
                idx += 1
    for rep in range(ctx.scale(120, 4800)):
        for t in cands.TYPES:
            if ctx.mine(idx):
                c = {"k": "hist", "t": t, "s": subseed("c05", ctx.seed, "hist", t, rep)}
                if not ctx.quick:
                    c["deep"] = True  # up to 6 fields, up to 40 operations
                yield c
            idx += 1


# ---- observation helpers ----------------------------------------------------------------------------
def digest_bins(r, depth=0):
    """packed (binary) side of every digest reachable from the record: the textual side is in obs()"""
    import flow.record.base as base
    import flow.record.fieldtypes as ft

    out = []
    if isinstance(r, base.GroupedRecord):
        return [digest_bins(m, depth + 1) for m in r.records]
    for k in r.__slots__:
        v = getattr(r, k)
        vs = v if isinstance(v, list) else [v]
        for x in vs:
            if isinstance(x, ft.digest):
                try:
                    out.append([k] + [None if b is None else bytes(b).hex() for b in x._pack()])
                except Exception as e:  # noqa: BLE001
                    out.append([k, "pack-raised", type(e).__name__])
            elif isinstance(x, base.Record) and depth < 4:
                out.append([k, digest_bins(x, depth + 1)])
    return out


def secondary_state(r, depth=0):
    """unsigned integers and booleans carry their packed form in `.value`: it must be an int (a bool for boolean) equal to the
    value itself - no float / Decimal / raw-argument hybrids.  -> description of the first disagreement or None"""
    import flow.record.base as base
    import flow.record.fieldtypes as ft

    if isinstance(r, base.GroupedRecord):
        for m in r.records:
            w = secondary_state(m, depth + 1)
            if w:
                return w
        return None
    for k in r.__slots__:
        v = getattr(r, k)
        for x in v if isinstance(v, list) else [v]:
            if isinstance(x, (ft.uint16, ft.uint32)):
                if type(x.value) is not int or x.value != int(x):
                    return "unsigned field %s: int() is %r but .value is %s %r" % (k, int(x), type(x.value).__name__, x.value)
            elif isinstance(x, ft.boolean):
                if type(x.value) is not bool or int(x.value) != int(x):
                    return "boolean field %s: int() is %r but .value is %s %r" % (k, int(x), type(x.value).__name__, x.value)
            elif isinstance(x, base.Record) and depth < 4:
                w = secondary_state(x, depth + 1)
                if w:
                    return w
    return None


def snapshot(r):
    return [observe.obs(r), digest_bins(r)]


def _safe_repr(x):
    try:
        return repr(x)[:200]
    except Exception as e:  # noqa: BLE001 - a broken value on a mutated tree
        return "<%s: repr raised %s>" % (type(x).__name__, type(e).__name__)


def _safe_obs(r):
    try:
        return repr(observe.obs(r))[:1500]
    except Exception as e:  # noqa: BLE001
        return "<obs raised %s>" % type(e).__name__


def combine_exp(exps):
    if "reject" in exps:
        return "reject"
    if "open" in exps:
        return "open"
    return "accept"


def conv_ok(v, conv):
    """-> None when the accepted value is what the conversion rule says, else a description"""
    if conv is None:
        return None
    what = conv[0]
    if what == "none":
        # unset = None or the type's documented empty default (empty typed list, empty digest)
        return None if observe.is_unset(observe.oval(v)) else "expected unset, holds %r" % (v,)
    if what == "int":
        if isinstance(v, int) and int(v) == conv[1]:
            return None
        return "integer %r became %s %r" % (conv[1], type(v).__name__, v)
    if what == "bytes":
        if isinstance(v, bytes) and bytes(v) == conv[1]:
            return None
        return "bytes value changed (%d bytes offered, holds %s of length %s)" % (len(conv[1]), type(v).__name__, len(v) if hasattr(v, "__len__") else "?")
    if what == "text":
        if isinstance(v, str) and str.__str__(v) == conv[1]:
            return None
        return "text %r became %s %r" % (conv[1][:40], type(v).__name__, repr(v)[:60])
    if what == "f64":
        if isinstance(v, float) and observe.f64hex(v) == conv[1]:
            return None
        return "float bits %s became %r" % (conv[1], v)
    if what in ("naive", "aware"):
        import datetime as _dt

        if not isinstance(v, _dt.datetime):
            return "timestamp became %s" % type(v).__name__
        o = observe.odt(v)
        if o[8] is None:
            return "timestamp is still naive: %r" % (o,)
        if what == "naive" and (o[8] != 0 or o[1:8] != list(conv[1])):
            return "naive wall clock %r became %r (offset %r us), not the same wall clock at UTC" % (conv[1], o[1:8], o[8])
        return None
    if what == "digest":
        o = observe.oval(v)
        if o == ["digest"] + list(conv[1:]):
            return None
        return "digest %r became %r" % (conv[1:], o)
    if what == "list":
        if not isinstance(v, list):
            return "list became %s" % type(v).__name__
        if len(v) != len(conv[1]):
            return "list of %d elements became %d elements" % (len(conv[1]), len(v))
        for i, (x, c) in enumerate(zip(v, conv[1])):
            r = conv_ok(x, c)
            if r:
                return "[%d]: %s" % (i, r)
        return None
    return None


def lone_surrogate_slots(r):
    """slots (of the string-like declared types) whose text holds a surrogate outside U+DC80..U+DCFF"""
    out = []
    types = {n: t for t, n in r._desc.get_field_tuples()}
    types.update({"_source": "string", "_classification": "string"})
    for k in r.__slots__:
        t = types.get(k)
        if t not in SURROGATE_TYPES:
            continue
        v = getattr(r, k)
        vs = v if isinstance(v, list) else [v]
        if any(isinstance(x, str) and cands.has_lone_surrogate(str.__str__(x)) for x in vs):
            out.append(k)
    return out


# ---- bystander records -------------------------------------------------------------------------------
def ordinary_value(ftype, rng):
    """an everyday value of the type (False / True / 0 / '' / empty list / small ints ...), never an exotic one"""
    if ftype.endswith("[]"):
        n = rng.choice([0, 1, 2])
        return [ordinary_value(ftype[:-2], rng) for _ in range(n)]
    if ftype == "boolean":
        return rng.choice([False, True, 0, 1])
    if ftype in ("uint16", "uint32", "net.tcp.Port", "net.udp.Port"):
        return rng.choice([0, 1, 2, 80, 443])
    if ftype in ("varint", "filesize", "unix_file_mode"):
        return rng.choice([0, 1, -1, 7, 420])
    if ftype == "float":
        return rng.choice([0.0, 1.0, 0.5])
    if ftype in ("string", "wstring"):
        return rng.choice(["", "a", "text"])
    if ftype == "uri":
        return rng.choice(["", "http://example.com/x"])
    if ftype == "bytes":
        return rng.choice([b"", b"a", b"\x00\x01"])
    if ftype == "datetime":
        return rng.choice([BY_STAMP, _dt.datetime(1970, 1, 1, tzinfo=_dt.timezone.utc)])
    if ftype == "digest":
        return rng.choice([(None, None, None), ("d41d8cd98f00b204e9800998ecf8427e", None, None)])
    if ftype in ("net.ipaddress", "net.IPAddress"):
        return rng.choice(["1.2.3.4", "::1", 1, 3232235777])
    if ftype in ("net.ipnetwork", "net.IPNetwork"):
        return rng.choice(["10.0.0.0/8", "::/0"])
    if ftype == "net.ipv4.Address":
        return rng.choice(["1.2.3.4", 1])
    if ftype == "path":
        return rng.choice(["", "/a/b", "c:\\x"])
    if ftype == "command":
        return "ls -l"
    if ftype == "stringlist":
        return rng.choice([[], ["a"]])
    if ftype == "dictlist":
        return rng.choice([[], [{"a": 1}]])
    if ftype == "dynamic":
        return rng.choice(["s", "", 0, 1, False, True, b""])
    if ftype == "record":
        return None
    raise KeyError(ftype)


def bystander_state(r):
    """everything another record's operation must leave alone: deep observation, packed bytes (secondary state such as .value
    lives there), printed form"""
    from flow.record import RecordPacker

    return [observe.obs(r), digest_bins(r), RecordPacker().pack(r).hex(), repr(r)]


# ---- one history -----------------------------------------------------------------------------------
class Hist:
    def __init__(self, ctx, case, rng, ftype, nfields=None, fields=None, descname=None):
        from flow.record import RecordDescriptor

        self.ctx = ctx
        self.case = case
        self.rng = rng
        self.ftype = ftype
        self.log = []
        if fields is None:
            n = nfields if nfields is not None else rng.choice([1, 1, 2, 3, 4])
            types = [ftype] + [rng.choice(cands.TYPES) for _ in range(n - 1)]
            names = gen.unique_names(rng, n, allow_keyword=rng.random() < 0.15, avoid=("zz_other", "zz_unknown"))
            pos = rng.randrange(n)
            types[0], types[pos] = types[pos], types[0]
            self.fields = list(zip(types, names))
            self.focus = names[pos]
        else:
            self.fields = list(fields)
            self.focus = self.fields[0][1]
        self.desc = RecordDescriptor(descname or "c05/%s" % gen.rand_ident(rng), self.fields)
        self.pools = {}
        self.cur = None
        self.key_hint = None

    def start(self, key_hint=None):
        self.make_bystanders()
        return self.attempt("ctor_default", lambda: self.desc(), [], creating=True, key_hint=key_hint)

    def make_bystanders(self):
        """1-3 other live records (same descriptor; another descriptor using the same field types) holding ordinary values"""
        from flow.record import RecordDescriptor

        rng = random.Random(self.rng.random())
        self.bystanders = []
        other = RecordDescriptor("c05/bystander", [(t, "b%d" % i) for i, (t, _) in enumerate(self.fields)])
        plans = [("same descriptor", self.desc), ("other descriptor, same field types", other), ("same descriptor", self.desc)][: rng.randint(1, 3)]
        for label, d in plans:
            try:
                vals = [None if rng.random() < 0.15 else ordinary_value(t, rng) for t, _ in d.get_field_tuples()]
                r = d.recordType(*vals, _generated=BY_STAMP)
                self.bystanders.append([label, r, bystander_state(r)])
            except Exception as e:  # noqa: BLE001
                self.ctx.violation(None, "a record of ordinary values could not be built / observed / packed",
                                   detail={"descriptor": [d.name, list(d.get_field_tuples())], "exception": repr(e)[:300]})
        self.ctx.event("bystanders_built", len(self.bystanders))

    def check_bystanders(self, op, used, outcome):
        for label, r, before in getattr(self, "bystanders", ()):
            self.ctx.event("bystander_checked")
            try:
                after = bystander_state(r)
            except Exception as e:  # noqa: BLE001
                self.ctx.violation(KEY_BYSTANDER, "another record can no longer be observed / packed / printed after an operation on this one",
                                   detail=self.detail(op, used, outcome=outcome, bystander=label, exception=repr(e)[:300]))
                continue
            if after != before:
                what = [n for n, a, b in zip(("observation", "digest bytes", "packed bytes", "repr"), after, before) if a != b]
                self.ctx.violation(KEY_BYSTANDER, "an operation on one record changed what another record holds, packs or prints",
                                   detail=self.detail(op, used, outcome=outcome, bystander=label, changed=what, diff=observe.first_diff(before[0], after[0]),
                                                      repr_before=before[3][:300], repr_after=after[3][:300], packed_before=before[2][:200], packed_after=after[2][:200]))
                # report once per corruption: continue from the new state
                for ent in self.bystanders:
                    if ent[1] is r:
                        ent[2] = after

    # -- candidates
    def pool(self, ftype):
        p = self.pools.get(ftype)
        if p is None:
            p = self.pools[ftype] = cands.pool(ftype, self.rng)
        return p

    def type_of(self, name):
        if name in ("_source", "_classification"):
            return "string"
        if name == "_generated":
            return "datetime"
        return next(t for t, n in self.fields if n == name)

    def pick(self, name, only=None):
        p = self.pool(self.type_of(name))
        if only:
            p = [c for c in p if c.exp in only] or p
        return self.rng.choice(p)

    # -- the monitor around one operation
    def attempt(self, op, fn, used, creating=False, target=None, key_hint=None):
        """Run one operation of the real code.  used = [(slot, Cand)] offered in it.  -> (accepted?, result)"""
        ctx = self.ctx
        exp = combine_exp([c.exp for _, c in used])
        before = None
        if self.cur is not None:
            try:
                before = snapshot(self.cur)
            except Exception as e:  # noqa: BLE001
                ctx.violation(None, "record cannot be observed before %s" % op, detail=self.detail(op, used, error=repr(e)[:300]))
                return False, None
        raised, res = None, None
        try:
            res = fn()
        except Exception as e:  # noqa: BLE001 - which exception class is left open by the property
            raised = e
        ctx.ev()
        ctx.event("op:" + op)
        entry = "%s %s -> %s" % (op, ", ".join("%s=%s[%s/%s]" % (n, c.short(), c.exp, c.kind) for n, c in used), "raised " + type(raised).__name__ if raised else "accepted")
        self.log.append(entry)
        for n, c in used:
            t = self.type_of(n)
            # an operation offering several values is decided by the non-valid one(s)
            outcome = "accepted" if raised is None else ("raised" if (c.exp != "accept" or exp == "accept") else "raised-for-another-field")
            ctx.cell(t, c.kind, outcome)
            ctx.nontrivial(t, op, c.kind, c.short())
        ctx.event("expect:%s/%s" % (exp, "raised" if raised else "accepted"))
        self.check_bystanders(op, used, "raised " + type(raised).__name__ if raised else "accepted")
        if self.cur is not None:
            try:
                after = snapshot(self.cur)
            except Exception as e:  # noqa: BLE001
                ctx.violation(None, "record cannot be observed after %s" % op, detail=self.detail(op, used, error=repr(e)[:300]))
                return False, None
            if raised is not None:
                ctx.event("unchanged_checked")
                if after != before:
                    key = "digest-setter-not-exception-safe" if op == "digest_attr" else key_hint
                    ctx.violation(key, "a rejected %s left the record changed" % op,
                                  detail=self.detail(op, used, exception=repr(raised)[:300], diff=observe.first_diff(before, after)))
        if raised is not None:
            if exp == "accept":
                ctx.violation(key_hint, "a valid value was rejected by %s" % op, detail=self.detail(op, used, exception=repr(raised)[:300]))
            return False, None
        if exp == "reject":
            key = key_hint
            bad = [(n, c) for n, c in used if c.exp == "reject"]
            holder = res if creating else self.cur
            if op != "digest_attr" and len(bad) == 1 and self.type_of(bad[0][0]) == "digest" and not isinstance(bad[0][1].value, (tuple, list, dict, set)):
                # mechanism of the (repaired) defect: a value that is neither a sequence nor a mapping yields an empty digest
                try:
                    if observe.oval(getattr(holder, bad[0][0])) == ["digest", None, None, None]:
                        key = "digest-non-sequence-silently-empty"
                except Exception:  # noqa: BLE001
                    pass
            if len(bad) == 1 and bad[0][1].kind == "fractional" and self.type_of(bad[0][0]) in ("boolean", "boolean[]"):
                key = KEY_BOOL_FRACTION
            ctx.violation(key, "a value the type cannot represent was accepted by %s" % op,
                          detail=self.detail(op, used, holds=[_safe_repr(getattr(holder, n, None)) for n, _ in bad]))
        rec = res if creating else (target if target is not None else self.cur)
        try:
            observe.assert_typed(rec, "after " + op)
            ctx.event("typed_checked")
        except observe.Untyped as e:
            ctx.violation(key_hint, "untyped slot after %s" % op, detail=self.detail(op, used, error=str(e)))
        why = secondary_state(rec)
        if why:
            ctx.violation(KEY_UINT_RAW if "unsigned" in why else key_hint, "the packed (secondary) state of an integer-like value disagrees with the value itself",
                          detail=self.detail(op, used, why=why))
        if op != "digest_attr":
            for n, c in used:
                if c.conv is None:
                    continue
                ctx.event("conv_checked:" + c.conv[0])
                if c.kind in ("naive", "bytes-for-text"):
                    ctx.event("conv_checked_kind:" + c.kind)
                why = conv_ok(getattr(res if creating else self.cur, n), c.conv)
                if why:
                    ctx.violation(key_hint, "accepted value was not converted as stated (%s)" % c.kind, detail=self.detail(op, used, slot=n, why=why))
        if creating:
            self.cur = res
        return True, res

    def detail(self, op, used, **kw):
        d = {"descriptor": [self.desc.name, self.fields] if getattr(self, "desc", None) else None, "operation": op,
             "offered": {n: [c.short(), c.exp, c.kind] for n, c in used}, "history": self.log[-12:]}
        d.update(kw)
        return d

    # -- operations
    def ctor_values(self, fname, cand, with_meta=False, stray=False):
        used = []
        for t, n in self.fields:
            if n == fname:
                c = cand
            elif self.rng.random() < 0.35:
                c = None
            elif stray and self.rng.random() < 0.3:
                c = self.pick(n)
            else:
                c = self.pick(n, only=("accept",))
            if c is not None:
                used.append((n, c))
        if with_meta:
            for m in ("_source", "_classification", "_generated"):
                if self.rng.random() < 0.25:
                    c = self.pick(m, only=("accept",) if m == "_generated" or self.rng.random() < 0.8 else ("accept", "open"))
                    if m != "_generated" and c.kind == "wrongkind":
                        continue
                    used.append((m, c))
        return used

    def do(self, op, fname, cand, stray=False):
        rng = self.rng
        if op == "ctor_args":
            used = self.ctor_values(fname, cand, stray=stray)
            by = dict(used)
            vals = [by[n].fresh() if n in by else None for _, n in self.fields]
            return self.attempt(op, lambda: self.desc(*vals), used, creating=True)
        if op == "ctor_kwargs":
            used = self.ctor_values(fname, cand, with_meta=True, stray=stray)
            kw = {n: c.fresh() for n, c in used}
            return self.attempt(op, lambda: self.desc.recordType(**kw), used, creating=True)
        if op == "assign":
            return self.attempt(op, lambda: setattr(self.cur, fname, cand.fresh()), [(fname, cand)])
        if op == "replace":
            used = [(fname, cand)]
            if stray and len(self.fields) > 1:
                other = rng.choice([n for _, n in self.fields if n != fname])
                used.append((other, self.pick(other)))
            kw = {n: c.fresh() for n, c in used}
            if "self" in kw:
                # a field called 'self' cannot be passed by keyword to a method (Python binds it to the instance): not a
                # statement about field values, left out (see ASSUMPTIONS)
                self.ctx.event("replace_skipped_field_named_self")
                return None, None
            return self.attempt(op, lambda: self.cur._replace(**kw), used, creating=True)
        if op == "from_dict":
            used = [(fname, cand)]
            d = {fname: cand.fresh(), "zz_unknown": 1}
            return self.attempt(op, lambda: self.desc.init_from_dict(d), used, creating=True)
        if op == "from_record":
            return self.from_record(fname, cand)
        if op == "group_assign":
            from flow.record import GroupedRecord, RecordDescriptor

            other = RecordDescriptor("c05/other", [("string", "zz_other")])(zz_other="o")
            members = [self.cur, other] if rng.random() < 0.5 else [other, self.cur]
            g = GroupedRecord("c05/group", members)
            # a GroupedRecord attribute of the same name (name, records, descriptors ...) hides the field by design: no view claim then
            hidden = fname in vars(g)
            view_before = None if hidden else self.group_view(g, fname)
            res = self.attempt(op, lambda: setattr(g, fname, cand.fresh()), [(fname, cand)], target=g)
            if hidden:
                self.ctx.event("group_view_hidden_by_group_attribute")
            elif view_before is not None:
                self.check_group_view(g, fname, cand, res[0], view_before)
            return res
        raise ValueError(op)

    def group_view(self, g, fname):
        """what the grouped view shows for a field: attribute access and _asdict()"""
        try:
            return [observe.oval(getattr(g, fname)), observe.oval(g._asdict().get(fname))]
        except Exception as e:  # noqa: BLE001
            self.ctx.violation(None, "the grouped view of a field cannot be read", detail=self.detail("group_assign", [], field=fname, exception=repr(e)[:300]))
            return None

    def check_group_view(self, g, fname, cand, accepted, view_before):
        """After `g.field = raw`: getattr(g, field), g._asdict()[field] and the owning member's slot are the same typed value;
        after a rejected assignment the view is what it was."""
        ctx = self.ctx
        after = self.group_view(g, fname)
        if after is None:
            return
        if not accepted:
            ctx.event("group_view_unchanged_checked")
            if after != view_before:
                ctx.violation("grouped-view-shadowed-by-raw-value", "a rejected assignment through a GroupedRecord changed what the grouped view shows",
                              detail=self.detail("group_assign", [(fname, cand)], before=view_before, after=after))
            return
        ctx.event("group_view_checked")
        member = getattr(self.cur, fname)
        mo = observe.oval(member)
        via_attr, via_dict = getattr(g, fname), g._asdict().get(fname)
        if via_attr is member and via_dict is member:
            ctx.event("group_view_identical_object")
        if after != [mo, mo]:
            ctx.violation("grouped-view-shadowed-by-raw-value", "after an assignment through a GroupedRecord the grouped view does not show the member's (coerced) value",
                          detail=self.detail("group_assign", [(fname, cand)], member_slot=mo, getattr_view=after[0], asdict_view=after[1]))
            return
        t = observe.declared_types(self.cur).get(fname)
        for what, v in (("getattr", via_attr), ("_asdict", via_dict)):
            if v is None or t is None:
                continue
            try:
                observe._check_value(fname, v, t, self.cur, "grouped view (%s)" % what)
            except observe.Untyped as e:
                ctx.violation("grouped-view-shadowed-by-raw-value", "the grouped view returns an untyped value", detail=self.detail("group_assign", [(fname, cand)], error=str(e)))

    def from_record(self, fname, cand):
        """init_from_record: the source record carries the candidate.  A valid candidate sits in a source field of the
        same type; any other one is carried by a `dynamic` source field when dynamic keeps its value (int/str/bytes)."""
        from flow.record import RecordDescriptor

        ftype = self.type_of(fname)
        v = cand.value
        if cand.exp == "accept" or ftype == "dynamic":
            stype = ftype
        elif type(v) in CARRIER_OK and not (isinstance(v, str) and cands.has_lone_surrogate(v)):
            stype = "dynamic"
        elif isinstance(v, list) and ftype.endswith("[]") and all(type(x) in CARRIER_OK for x in v):
            stype = "stringlist"
        else:
            self.ctx.event("from_record_not_carriable")
            return None, None
        sdesc = RecordDescriptor("c05/source", [(stype, fname), ("string", "zz_unknown")])
        try:
            src = sdesc.recordType(**{fname: cand.fresh(), "zz_unknown": "u"})
        except Exception as e:  # noqa: BLE001
            if cand.exp == "accept":
                self.ctx.violation(None, "a valid value was rejected while building the init_from_record source",
                                   detail=self.detail("from_record", [(fname, cand)], exception=repr(e)[:300]))
            else:
                self.ctx.event("from_record_source_rejected")
            return None, None
        return self.attempt("from_record", lambda: self.desc.init_from_record(src), [(fname, cand)], creating=True)

    def digest_attr(self, fname, which, cand):
        import flow.record.fieldtypes as ft

        d = getattr(self.cur, fname)
        if not isinstance(d, ft.digest):
            ok, _ = self.do("assign", fname, next(c for c in self.pool("digest") if c.exp == "accept"))
            d = getattr(self.cur, fname)
            if not ok or not isinstance(d, ft.digest):
                return None, None
        ok, _ = self.attempt("digest_attr", lambda: setattr(d, which, cand.fresh()), [(fname, cand)])
        if ok and cand.exp != "reject" and cand.conv is not None:
            got = getattr(getattr(self.cur, fname), which)
            want = cand.conv[1] if cand.conv[0] == "text" else None
            if (got.lower() if isinstance(got, str) else got) != (want.lower() if want else None):
                self.ctx.violation(None, "digest attribute does not hold the assigned value", detail=self.detail("digest_attr", [(fname, cand)], holds=repr(got)))
        return ok, None

    # -- end of history
    def end(self):
        from flow.record import RecordPacker

        ctx = self.ctx
        r = self.cur
        if r is None:
            return
        packer = RecordPacker()
        try:
            self.before_serialise = snapshot(r)
        except Exception:  # noqa: BLE001
            self.before_serialise = None
        try:
            data = packer.pack(r)
            ctx.event("pack_checked")
            self.unchanged_by_serialising(r, "the stream packer")
        except Exception as e:  # noqa: BLE001
            ctx.event("pack_failed")
            key = self.classify_pack_failure(r, e)
            ctx.violation(key, "a record that accepted all its assignments cannot be serialised (%s)" % type(e).__name__,
                          detail=self.detail("pack", [], exception=repr(e)[:300], record=_safe_obs(r)))
            return
        self.end_json(r)
        try:
            back = packer.unpack(data)
        except Exception as e:  # noqa: BLE001 - readability of what was written is C01's subject, only counted here
            ctx.event("decode_failed:" + type(e).__name__)
            return
        try:
            observe.assert_typed(back, "decoded")
            ctx.event("decoded_typed_checked")
        except observe.Untyped as e:
            ctx.violation(None, "untyped slot after decoding", detail=self.detail("decode", [], error=str(e)))

    def unchanged_by_serialising(self, r, who):
        """serialising is an observation: afterwards the record holds exactly what it held before (types of slots and of list
        elements included) and is still typed"""
        ctx = self.ctx
        before = getattr(self, "before_serialise", None)
        if before is None:
            return
        ctx.event("unchanged_by_serialising_checked")
        try:
            after = snapshot(r)
            observe.assert_typed(r, "after serialising")
        except Exception as e:  # noqa: BLE001
            ctx.violation("serialising-changes-the-record", "after being serialised by %s the record is no longer typed / observable" % who, detail=self.detail("serialise", [], error=repr(e)[:300]))
            return
        if after != before:
            ctx.violation("serialising-changes-the-record", "being serialised by %s changed the record" % who,
                          detail=self.detail("serialise", [], diff=observe.first_diff(before[0], after[0])))
            self.before_serialise = after

    def end_json(self, r):
        """the JSON packer is a serialiser too: whatever the stream packer serialises it must serialise as well (the deprecated
        net.ipv4.Address has no JSON form at all and is left out, see ASSUMPTIONS)"""
        from flow.record import JsonRecordPacker

        ctx = self.ctx
        if any(t.startswith("net.ipv4.") for t, _ in self.fields):
            ctx.event("json_pack_skipped_ipv4_address")
            return
        try:
            JsonRecordPacker().pack(r)
            ctx.event("json_pack_checked")
            self.unchanged_by_serialising(r, "the JSON packer")
        except Exception as e:  # noqa: BLE001
            ctx.violation(None, "a record that accepted all its assignments cannot be serialised to JSON (%s)" % type(e).__name__,
                          detail=self.detail("json pack", [], exception=repr(e)[:300], record=_safe_obs(r)))

    def classify_pack_failure(self, r, exc):
        key = self.classify_uint_raw(r)
        if key:
            return key
        return self.classify_lone_surrogate(r, exc)

    def classify_uint_raw(self, r):
        """unsigned-int-keeps-non-int-argument: an unsigned field (uint16 / uint32 / port, scalar or list element) accepted an
        in-range Decimal / Fraction and kept it as its packed value; the same record with those slots emptied serialises."""
        import flow.record.fieldtypes as ft
        from flow.record import RecordPacker

        try:
            bad = []
            for k in r.__slots__:
                v = getattr(r, k)
                for x in v if isinstance(v, list) else [v]:
                    if isinstance(x, (ft.uint16, ft.uint32)) and not isinstance(x.value, int) and type(x.value).__name__ in ("Decimal", "Fraction"):
                        bad.append(k)
            if not bad:
                return None
            RecordPacker().pack(type(r)(*[None if k in bad else getattr(r, k) for k in r.__slots__]))
            return KEY_UINT_RAW
        except Exception:  # noqa: BLE001
            return None

    def classify_lone_surrogate(self, r, exc):
        """lone-surrogate-unserialisable: the failure is a UnicodeEncodeError, a string-like slot holds text with a surrogate
        outside U+DC80..DCFF, and the same record without exactly those slots serialises."""
        from flow.record import RecordPacker

        if not isinstance(exc, UnicodeEncodeError):
            return None
        try:
            slots = lone_surrogate_slots(r)
            if not slots:
                return None
            # positional rebuild (a field may be called 'self', which _replace cannot take by keyword)
            RecordPacker().pack(type(r)(*[None if k in slots else getattr(r, k) for k in r.__slots__]))
        except Exception:  # noqa: BLE001
            return None
        return "lone-surrogate-unserialisable"


# ---- case kinds -----------------------------------------------------------------------------------
def run_sweep(ctx, case):
    rng = random.Random(case["s"])
    t, op = case["t"], case["op"]
    h = Hist(ctx, case, rng, t, nfields=rng.choice([1, 2, 3]))
    h.start()
    if op == "digest_attr":
        for which in ("md5", "sha1", "sha256"):
            for c in cands.digest_attr_cands(rng, which):
                h.digest_attr(h.focus, which, c)
                ctx.cell("digest." + which, c.kind, op)
    else:
        pool = list(h.pool(t)) + [cands.NONE]
        for c in pool:
            h.do(op, h.focus, c)
            ctx.cell(t, c.kind, op)
            if c.kind == "lone-surrogate":
                # serialise the record while it still holds the value (the next candidate would overwrite it)
                h.end()
    h.end()
    ctx.sample({"case": case, "descriptor": [h.desc.name, h.fields], "operations": h.log[:6] + ["... %d in total" % len(h.log)]}, kind="sweep:" + op)


def run_copies(ctx, case):
    """Replace-style operations of plain and grouped records (_replace with no / one / several / all members' fields, extend_record
    with and without replace / rename, init_from_record, init_from_dict(_asdict()), RecordFieldRewriter with fields / exclude /
    expression) yield a COPY: (1) assigning every field of the copy (through the copy itself, i.e. through the group for grouped
    copies) leaves the original's observation, packed bytes and repr unchanged, and assigning every field of the original leaves
    the copy unchanged; (2) no record object - the copy itself or a member record - is shared with the original.  The copies are
    shallow by design: field VALUE objects (typed lists, digests, commands, nested records) are shared, so in-place fills of such
    values are not judged here (see ASSUMPTIONS)."""
    import flow.record.base as base
    from flow.record import GroupedRecord, RecordDescriptor, extend_record
    from flow.record.stream import RecordFieldRewriter

    rng = random.Random(case["s"])
    tag = gen.rand_ident(rng)

    def make(i, nfields):
        fields = [(rng.choice(COPY_FIELD_TYPES), "m%d_f%d" % (i, j)) for j in range(nfields)]
        d = RecordDescriptor("c05/copy_%s_%d" % (tag, i), fields)
        return d.recordType(*[ordinary_value(t, rng) for t, _ in fields], _generated=BY_STAMP, _source="m%d" % i)

    grouped = rng.random() < 0.6
    members = [make(i, rng.randint(1, 4)) for i in range(rng.randint(2, 4) if grouped else 1)]
    orig = GroupedRecord("c05/copygroup_" + tag, members) if grouped else members[0]
    other = make(9, rng.randint(1, 3))

    def fields_of(r):
        recs = r.records if isinstance(r, base.GroupedRecord) else [r]
        return [(t, n) for m in recs for t, n in m._desc.get_field_tuples()]

    names = [n for _, n in fields_of(orig)]
    per_member = [[n for _, n in m._desc.get_field_tuples()] for m in members]
    types = dict((n, t) for t, n in fields_of(orig))
    ops = []
    ops.append(("_replace()", lambda: orig._replace()))
    for mi, mnames in enumerate(per_member):
        n = rng.choice(mnames)
        ops.append(("_replace(one field of member %d)" % mi, lambda n=n: orig._replace(**{n: ordinary_value(types[n], rng)})))
    ops.append(("_replace(every data field)", lambda: orig._replace(**{n: ordinary_value(types[n], rng) for n in names})))
    ops.append(("_replace(_source)", lambda: orig._replace(_source="replaced")))
    ops.append(("extend_record", lambda: extend_record(orig, [other])))
    ops.append(("extend_record(replace, name)", lambda: extend_record(orig, [other], replace=True, name="c05/copyext_" + tag)))
    ops.append(("init_from_record", lambda: RecordDescriptor("c05/copyifr_" + tag, fields_of(orig)).init_from_record(orig)))
    ops.append(("init_from_dict(_asdict())", lambda: RecordDescriptor("c05/copyifd_" + tag, fields_of(orig)).init_from_dict(orig._asdict())))
    ops.append(("rewrite(fields)", lambda: RecordFieldRewriter(fields=rng.sample(names, max(1, len(names) // 2))).rewrite(orig)))
    ops.append(("rewrite(exclude)", lambda: RecordFieldRewriter(exclude=[rng.choice(names)]).rewrite(orig)))
    ops.append(("rewrite(expression)", lambda: RecordFieldRewriter(expression="zz_new = 1").rewrite(orig)))
    if grouped:
        ops.append(("GroupedRecord(name, copies of the members)", lambda: GroupedRecord(orig.name, [m._replace() for m in orig.records])))
    chosen = rng.sample(ops, min(len(ops), 5))

    def record_objects(r):
        return [r] + (list(r.records) if isinstance(r, base.GroupedRecord) else [])

    def assign_all(target, watched, label, info):
        """assign every data field and two metadata fields of `target`; after each assignment `watched` must be what it was"""
        before = bystander_state(watched)
        tnames = [(t, n) for t, n in fields_of(target)] + [("string", "_source"), ("string", "_classification")]
        for t, n in tnames:
            if isinstance(target, base.GroupedRecord) and n in vars(target):
                continue
            try:
                setattr(target, n, ordinary_value(t, rng) if not n.startswith("_") else "assigned-" + label)
                ctx.event("copies_assignments")
            except Exception:  # noqa: BLE001
                ctx.event("copies_assignment_raised")
                continue
            ctx.ev()
            after = bystander_state(watched)
            if after != before:
                what = [x for x, a, b in zip(("observation", "digest bytes", "packed bytes", "repr"), after, before) if a != b]
                ctx.violation(KEY_COPY_ALIAS, "assigning a field of the %s changed the %s (%s)" % (label, "original" if label == "copy" else "copy", ", ".join(what)),
                              detail=dict(info, assigned_field=n, diff=observe.first_diff(before[0], after[0])))
                before = after

    for label, op in chosen:
        info = {"case": case, "operation": label, "original": repr(orig)[:300]}
        try:
            copy = op()
        except Exception as e:  # noqa: BLE001 - whether the operation is possible for this shape is not C05's subject
            ctx.event("copies_operation_raised")
            ctx.note("copies_operation_raised:" + label.split("(")[0], repr(e)[:100])
            continue
        ctx.cell("copies", "grouped" if grouped else "plain", label.split(" of member")[0])
        ctx.nontrivial("copies", grouped, label, case["s"])
        ctx.event("copies_checked")
        try:
            observe.assert_typed(copy, "copy")
        except observe.Untyped as e:
            ctx.violation(None, "untyped slot in the result of %s" % label, detail=dict(info, error=str(e)))
        shared = [type(x).__name__ for x in record_objects(copy) if any(x is y for y in record_objects(orig))]
        if shared:
            ctx.violation(KEY_COPY_ALIAS, "the result of a replace-style operation shares a record object with the original", detail=dict(info, shared=shared))
        assign_all(copy, orig, "copy", info)
        try:
            copy2 = op()
        except Exception:  # noqa: BLE001
            continue
        assign_all(orig, copy2, "original", info)
    ctx.sample({"case": case, "shape": "grouped" if grouped else "plain", "operations": [lab for lab, _ in chosen]}, kind="copies:" + ("grouped" if grouped else "plain"))


def run_samename(ctx, case):
    """Two or three descriptors that share the type NAME but not the fields (boolean fields at different names / positions) are
    written alternately (A B A, B A B ...) through ONE packer / writer each: stream packer, JSON packer, stream and jsonfile
    writers.  Every record must serialise, leave the record unchanged, and (where read back) come back typed and complete."""
    from flow.record import JsonRecordPacker, RecordDescriptor, RecordPacker, RecordReader, RecordWriter

    rng = random.Random(case["s"])
    name = "c05/samename_" + gen.rand_ident(rng)
    shapes = [
        [("boolean", "b"), ("string", "s")], [("string", "s"), ("varint", "n"), ("boolean", "flag")], [("boolean[]", "b"), ("boolean", "s")], [("uint16", "b"), ("boolean", "other")],
        [("string", "s")], [("boolean", "flag"), ("boolean", "b"), ("boolean[]", "many")],
    ]
    descs = [RecordDescriptor(name, f) for f in rng.sample(shapes, rng.choice([2, 2, 3]))]
    order = rng.choice([[0, 1, 0], [1, 0, 1], [0, 1, 0, 1, 0], [0, 0, 1, 1, 0]] + ([[0, 1, 2, 0, 2, 1, 0]] if len(descs) == 3 else []))
    recs = []
    for i in order:
        d = descs[i]
        recs.append(d.recordType(*[ordinary_value(t, rng) for t, _ in d.get_field_tuples()], _generated=BY_STAMP))
    info = {"case": case, "descriptors": [[name, list(d.get_field_tuples())] for d in descs], "order": order}
    before = [snapshot(r) for r in recs]

    def unchanged(via):
        for r, b in zip(recs, before):
            ctx.event("unchanged_by_serialising_checked")
            if snapshot(r) != b:
                ctx.violation("serialising-changes-the-record", "being serialised by %s changed a record" % via, detail=dict(info, diff=observe.first_diff(b[0], snapshot(r)[0])))
                return

    for via, mk in (("one RecordPacker", RecordPacker), ("one JsonRecordPacker", JsonRecordPacker)):
        p = mk()
        ctx.ev()
        ctx.cell("samename", via)
        try:
            packed = [p.pack(r) for r in recs]
            ctx.event("samename_packed")
        except Exception as e:  # noqa: BLE001
            ctx.violation("packer-state-keyed-by-type-name", "records of same-named descriptors written alternately through %s cannot be serialised (%s)" % (via, type(e).__name__),
                          detail=dict(info, exception=repr(e)[:300]))
            continue
        unchanged(via)
        try:
            back = [p.unpack(x) for x in packed]
            for r, o in zip(back, recs):
                observe.assert_typed(r, "read back")
                if via == "one RecordPacker" and observe.obs(r) != observe.obs(o):
                    ctx.violation("packer-state-keyed-by-type-name", "a record of a same-named descriptor came back differently from %s" % via,
                                  detail=dict(info, diff=observe.first_diff(observe.obs(o), observe.obs(r))))
                    break
            ctx.event("samename_read_back")
        except observe.Untyped as e:
            ctx.violation("packer-state-keyed-by-type-name", "untyped slot after reading back via %s" % via, detail=dict(info, error=str(e)))
        except Exception as e:  # noqa: BLE001 - the packer decodes with its own latest registration; decoding details are C03's / C14's subject
            ctx.event("samename_unpack_raised:" + type(e).__name__)
    n = ctx.evaluations
    for via, path in (("RecordWriter(.records)", os.path.join(ctx.state["tmp"], "sn%d.records" % n)), ("RecordWriter(.jsonl)", os.path.join(ctx.state["tmp"], "sn%d.jsonl" % n))):
        ctx.ev()
        ctx.cell("samename", via)
        try:
            w = RecordWriter(path)
            try:
                for r in recs:
                    w.write(r)
                w.flush()
            finally:
                w.close()
            ctx.event("samename_written")
        except Exception as e:  # noqa: BLE001
            ctx.violation("packer-state-keyed-by-type-name", "records of same-named descriptors cannot be written alternately through %s (%s)" % (via, type(e).__name__),
                          detail=dict(info, exception=repr(e)[:300]))
            continue
        unchanged(via)
        try:
            rd = RecordReader(path)
            try:
                got = list(rd)
            finally:
                rd.close()
            if len(got) != len(recs):
                ctx.violation("packer-state-keyed-by-type-name", "%d records written through %s, %d read back" % (len(recs), via, len(got)), detail=info)
            for r in got:
                observe.assert_typed(r, "read back via " + via)
        except observe.Untyped as e:
            ctx.violation("packer-state-keyed-by-type-name", "untyped slot after reading back via %s" % via, detail=dict(info, error=str(e)))
        except Exception as e:  # noqa: BLE001
            ctx.event("samename_read_raised:" + type(e).__name__)
        finally:
            try:
                os.unlink(path)
            except OSError:
                pass
    ctx.nontrivial("samename", case["s"])
    ctx.sample({"case": case, "order": order, "descriptors": info["descriptors"]}, kind="samename")


def run_redeclared(ctx, case):
    """A descriptor that declares one field name twice with different types (directly, or through descriptor.extend() with an existing
    name).  The LAST declaration is the one the descriptor reports (fields / get_all_fields): the record class must enforce that
    same type - a value of the reported type is accepted and the slot holds an instance of it, after construction, assignment,
    _replace and a stream round trip."""
    from flow.record import RecordDescriptor, RecordPacker

    rng = random.Random(case["s"])
    t1, t2 = case["t1"], case["t2"]
    name = "c05/redeclared_" + gen.rand_ident(rng)
    variants = [("direct", lambda: RecordDescriptor(name, [(t1, "x"), ("string", "mid"), (t2, "x")])),
                ("direct-adjacent", lambda: RecordDescriptor(name + "_a", [("varint", "n"), (t1, "x"), (t2, "x")])),
                ("extend", lambda: RecordDescriptor(name + "_e", [(t1, "x"), ("string", "mid")]).extend([(t2, "x")])),
                ("three", lambda: RecordDescriptor(name + "_t", [(t2, "x"), (t1, "x"), (t2, "x"), ("string", "mid")]))]
    for label, mk in variants:
        info = {"case": case, "variant": label}
        try:
            d = mk()
        except Exception as e:  # noqa: BLE001 - refusing a repeated name altogether would be fine too
            ctx.event("redeclared_descriptor_refused")
            continue
        ctx.ev()
        ctx.cell("redeclared", t1, t2)
        ctx.nontrivial("redeclared", t1, t2, label)
        reported = d.get_all_fields()["x"]
        info["reported_type"] = reported.typename
        ctx.event("redeclared_checked")

        def typed(rec, where):
            v = rec.x
            if v is not None:
                try:
                    observe._check_value("x", v, reported.type, rec, where)
                except observe.Untyped as e:
                    ctx.violation("redeclared-field-enforces-another-type", "a re-declared field holds a value that is not of the type the descriptor reports (%s)" % where,
                                  detail=dict(info, error=str(e), fields=list(d.get_field_tuples())))
                    return False
            return True

        try:
            r = d(x=ordinary_value(reported.typename, rng))
        except Exception as e:  # noqa: BLE001
            ctx.violation("redeclared-field-enforces-another-type", "a value of the type the descriptor reports for a re-declared field was rejected by construction",
                          detail=dict(info, exception=repr(e)[:300], fields=list(d.get_field_tuples())))
            continue
        typed(r, "after construction")
        for op, fn in (("assignment", lambda: setattr(r, "x", ordinary_value(reported.typename, rng)) or r), ("_replace", lambda: r._replace(x=ordinary_value(reported.typename, rng))),
                       ("init_from_dict", lambda: d.init_from_dict({"x": ordinary_value(reported.typename, rng)}))):
            try:
                typed(fn(), "after " + op)
            except Exception as e:  # noqa: BLE001
                ctx.violation("redeclared-field-enforces-another-type", "a value of the reported type was rejected by %s" % op, detail=dict(info, exception=repr(e)[:300]))
        try:
            p = RecordPacker()
            back = p.unpack(p.pack(r))
            observe.assert_typed(back, "decoded")
            ctx.event("redeclared_roundtrip")
        except observe.Untyped as e:
            ctx.violation("redeclared-field-enforces-another-type", "untyped slot after a stream round trip of a record with a re-declared field", detail=dict(info, error=str(e)))
        except Exception as e:  # noqa: BLE001
            ctx.event("redeclared_roundtrip_raised:" + type(e).__name__)
    ctx.sample({"case": case}, kind="redeclared")


def flat_view_typed(ctx, g, where, info):
    """every field of the grouped record's flat descriptor: the value the group shows is unset or of the type the flat descriptor
    declares for that name (list elements included); attribute access and _asdict() agree.  -> True when fine"""
    ok = True
    try:
        declared = {f.name: f.type for f in g._desc.get_all_fields().values()}
        as_dict = g._asdict()
    except Exception as e:  # noqa: BLE001
        ctx.violation(KEY_GROUP_FLAT, "the flat view of a grouped record cannot be read (%s)" % where, detail=dict(info, exception=repr(e)[:300]))
        return False
    for name, t in declared.items():
        if name in vars(g):  # hidden by an attribute of the group object itself (name, records, ...)
            continue
        ctx.event("group_flat_fields_checked")
        try:
            v = getattr(g, name)
            if v is not None:
                observe._check_value(name, v, t, g.records[0], "flat view (%s)" % where)
            if name in as_dict and observe.oval(as_dict[name]) != observe.oval(v):
                raise observe.Untyped("_asdict()[%r] differs from the attribute" % name)
        except observe.Untyped as e:
            ok = False
            ctx.violation(KEY_GROUP_FLAT, "a grouped record shows a value that is not of the type its flat descriptor declares (%s)" % where,
                          detail=dict(info, field=name, declared=getattr(t, "__name__", str(t)), error=str(e)))
        except Exception as e:  # noqa: BLE001
            ok = False
            ctx.violation(KEY_GROUP_FLAT, "a flat field of a grouped record cannot be read (%s)" % where, detail=dict(info, field=name, exception=repr(e)[:300]))
    return ok


def run_groupoverlap(ctx, case):
    """2-4 member records share a field name with different types (plus the reserved names, which every member has).  After
    construction, assignment through the group, _replace and a stream / JSON round trip every flat field's value must be of the type
    the flat descriptor declares."""
    from flow.record import GroupedRecord, JsonRecordPacker, RecordDescriptor, RecordPacker

    rng = random.Random(case["s"])
    t1, t2, pos = case["t1"], case["t2"], case["pos"]
    tag = gen.rand_ident(rng)

    def member(i, shared_type, extra_shared=None):
        own = [(rng.choice(OVERLAP_FAMILIES), "m%d_%s" % (i, x)) for x in ("a", "b")]
        fields = list(own)
        fields.insert(min(pos, len(fields)), (shared_type, "shared"))
        if extra_shared:
            fields.append(extra_shared)
        d = RecordDescriptor("c05/overlap_%s_%d" % (tag, i), fields)
        return d.recordType(*[ordinary_value(t, rng) for t, _ in fields], _generated=BY_STAMP, _source="m%d" % i)

    nmem = rng.randint(2, 4)
    types = [t1, t2] + [rng.choice(OVERLAP_FAMILIES) for _ in range(nmem - 2)]
    second_shared = ("string", "also") if rng.random() < 0.5 else None
    members = []
    try:
        for i, st in enumerate(types):
            es = None
            if second_shared and i in (0, nmem - 1):
                es = (second_shared[0] if i == 0 else "varint", "also")
            members.append(member(i, st, es))
        g = GroupedRecord("c05/overlapgroup_" + tag, members)
    except Exception as e:  # noqa: BLE001
        ctx.violation(None, "a grouped record of members with overlapping field names could not be built", detail={"case": case, "exception": repr(e)[:300]})
        return
    info = {"case": case, "members": [[m._desc.name, list(m._desc.get_field_tuples())] for m in members], "flat": list(g._desc.get_field_tuples())}
    ctx.ev()
    ctx.cell("groupoverlap", t1, t2)
    ctx.nontrivial("groupoverlap", t1, t2, pos, case["s"])
    flat_view_typed(ctx, g, "after construction", info)
    observe.assert_typed(g, "grouped members")
    # assignment through the group: a value of the first member's type (whatever the outcome, the view must stay typed)
    for name, t in (("shared", t1), ("also", "string")):
        if name == "also" and not second_shared:
            continue
        try:
            setattr(g, name, ordinary_value(t, rng))
            ctx.event("groupoverlap_assign_accepted")
        except Exception:  # noqa: BLE001
            ctx.event("groupoverlap_assign_raised")
        flat_view_typed(ctx, g, "after assigning %r through the group" % name, info)
    try:
        g2 = g._replace(shared=ordinary_value(t1, rng))
        ctx.event("groupoverlap_replace_accepted")
        flat_view_typed(ctx, g2, "after _replace", dict(info, flat=list(g2._desc.get_field_tuples())))
    except Exception:  # noqa: BLE001
        ctx.event("groupoverlap_replace_raised")
    # round trips
    try:
        p = RecordPacker()
        back = p.unpack(p.pack(g))
        ctx.event("groupoverlap_stream_roundtrip")
        flat_view_typed(ctx, back, "after a stream round trip", dict(info, flat=list(back._desc.get_field_tuples())))
        observe.assert_typed(back, "decoded grouped members")
    except Exception as e:  # noqa: BLE001
        ctx.violation(KEY_GROUP_FLAT, "a grouped record with overlapping member fields does not survive a stream round trip", detail=dict(info, exception=repr(e)[:300]))
    if not any(t.startswith("net.ipv4.") for m in members for t, _ in m._desc.get_field_tuples()):
        try:
            j = JsonRecordPacker()
            text = j.pack(g)
            ctx.event("groupoverlap_json_packed")
        except Exception as e:  # noqa: BLE001
            ctx.violation(KEY_GROUP_FLAT, "a grouped record with overlapping member fields cannot be serialised to JSON", detail=dict(info, exception=repr(e)[:300]))
            text = None
        if text is not None:
            try:
                jb = j.unpack(text)
                observe.assert_typed(jb, "JSON round trip of the flat view")
                ctx.event("groupoverlap_json_roundtrip")
            except observe.Untyped as e:
                ctx.violation(KEY_GROUP_FLAT, "the JSON round trip of a grouped record yields an untyped slot", detail=dict(info, error=str(e)))
            except Exception as e:  # noqa: BLE001 - decoding JSON is C14's subject (command / bytes-in-dynamic ... are not readable): counted only
                ctx.event("groupoverlap_json_unpack_raised:" + type(e).__name__)
    ctx.sample({"case": case, "flat": info["flat"]}, kind="groupoverlap")


def run_pairs(ctx, case):
    """thorough tier: every ordered pair (c1, c2) of candidates of one type's pool as a history of two operations (op1 with c1, then
    op2 with c2) - exhaustive for histories of length two over the pool, for four operation pairs."""
    rng = random.Random(case["s"])
    t = case["t"]
    op1, op2 = case["ops"]
    h = Hist(ctx, case, rng, t, nfields=rng.choice([1, 2]))
    h.start()
    pool = list(h.pool(t)) + [cands.NONE]
    big = [c for c in pool if isinstance(c.value, (bytes, str, list)) and len(c.value) > 5000]
    pool = [c for c in pool if c not in big]  # very large values are covered by the sweeps; here they only cost time
    n = 0
    for c1 in pool:
        for c2 in pool:
            h.do(op1, h.focus, c1)
            h.do(op2, h.focus, c2)
            n += 1
        h.end()
    ctx.event("pairs_enumerated", n)
    ctx.cell("pairs", t, op1 + ">" + op2)
    ctx.note("pairs_exhaustive_over_pool", True)
    ctx.sample({"case": case, "pool": len(pool), "pairs": n}, kind="pairs:" + op1 + ">" + op2)


def run_hist(ctx, case):
    rng = random.Random(case["s"])
    t = case["t"]
    deep = bool(case.get("deep"))
    h = Hist(ctx, case, rng, t, nfields=rng.choice([1, 2, 3, 4, 5, 6]) if deep else None)
    h.start()
    nops = rng.choice([rng.randint(1, 8), rng.randint(9, 24), rng.randint(25, 40)]) if deep else rng.randint(1, 8)
    ctx.event("history_length:%s" % ("1-8" if nops <= 8 else ("9-24" if nops <= 24 else "25-40")))
    for _ in range(nops):
        fname = h.focus if rng.random() < 0.7 else rng.choice([n for _, n in h.fields])
        ftype = h.type_of(fname)
        if ftype == "digest" and rng.random() < 0.3:
            which = rng.choice(["md5", "sha1", "sha256"])
            h.digest_attr(fname, which, rng.choice(cands.digest_attr_cands(rng, which)))
            continue
        op = rng.choice(OPS)
        c = cands.NONE if rng.random() < 0.05 else h.pick(fname)
        h.do(op, fname, c, stray=rng.random() < 0.3)
    h.end()
    ctx.event("histories")
    ctx.sample({"case": case, "descriptor": [h.desc.name, h.fields], "operations": h.log[:10]}, kind="hist:" + ("list" if t.endswith("[]") else "scalar"))


def template_globals(twin_desc):
    """global names the generated __init__ of a (twin) record class looks up: a field of that name would shadow them"""
    import dis

    try:
        code = twin_desc.recordType.__init__.__code__
        return {i.argval for i in dis.get_instructions(code) if i.opname in ("LOAD_GLOBAL", "LOAD_NAME")}
    except Exception:  # noqa: BLE001
        return set()


def run_shadow(ctx, case):
    """A field named like a name the generated code might look up.  The same scenario runs on a twin descriptor whose
    field is renamed; absolute demands: valid values are accepted, slots typed, the stamped _version is the library's
    RECORD_VERSION, the record serialises and decodes."""
    import flow.record.base as base
    from flow.record import RecordDescriptor, RecordPacker

    name, t = case["name"], case["t"]
    rng = random.Random(subseed("c05", "shadow", name, t))
    twin = RecordDescriptor("c05/shadowtwin", [(t, name + "_x"), ("string", "other")])
    key = KEY_SHADOW if name in template_globals(twin) else None
    ctx.event("shadow_name_is_template_global" if key else "shadow_name_harmless")
    h = Hist(ctx, case, rng, t, fields=[(t, name), ("string", "other")], descname="c05/shadow")
    valid = [c for c in h.pool(t) if c.exp == "accept"]
    text_like = [c for c in valid if isinstance(c.value, str) and not c.value.strip().lstrip("-").isdigit()] or valid

    def stamped(rec, op):
        v = getattr(rec, "_version", None)
        ctx.event("stamp_checked")
        if not (isinstance(v, int) and int(v) == base.RECORD_VERSION):
            ctx.violation(key, "_version of a freshly constructed record is not RECORD_VERSION",
                          detail=h.detail(op, [], version=repr(v), expected=base.RECORD_VERSION))

    ok, rec = h.start(key_hint=key)
    if ok:
        stamped(rec, "ctor_default")
    for op in ("ctor_kwargs", "ctor_args", "from_dict", "replace", "assign", "replace"):
        c = rng.choice(text_like if rng.random() < 0.7 else valid)
        if op == "ctor_kwargs":
            kw = {name: c.fresh(), "other": "o"}
            ok, rec = h.attempt(op, lambda: h.desc.recordType(**kw), [(name, c)], creating=True, key_hint=key)
        elif op == "ctor_args":
            v = c.fresh()
            ok, rec = h.attempt(op, lambda: h.desc(v, "o"), [(name, c)], creating=True, key_hint=key)
        elif op == "from_dict":
            d = {name: c.fresh()}
            ok, rec = h.attempt(op, lambda: h.desc.init_from_dict(d), [(name, c)], creating=True, key_hint=key)
        elif op == "replace":
            if h.cur is None:
                continue
            kw = {"other": "p"} if rng.random() < 0.5 or name == "self" else {name: c.fresh()}
            used = [(name, c)] if name in kw else []
            ok, rec = h.attempt(op, lambda: h.cur._replace(**kw), used, creating=True, key_hint=key)
        else:
            if h.cur is None:
                continue
            ok, rec = h.attempt(op, lambda: setattr(h.cur, name, c.fresh()), [(name, c)], key_hint=key)
            rec = None
        if ok and rec is not None:
            stamped(rec, op)
    if h.cur is None:
        return
    p = RecordPacker()
    try:
        back = p.unpack(p.pack(h.cur))
        observe.assert_typed(back, "decoded")
        stamped(back, "decode")
        ctx.event("shadow_roundtrip_checked")
    except Exception as e:  # noqa: BLE001
        ctx.violation(key, "a record with a field named %r cannot be serialised and decoded" % name, detail=h.detail("roundtrip", [], exception=repr(e)[:300]))
    ctx.cell("shadow", name, t)
    ctx.sample({"case": case, "operations": h.log[:8]}, kind="shadow")


# ---- values that already are instances of the datetime field type --------------------------------------
def dt_route_value(route, rng):
    """-> value obtained from the field type's own (inherited) constructors"""
    import copy
    import pickle

    import flow.record.fieldtypes as ft

    dt = ft.datetime
    utc = _dt.timezone.utc
    plus2 = _dt.timezone(_dt.timedelta(hours=2))
    y, mo, d, h, mi, sec = rng.randint(1971, 2037), rng.randint(1, 12), rng.randint(1, 28), rng.randint(0, 23), rng.randint(0, 59), rng.randint(0, 59)
    text = "%04d-%02d-%02d %02d:%02d:%02d" % (y, mo, d, h, mi, sec)
    base = lambda: dt(y, mo, d, h, mi, sec)  # noqa: E731
    table = {
        "fieldwise": base,
        "fieldwise_us": lambda: dt(y, mo, d, h, mi, sec, rng.randrange(10**6)),
        "fieldwise_tzinfo_none": lambda: dt(y, mo, d, h, mi, sec, tzinfo=None),
        "fieldwise_aware": lambda: dt(y, mo, d, h, mi, sec, tzinfo=plus2),
        "strptime": lambda: dt.strptime(text, "%Y-%m-%d %H:%M:%S"),
        "strptime_tz": lambda: dt.strptime(text + " +0200", "%Y-%m-%d %H:%M:%S %z"),
        "combine": lambda: dt.combine(_dt.date(y, mo, d), _dt.time(h, mi, sec)),
        "combine_aware": lambda: dt.combine(_dt.date(y, mo, d), _dt.time(h, mi, sec, tzinfo=utc)),
        "fromisoformat": lambda: dt.fromisoformat(text.replace(" ", "T")),
        "fromisoformat_tz": lambda: dt.fromisoformat(text.replace(" ", "T") + "+05:30"),
        "fromtimestamp": lambda: dt.fromtimestamp(rng.randint(10**8, 2 * 10**9)),
        "fromtimestamp_tz": lambda: dt.fromtimestamp(rng.randint(10**8, 2 * 10**9), utc),
        "utcfromtimestamp": lambda: dt.utcfromtimestamp(rng.randint(10**8, 2 * 10**9)),
        "utcnow": dt.utcnow,
        "now": dt.now,
        "now_tz": lambda: dt.now(plus2),
        "today": dt.today,
        "fromordinal": lambda: dt.fromordinal(rng.randint(720000, 740000)),
        "fromisocalendar": lambda: dt.fromisocalendar(y, rng.randint(1, 52), rng.randint(1, 7)),
        "replace_tzinfo_none": lambda: base().replace(tzinfo=None),
        "replace_year": lambda: base().replace(year=2000 + rng.randint(0, 30)),
        "min": lambda: dt.min,
        "max": lambda: dt.max,
        "plus_timedelta": lambda: base() + _dt.timedelta(days=rng.randint(1, 400), seconds=rng.randint(0, 86399)),
        "astimezone": lambda: base().astimezone(_dt.timezone(_dt.timedelta(hours=3))),
        "copy": lambda: copy.copy(base()),
        "pickle": lambda: pickle.loads(pickle.dumps(base())),
        "from_std_naive": lambda: dt(_dt.datetime(y, mo, d, h, mi, sec)),
        "from_text": lambda: dt(text.replace(" ", "T")),
    }
    return table[route]()


def roundtrip_datetimes(ctx, h, rec, slots, key, op, used):
    """accepted => serialisable by the stream and the JSON packer, and the timestamps read back equal"""
    from flow.record import JsonRecordPacker, RecordPacker

    want = [observe.oval(getattr(rec, n)) for n in slots]
    for fmt, packer in (("stream", RecordPacker()), ("json", JsonRecordPacker())):
        ctx.event("dtroute_roundtrip_checked:" + fmt)
        try:
            back = packer.unpack(packer.pack(rec))
            got = [observe.oval(getattr(back, n)) for n in slots]
        except Exception as e:  # noqa: BLE001
            ctx.violation(key, "a record holding an accepted timestamp cannot be serialised and read back (%s)" % fmt, detail=h.detail(op, used, exception=repr(e)[:300]))
            continue
        if got != want:
            ctx.violation(key, "an accepted timestamp does not round-trip through the %s format" % fmt, detail=h.detail(op, used, written=want, read=got))


def run_dtroute(ctx, case):
    """Values that already are instances of fieldtypes.datetime (the field stores them without converting again), obtained from
    every constructor route of the type: whatever is accepted must be timezone aware, serialise (stream, JSON) and read back equal."""
    import flow.record.fieldtypes as ft

    rng = random.Random(case["s"])
    route = case["route"]
    h = Hist(ctx, case, rng, "datetime", fields=[("datetime", "ts"), ("datetime[]", "stamps"), ("string", "other")], descname="c05/dtroute")
    h.start()
    key = KEY_DT_REPLACE if route == "replace_tzinfo_none" else None
    for op in ("ctor_kwargs", "assign", "replace", "from_dict", "assign_list", "ctor_list", "replace_list"):
        try:
            v = dt_route_value(route, rng)
        except Exception as e:  # noqa: BLE001 - the route itself is not available for these arguments: counted, not judged
            ctx.event("dtroute_value_not_buildable")
            ctx.note("dtroute_value_not_buildable:" + route, repr(e)[:120])
            continue
        ctx.event("dtroute_instance_of_fieldtype" if isinstance(v, ft.datetime) else "dtroute_plain_datetime")
        listy = op.endswith("_list")
        value = [v, dt_route_value("fieldwise_aware", rng)] if listy else v
        slot = "stamps" if listy else "ts"
        conv = ("list", [("aware",), ("aware",)]) if listy else ("aware",)
        c = cands.Cand(value, "accept", "fieldtype-instance", conv)
        used = [(slot, c)]
        if op in ("ctor_kwargs", "ctor_list"):
            ok, rec = h.attempt(op, lambda: h.desc.recordType(**{slot: c.fresh(), "other": "o"}), used, creating=True, key_hint=key)
        elif op in ("assign", "assign_list"):
            ok, _ = h.attempt(op, lambda: setattr(h.cur, slot, c.fresh()), used, key_hint=key)
            rec = h.cur
        elif op in ("replace", "replace_list"):
            ok, rec = h.attempt(op, lambda: h.cur._replace(**{slot: c.fresh()}), used, creating=True, key_hint=key)
        else:
            ok, rec = h.attempt(op, lambda: h.desc.init_from_dict({slot: c.fresh()}), used, creating=True, key_hint=key)
        ctx.cell("dtroute", route, op)
        if ok:
            ctx.event("dtroute_accepted")
            roundtrip_datetimes(ctx, h, rec, ["ts", "stamps"], key, op, used)
    h.end()
    ctx.sample({"case": case, "operations": h.log[:6]}, kind="dtroute:" + route)


# ---- non-finite floats through the JSON serialisers -----------------------------------------------------------
def run_jsonfloat(ctx, case):
    """float / float[] fields accept nan / inf / -inf (also from text): such records must be written by every JSON serialiser
    (JsonRecordPacker, JsonfileWriter, RecordWriter on .json / .jsonl / jsonfile://) and come back with floats of the same class."""
    import math

    from flow.record import JsonRecordPacker, RecordDescriptor, RecordReader, RecordWriter
    from flow.record.adapter.jsonfile import JsonfileWriter

    rng = random.Random(case["s"])
    d = RecordDescriptor("c05/jsonfloat", [("string", "name"), ("float", "ratio"), ("float[]", "samples")])
    nonfinite = [float("nan"), float("inf"), float("-inf"), "nan", "inf", "-inf", "Infinity", "-Infinity", "NaN", gen._f("7ff80000deadbeef"), gen._f("fff8000000000000")]
    finite = [0.0, -0.0, 1.5, 1e308, 5e-324, "2.5"]
    recs = []
    for i in range(rng.randint(2, 5)):
        r = d(name="r%d" % i)
        scalar = rng.choice(nonfinite if rng.random() < 0.7 else finite)
        lst = [rng.choice(nonfinite + finite) for _ in range(rng.randint(0, 3))]
        how = rng.choice(["assign", "ctor", "replace"])
        try:
            if how == "assign":
                r.ratio = scalar
                r.samples = list(lst)
            elif how == "ctor":
                r = d(name="r%d" % i, ratio=scalar, samples=list(lst))
            else:
                r = r._replace(ratio=scalar, samples=list(lst))
        except Exception as e:  # noqa: BLE001
            ctx.violation(None, "a float value (incl. non-finite, from text) was rejected", detail={"case": case, "scalar": repr(scalar), "list": repr(lst), "exception": repr(e)[:200]})
            return
        observe.assert_typed(r, "jsonfloat")
        recs.append(r)

    def cls(x):
        return "nan" if math.isnan(x) else ("+inf" if x == math.inf else ("-inf" if x == -math.inf else "finite:%r" % float(x)))

    def shape(r):
        return [None if r.ratio is None else cls(r.ratio), [cls(x) for x in (r.samples or [])]]

    want = [shape(r) for r in recs]
    nonfin = sum(1 for w in want if "finite" not in str(w[0]) or any("finite" not in x for x in w[1]))
    ctx.event("jsonfloat_records_with_nonfinite", nonfin)
    info = {"case": case, "records": [repr(r)[:200] for r in recs]}

    def judge(via, got_records):
        ctx.ev()
        ctx.event("jsonfloat_serialiser_checked:" + via)
        ctx.cell("jsonfloat", via)
        ctx.nontrivial("jsonfloat", via, case["s"])
        if len(got_records) != len(recs):
            ctx.violation(None, "%d records written through %s, %d read back" % (len(recs), via, len(got_records)), detail=info)
            return
        for r, w in zip(got_records, want):
            try:
                observe.assert_typed(r, "read back via " + via)
                g = shape(r)
            except Exception as e:  # noqa: BLE001
                ctx.violation(None, "a record read back via %s is not typed" % via, detail=dict(info, error=repr(e)[:200]))
                return
            if g != w:
                ctx.violation(None, "a float field changed its class (nan / +inf / -inf / finite value) via %s" % via, detail=dict(info, written=w, read=g))

    # 1. the packer itself
    try:
        p = JsonRecordPacker()
        judge("JsonRecordPacker", [p.unpack(p.pack(r)) for r in recs])
    except Exception as e:  # noqa: BLE001
        ctx.violation(None, "a record that accepted all its assignments cannot be serialised by JsonRecordPacker (%s)" % type(e).__name__, detail=dict(info, exception=repr(e)[:300]))
    # 2. the writers
    tmp = ctx.state["tmp"]
    n = ctx.evaluations
    targets = [("RecordWriter(.jsonl)", os.path.join(tmp, "f%d.jsonl" % n)), ("RecordWriter(.json)", os.path.join(tmp, "f%d.json" % n)),
               ("RecordWriter(jsonfile://)", "jsonfile://" + os.path.join(tmp, "g%d.out" % n)), ("JsonfileWriter", os.path.join(tmp, "h%d.json" % n)),
               ("RecordWriter(jsonfile://?descriptors=false)", "jsonfile://" + os.path.join(tmp, "i%d.out" % n) + "?descriptors=false")]
    for via, target in rng.sample(targets, 3):
        path = target.split("://", 1)[-1].split("?")[0]
        try:
            w = JsonfileWriter(target) if via == "JsonfileWriter" else RecordWriter(target)
            try:
                for r in recs:
                    w.write(r)
                w.flush()
            finally:
                w.close()
        except Exception as e:  # noqa: BLE001
            ctx.violation(None, "a record that accepted all its assignments cannot be written through %s (%s)" % (via, type(e).__name__), detail=dict(info, exception=repr(e)[:300]))
            continue
        finally:
            pass
        try:
            if "descriptors=false" in target:
                with open(path) as f:
                    lines = [ln for ln in f if ln.strip()]
                ctx.ev()
                ctx.event("jsonfloat_serialiser_checked:" + via)
                ctx.cell("jsonfloat", via)
                if len(lines) != len(recs):
                    ctx.violation(None, "%d records written through %s, %d lines in the file" % (len(recs), via, len(lines)), detail=info)
            else:
                rd = RecordReader("jsonfile://" + path)
                try:
                    judge(via, list(rd))
                finally:
                    rd.close()
        except Exception as e:  # noqa: BLE001
            ctx.violation(None, "what %s wrote cannot be read back (%s)" % (via, type(e).__name__), detail=dict(info, exception=repr(e)[:300]))
        finally:
            try:
                os.unlink(path)
            except OSError:
                pass
    ctx.sample({"case": case, "records": info["records"][:3]}, kind="jsonfloat")


# ---- the decode route: malformed packed values arriving in a stream ------------------------------------------------
def run_decode(ctx, case):
    """Stream frames crafted with the independent reference encoder carry a packed value the field type cannot represent (a
    digest triple with a hash of the wrong length / in the wrong slot / as hex text / of the wrong arity; an out-of-range unsigned
    integer; a boolean 2; an address integer outside the address space; malformed network text).  The reader must either refuse,
    or hand out a record whose field is a well-formed value of the declared type that serialises again (stream and JSON)."""
    import io

    from flow.record import JsonRecordPacker, RecordPacker, RecordStreamReader

    from .. import refcodec
    from .. import refmsgpack as mp

    class RawEncoder(refcodec.Encoder):
        def wire(self, v):
            if isinstance(v, list) and v and v[0] == "rawwire":
                return v[1]
            return super().wire(v)

    rng = random.Random(case["s"])
    what = case["what"]
    md5, sha1, sha256 = bytes(rng.randrange(256) for _ in range(16)), bytes(rng.randrange(256) for _ in range(20)), bytes(rng.randrange(256) for _ in range(32))
    B = mp.Bin
    if what in ("digest", "digest[]", "grouped-digest"):
        variants = [
            ("valid", [B(md5), B(sha1), B(sha256)], True), ("valid-partial", [None, B(sha1), None], True), ("valid-empty", [None, None, None], True),
            ("md5-truncated", [B(md5[:15]), None, None], False), ("md5-one-byte-too-long", [B(md5 + b"\x00"), None, None], False),
            ("sha256-in-sha1-slot", [None, B(sha256), None], False), ("sha1-in-md5-slot", [B(sha1), None, None], False), ("sha256-truncated", [None, None, B(sha256[:31])], False),
            ("md5-as-hex-text", [mp.Str.of(md5.hex()), None, None], False), ("md5-hex-as-bytes", [B(md5.hex().encode()), None, None], False),
            ("sha1-one-byte", [None, B(b"\x01"), None], False), ("md5-as-int", [5, None, None], False),
        ]
        ftype = "digest[]" if what == "digest[]" else "digest"
    elif what in ("uint16", "uint32"):
        top = 0xFFFF if what == "uint16" else 0xFFFFFFFF
        variants = [("valid", 80, True), ("valid-max", top, True), ("max+1", top + 1, False), ("minus-one", -1, False), ("far-outside", 2**40, False)]
        ftype = what
    elif what == "boolean":
        variants = [("valid-true", True, True), ("valid-0", 0, True), ("two", 2, False), ("minus-one", -1, False), ("255", 255, False)]
        ftype = what
    elif what == "net.ipaddress":
        variants = [("valid", 3232235777, True), ("valid-v6", refcodec.Encoder().int_wire(2**100), True), ("minus-one", -1, False),
                    ("beyond-128-bit", refcodec.Encoder().int_wire(2**128 + 5), False), ("text-garbage", mp.Str.of("not an ip"), False)]
        ftype = what
    else:
        variants = [("valid", mp.Str.of("10.0.0.0/8"), True), ("prefix-33", mp.Str.of("10.0.0.0/33"), False), ("garbage", mp.Str.of("not a net"), False)]
        ftype = what
    stamp = ["dt", 2022, 3, 4, 5, 6, 7, 8, 0]

    def rec_obs(name, fields, values):
        return ["rec", name, fields, [[n, v] for (_, n), v in zip(fields, values)] + [["_source", None], ["_classification", None], ["_generated", stamp], ["_version", ["int", "varint", 1]]]]

    for label, wire, wellformed in variants:
        raw = ["rawwire", [wire] if ftype.endswith("[]") else wire]
        fields = [["string", "name"], [ftype, "f"]]
        o = rec_obs("c05/decode_" + what.replace(".", "_").replace("[]", "_list").replace("-", "_"), fields, [["str", "string", label], raw])
        if what == "grouped-digest":
            o = ["grouped", "c05/decodegroup", [o, rec_obs("c05/decode_other", [["varint", "n"]], [["int", "varint", 1]])]]
        try:
            enc = RawEncoder(rng)
            enc.record(o)
            data = enc.getvalue()
        except Exception as e:  # noqa: BLE001
            ctx.event("decode_frame_not_encodable")
            ctx.note("decode_frame_not_encodable:" + what + "/" + label, repr(e)[:120])
            continue
        ctx.ev()
        ctx.cell("decode", what, label)
        ctx.nontrivial("decode", what, label, case["s"])
        info = {"case": case, "variant": label, "field_type": ftype, "stream": data}
        try:
            got = list(RecordStreamReader(io.BytesIO(data)))
            err = None
        except Exception as e:  # noqa: BLE001 - refusing while decoding is the expected outcome for malformed values
            got, err = None, e
        ctx.event("decode:%s/%s" % ("wellformed" if wellformed else "malformed", "refused" if got is None else "decoded"))
        if got is None:
            if wellformed:
                ctx.violation(None, "a well-formed packed value was refused by the stream reader", detail=dict(info, exception=repr(err)[:300]))
            continue
        if len(got) != 1:
            ctx.violation(None, "the crafted stream holds one record, the reader produced %d" % len(got), detail=info)
            continue
        r = got[0]
        member = r.records[0] if what == "grouped-digest" else r
        # accepted by decoding => typed, well-formed, serialisable again
        problems = []
        try:
            observe.assert_typed(r, "decoded")
            v = member.f
            for x in v if isinstance(v, list) else [v]:
                if ftype.startswith("digest") and x is not None:
                    for attr, n in (("md5", 32), ("sha1", 40), ("sha256", 64)):
                        hx = getattr(x, attr)
                        if hx is not None and not (isinstance(hx, str) and len(hx) == n and all(ch in "0123456789abcdefABCDEF" for ch in hx)):
                            problems.append("%s reads as %r" % (attr, hx))
                elif ftype in ("uint16", "uint32") and x is not None and not 0 <= int(x) <= (0xFFFF if ftype == "uint16" else 0xFFFFFFFF):
                    problems.append("holds %r" % int(x))
                elif ftype == "boolean" and x is not None and int(x) not in (0, 1):
                    problems.append("holds %r" % int(x))
            for fmt, packer in (("stream", RecordPacker()), ("json", JsonRecordPacker())):
                back = packer.unpack(packer.pack(r))
                if fmt == "stream" and observe.obs_nometa(observe.obs(back), ()) != observe.obs(r):
                    problems.append("differs after a %s round trip" % fmt)
        except Exception as e:  # noqa: BLE001
            problems.append("raises %s" % repr(e)[:200])
        ctx.event("decode_accepted_value_checked")
        if problems:
            ctx.violation(None if wellformed else "malformed-packed-value-accepted-by-decoding",
                          "a %s packed value came out of the stream reader as a value the type cannot represent / that cannot be serialised again" % ("well-formed" if wellformed else "malformed"),
                          detail=dict(info, problems=problems[:5]))
    ctx.sample({"case": case, "variants": [v[0] for v in variants]}, kind="decode:" + what)


# ---- unusual but plausible input TYPES ------------------------------------------------------------------------
def unusual_inputs(rng):
    """[(label, value, mutator-or-None)]: `mutator()` changes / releases the caller's object after it was handed over"""
    import array
    import collections
    import decimal
    import enum
    import fractions
    import ipaddress
    import pathlib
    import uuid

    class StrSub(str):
        pass

    class BytesSub(bytes):
        pass

    class FloatSub(float):
        pass

    class Level(enum.IntEnum):
        LOW = 1
        HTTP = 80

    class PathLike:
        def __fspath__(self):
            return "/path/like"

    out = []
    content = bytes(rng.randrange(1, 256) for _ in range(rng.randint(2, 8)))

    def ba():
        b = bytearray(content)

        def mutate():
            b[0] ^= 0xFF
            b.extend(b"tail")

        return b, mutate

    def mv_of_bytearray():
        b = bytearray(content)
        m = memoryview(b)

        def mutate():
            b[0] ^= 0xFF
            m.release()

        return m, mutate

    def mv_plain():
        m = memoryview(content)
        return m, m.release

    def mv_slice():
        b = bytearray(b"x" + content + b"y")
        m = memoryview(b)[1:-1]

        def mutate():
            b[1] ^= 0xFF
            m.release()

        return m, mutate

    def mv_released():
        m = memoryview(content)
        m.release()
        return m, None

    def arr():
        a = array.array("B", content)

        def mutate():
            a[0] ^= 0xFF

        return a, mutate

    for label, mk in (("bytearray", ba), ("memoryview-of-bytearray", mv_of_bytearray), ("memoryview", mv_plain), ("memoryview-slice", mv_slice), ("memoryview-released", mv_released),
                      ("array.array", arr)):
        v, m = mk()
        out.append((label, v, m))
    plain = [
        ("bytes-subclass", BytesSub(content)), ("str-subclass", StrSub("1.2.3.4")), ("str-subclass-text", StrSub("some text")), ("IntEnum", Level.HTTP), ("bool", True),
        ("float-subclass", FloatSub(1.0)), ("Decimal-integral", decimal.Decimal(80)), ("Decimal-fractional", decimal.Decimal("1.5")), ("Fraction-integral", fractions.Fraction(80)),
        ("Fraction", fractions.Fraction(3, 2)), ("PurePosixPath", pathlib.PurePosixPath("/a/b")), ("PureWindowsPath", pathlib.PureWindowsPath("c:/a")), ("date", _dt.date(2020, 1, 2)),
        ("time", _dt.time(1, 2, 3)), ("os.PathLike", PathLike()), ("IPv4Address", ipaddress.IPv4Address("1.2.3.4")), ("IPv6Address", ipaddress.ip_address("::1")),
        ("IPv4Network", ipaddress.ip_network("10.0.0.0/8")), ("IPv4Interface", ipaddress.ip_interface("10.0.0.1/8")), ("UUID", uuid.UUID(int=rng.getrandbits(128))), ("complex", 1 + 0j),
        ("namedtuple", collections.namedtuple("N", "a b c")(None, None, None)), ("deque", collections.deque([1])), ("range", range(2)),
    ]
    out += [(label, v, None) for label, v in plain]
    return out


LIST_CONTAINERS = ["tuple", "generator", "set", "frozenset", "dict_keys", "dict_values", "deque", "map"]


def in_container(kind, elem):
    import collections

    if kind == "tuple":
        return (elem,)
    if kind == "generator":
        return (x for x in [elem])
    if kind == "set":
        return {elem}
    if kind == "frozenset":
        return frozenset([elem])
    if kind == "dict_keys":
        return {elem: 1}.keys()
    if kind == "dict_values":
        return {1: elem}.values()
    if kind == "deque":
        return collections.deque([elem])
    return map(lambda x: x, [elem])


def record_views(r):
    """everything that must not change when the caller's input object is modified afterwards: observation, stream bytes, JSON text"""
    from flow.record import JsonRecordPacker, RecordPacker

    return [observe.obs(r), digest_bins(r), RecordPacker().pack(r).hex(), JsonRecordPacker().pack(r)]


def run_inputtypes(ctx, case):
    """Unusual but plausible input types (buffers, subclasses, enums, Decimal / Fraction, pathlib / ipaddress / uuid objects, dates;
    containers other than list for T[] fields) offered to one field type.  Whether they are accepted is left open (except: a bytes
    subclass is bytes, pathlib paths are paths); accepted => typed slot, serialisable (stream and JSON), the record can be hashed, and
    the held value is decoupled from the caller's object: modifying / releasing the input afterwards changes nothing."""
    rng = random.Random(case["s"])
    t = case["t"]
    is_list = t.endswith("[]")
    base_t = t[:-2] if is_list else t
    h = Hist(ctx, case, rng, t, nfields=rng.choice([1, 2]))
    h.start()
    ops = ["assign", "ctor_kwargs", "ctor_args", "replace", "from_dict", "group_assign"]
    no_json = any(ft_.startswith("net.ipv4.") for ft_, _ in h.fields)
    for label, value, mutate in unusual_inputs(rng):
        exp, conv = "open", None
        if label == "bytes-subclass" and base_t == "bytes":
            exp, conv = "accept", ("bytes", bytes(value))
        if label in ("PurePosixPath", "PureWindowsPath") and base_t == "path":
            exp = "accept"
        if is_list:
            valid = [c for c in h.pool(base_t) if c.exp == "accept"]
            value = [rng.choice(valid).fresh(), value] if valid and rng.random() < 0.5 else [value]
            conv = ("list", [None] * (len(value) - 1) + [conv]) if conv else None
        c = cands.Cand(value, exp, "input:" + label, conv)
        if case.get("allops") and mutate is None:
            # thorough: the same input through every operation kind (inputs with a mutator are one-shot: the buffer is changed afterwards)
            for op in ops[:-1]:
                okx, _ = h.do(op, h.focus, c)
                ctx.cell(t, "input:" + label, op)
                if okx:
                    ctx.event("inputtypes_accepted")
                    h.end()
        ok, _ = h.do(rng.choice(ops), h.focus, c)
        ctx.cell(t, "input:" + label, "accepted" if ok else "raised")
        if not ok:
            continue
        ctx.event("inputtypes_accepted")
        rec = h.cur
        info = h.detail("inputtypes", [(h.focus, c)])
        try:
            hash(rec)
            ctx.event("inputtypes_hash_checked")
        except Exception as e:  # noqa: BLE001
            ctx.violation(KEY_ALIAS_INPUT if mutate or "memoryview" in label else None, "a record that accepted an unusual input value cannot be hashed", detail=dict(info, exception=repr(e)[:200]))
        if mutate is not None and not no_json:
            try:
                before = record_views(rec)
            except Exception as e:  # noqa: BLE001
                ctx.violation(h.classify_pack_failure(rec, e), "a record that accepted an unusual input value cannot be observed / serialised", detail=dict(info, exception=repr(e)[:200]))
                continue
            mutate()
            ctx.event("inputtypes_decoupling_checked")
            try:
                after = record_views(rec)
            except Exception as e:  # noqa: BLE001
                ctx.violation(KEY_ALIAS_INPUT, "after the caller modified / released its input object the record can no longer be observed / serialised",
                              detail=dict(info, exception=repr(e)[:200]))
                continue
            if after != before:
                what = [n for n, x, y in zip(("observation", "digest bytes", "stream bytes", "JSON text"), after, before) if x != y]
                ctx.violation(KEY_ALIAS_INPUT, "the record changed (%s) when the caller modified its input object after handing it over" % ", ".join(what),
                              detail=dict(info, stream_before=before[2][:120], stream_after=after[2][:120]))
        h.end()  # serialisable while it holds the value
    if is_list:
        valid = [c for c in h.pool(base_t) if c.exp == "accept" and c.kind != "none"]
        for kind in LIST_CONTAINERS:
            elem = rng.choice(valid).fresh()
            try:
                value = in_container(kind, elem)
            except TypeError:  # unhashable element for set / dict views
                ctx.event("inputtypes_container_not_buildable")
                continue
            c = cands.Cand(value, "open", "container:" + kind, None)
            ok, _ = h.do(rng.choice(["assign", "ctor_kwargs", "replace", "from_dict"]), h.focus, c)
            ctx.cell(t, "container:" + kind, "accepted" if ok else "raised")
            if ok:
                ctx.event("inputtypes_accepted")
                h.end()
    h.end()
    ctx.sample({"case": case, "descriptor": [h.desc.name, h.fields], "operations": h.log[:8]}, kind="inputtypes:" + ("list" if is_list else "scalar"))


# ---- cold process: one field type, nothing else imported ----------------------------------------------------------
def run_cold(ctx, case):
    """A child interpreter imports only `from flow.record import RecordDescriptor`, builds ONE record type with one field of the
    given type and serialises a few ordinary records by the JSON packer, the stream packer and every writer adapter that needs no
    third-party module (stream file, jsonfile, csvfile, line, text, sqlite), in a seeded order.  The same job runs in this (warm)
    interpreter: outcome and output of every step must be the same.  A failing / slow child is inconclusive, never a verdict."""
    from .. import child_c05

    rng = random.Random(case["s"])
    t = case["t"]
    order = ["json", "stream"] + [w for w, _ in child_c05.WRITERS]
    if "rot" in case:
        r = case["rot"] % (len(order) + 1)
        if r < len(order):
            first = order[r]
            rest = [x for x in order if x != first]
            rng.shuffle(rest)
            order = [first] + rest  # this serialiser is the first thing the fresh interpreter does
        else:
            rng.shuffle(order)
    else:
        rng.shuffle(order)
    ctx.cell("cold-first-step", order[0])
    n = ctx.evaluations
    dirs = []
    for who in ("warm", "cold"):
        d = os.path.join(ctx.state["tmp"], "%s-%d-%d" % (who, n, rng.randrange(10**6)))
        os.makedirs(d)
        dirs.append(d)
    job = {"type": t, "seed": case["s"], "order": order}
    env = dict(os.environ)
    pp = env.get("PYTHONPATH", "")
    if VERIF_DIR not in pp.split(os.pathsep):
        env["PYTHONPATH"] = VERIF_DIR + (os.pathsep + pp if pp else "")
    env.setdefault("PYTHONHASHSEED", "0")
    try:
        p = subprocess.run([sys.executable, "-W", "ignore", "-m", "verif.child_c05"], input=json.dumps(dict(job, dir=dirs[1])), env=env, cwd=VERIF_DIR, capture_output=True,
                           text=True, timeout=WORKER_TIMEOUT_S)
    except subprocess.TimeoutExpired:
        ctx.require(False, "a C05 cold-process child exceeded its %d s watchdog" % WORKER_TIMEOUT_S)
        return
    ctx.event("cold_children_run")
    line = next((ln for ln in p.stdout.splitlines() if ln.startswith("C05CHILD ")), None)
    if p.returncode != 0 or line is None:
        ctx.require(False, "a C05 cold-process child failed (exit %s): %s" % (p.returncode, p.stderr[-400:]))
        return
    cold = json.loads(line[len("C05CHILD "):])
    repo = os.path.realpath(os.environ.get("VERIF_REPO", "/repo"))
    ctx.require(os.path.realpath(cold["flow_record_file"]).startswith(repo + os.sep), "C05 cold child imported flow.record from %s, not from %s" % (cold["flow_record_file"], repo))
    warm = child_c05.run_job(dict(job, dir=dirs[0]))
    ctx.note_add("cold_children_with_net_modules_preloaded", 1 if cold.get("net_modules_at_start") else 0)
    info = {"case": case, "order": order, "net_modules_loaded_in_child_at_start": cold.get("net_modules_at_start")}
    if len(cold["steps"]) != len(warm["steps"]):
        ctx.violation("cold-process-outcome-differs", "the cold child stopped at another step than the warm run", detail=dict(info, cold=[s_[:2] for s_ in cold["steps"]], warm=[s_[:2] for s_ in warm["steps"]]))
        return
    for cs, ws in zip(cold["steps"], warm["steps"]):
        ctx.ev()
        ctx.event("cold_steps_compared")
        ctx.cell("cold", t, cs[0])
        ctx.nontrivial("cold", t, cs[0], case["s"])
        if cs[:2] != ws[:2]:
            ctx.violation("cold-process-outcome-differs", "serialising a record of one field type in a fresh interpreter has another outcome than in a warm one (%s)" % cs[0],
                          detail=dict(info, step=cs[0], cold=cs[1], warm=ws[1]))
        elif json.loads(json.dumps(cs[2])) != json.loads(json.dumps(ws[2])):
            ctx.violation("cold-process-outcome-differs", "a fresh interpreter serialises a record differently from a warm one (%s)" % cs[0],
                          detail=dict(info, step=cs[0], cold=str(cs[2])[:300], warm=str(ws[2])[:300]))
    ok_steps = [s_[0] for s_ in warm["steps"] if s_[1] == "ok"]
    ctx.event("cold_steps_ok_in_warm", len(ok_steps))
    ctx.sample({"case": case, "order": order, "steps": [s_[:2] for s_ in cold["steps"]]}, kind="cold:" + ("list" if t.endswith("[]") else "scalar"))


def run_locale(ctx, case):
    """bytes -> text must not depend on the locale / interpreter text configuration: the same sweep (verif/worker_c05.sweep) runs in
    a worker process under the given environment and in this process; valid UTF-8 must come out as the decoded text, invalid
    bytes as surrogate escapes, everywhere the same."""
    from .. import worker_c05

    label, overrides = LOCALE_ENVS[case["env"]]
    env = dict(os.environ)
    for k in ("LC_ALL", "LANG", "LC_CTYPE", "PYTHONUTF8", "PYTHONCOERCECLOCALE", "PYTHONIOENCODING"):
        env.pop(k, None)
    if overrides:
        env.update(overrides)
    pp = env.get("PYTHONPATH", "")
    if VERIF_DIR not in pp.split(os.pathsep):
        env["PYTHONPATH"] = VERIF_DIR + (os.pathsep + pp if pp else "")
    try:
        p = subprocess.run([sys.executable, "-W", "ignore", "-m", "verif.worker_c05"], env=env, cwd=VERIF_DIR, capture_output=True, timeout=WORKER_TIMEOUT_S)
    except subprocess.TimeoutExpired:
        ctx.require(False, "a C05 locale worker exceeded its %d s watchdog" % WORKER_TIMEOUT_S)
        return
    ctx.event("locale_workers_run")
    stdout = p.stdout.decode("ascii", "replace")
    line = next((ln for ln in stdout.splitlines() if ln.startswith("C05WORKER ")), None)
    if p.returncode != 0 or line is None:
        ctx.violation(None, "the bytes-to-text sweep failed in a worker under %s (exit %s)" % (label, p.returncode),
                      detail={"stderr": p.stderr.decode("ascii", "replace")[-2500:], "stdout": stdout[-300:]})
        return
    out = json.loads(line[len("C05WORKER "):])
    info = out["info"]
    repo = os.path.realpath(os.environ.get("VERIF_REPO", "/repo"))
    ctx.require(os.path.realpath(info["flow_record_file"]).startswith(repo + os.sep), "C05 worker imported flow.record from %s, not from %s" % (info["flow_record_file"], repo))
    if overrides and case["env"] == 0:
        ctx.require(all(info["env"].get(k) == v for k, v in overrides.items()), "environment was not propagated to a C05 locale worker: %r" % (info["env"],))
        ctx.require(info["fs_encoding"].lower().replace("-", "") not in ("utf8",) and not info["utf8_mode"],
                    "the C-locale worker still runs with a UTF-8 text configuration (%r): locale dependence not observable" % (info,))
    ctx.note("locale_worker:" + label, {k: info[k] for k in ("fs_encoding", "preferred_encoding", "utf8_mode")})
    here = worker_c05.sweep()
    there = out["sweep"]
    if len(here) != len(there):
        ctx.violation(None, "the worker ran a different sweep", detail={"here": len(here), "there": len(there)})
        return
    for h, t in zip(here, there):
        ctx.ev()
        ctx.event("locale_conversions_checked")
        ftype, slot, op, rawhex = h[:4]
        raw = bytes.fromhex(rawhex)
        ctx.cell("locale", label, ftype if slot == "f" else slot, op)
        ctx.nontrivial("locale", case["env"], ftype, slot, op, rawhex)
        d = {"environment": label, "worker": info, "field_type": ftype, "slot": slot, "operation": op, "input": raw, "in_process": h[4:], "in_worker": t[4:]}
        if h != t:
            ctx.violation(KEY_LOCALE, "a bytes value is converted differently under another locale / text configuration", detail=d)
            continue
        if ftype != "uri":
            want = ["accepted", [ord(c) for c in raw.decode("utf-8", "surrogateescape")]]
            if t[4:] != want:
                ctx.violation(None, "bytes were not converted to text with surrogate escapes", detail=dict(d, expected=want))
    ctx.sample({"case": case, "environment": label, "worker": info, "conversions": len(there)}, kind="locale:" + label)


def run_suite(ctx, case):
    """thorough tier: the repository's own test-suite as an extra workload, with the typed-slot invariant installed as a
    post-condition of every record construction (verif/suite_plugin.py).  Only the monitor's observations are judged, not
    the test results; when pytest cannot be run the sub-check is noted as not run (the generated workload decides)."""
    import json
    import os
    import shutil
    import subprocess
    import sys
    import tempfile

    from ..core import VERIF_DIR

    repo = os.environ.get("VERIF_REPO", "/repo")
    tests = os.path.join(repo, "tests")
    if not os.path.isdir(tests):
        ctx.note("suite_plugin", "not run: no tests directory in %s" % repo)
        return
    tmp = tempfile.mkdtemp(prefix="frv-c05-suite-", dir=os.environ.get("VERIF_TMP", "/var/tmp"))
    out = os.path.join(tmp, "suite.json")
    env = dict(os.environ)
    env["PYTHONPATH"] = os.pathsep.join(([repo] if os.path.realpath(repo) != "/repo" else []) + [VERIF_DIR])
    env["PYTHONDONTWRITEBYTECODE"] = "1"
    env["VERIF_SUITE_OUT"] = out
    env["PATH"] = os.path.dirname(sys.executable) + os.pathsep + env.get("PATH", "")
    cmd = [sys.executable, "-W", "ignore", "-m", "pytest", "-q", "-p", "no:cacheprovider", "-p", "verif.suite_plugin", "--continue-on-collection-errors",
           "-o", "cache_dir=" + os.path.join(tmp, "cache"), "--basetemp", os.path.join(tmp, "bt"), "tests"]
    try:
        try:
            p = subprocess.run(cmd, cwd=repo, env=env, stdout=subprocess.PIPE, stderr=subprocess.STDOUT, timeout=600)
        except subprocess.TimeoutExpired:
            ctx.note("suite_plugin", "not finished within 600 s")
            return
        if not os.path.exists(out):
            ctx.note("suite_plugin", "not run: pytest produced no monitor summary (exit %s): %s" % (p.returncode, p.stdout[-300:].decode("utf-8", "replace")))
            return
        with open(out) as f:
            st = json.load(f)
    finally:
        shutil.rmtree(tmp, ignore_errors=True)
    ctx.ev()
    ctx.event("suite_constructions_checked", st.get("checked", 0))
    ctx.event("suite_record_classes_instrumented", st.get("classes_instrumented", 0))
    ctx.note("suite_plugin", {"pytest_exitstatus": st.get("pytest_exitstatus"), "constructions": st.get("constructions"), "checked": st.get("checked"),
                              "record_list_none_elements_tolerated": st.get("record_list_none_elements", 0), "monitor_errors": st.get("monitor_errors", [])[:3]})
    ctx.nontrivial("suite", st.get("checked", 0) > 0)
    for v in st.get("violations", []):
        ctx.violation(None, "untyped slot after a record construction during the repository's own test-suite", detail=v)


def equal_twins(base_t, rng):
    """-> [(valid value v, [(kind label, wrong-kind value c with c == v and hash(c) == hash(v))], fresh?)]"""
    import decimal
    import fractions

    def numeric(n):
        out = [("Decimal", decimal.Decimal(n)), ("Fraction", fractions.Fraction(n))]
        if float(n) == n:
            out.insert(0, ("float", float(n)))
        return out

    if base_t in ("net.ipaddress", "net.IPAddress", "net.ipnetwork", "net.IPNetwork", "net.ipv4.Address"):
        fresh = [rng.randrange(2**24, 2**32) for _ in range(3)]
        if base_t != "net.ipv4.Address":
            fresh.append(rng.randrange(2**33, 2**52))
        out = [(n, numeric(n), True) for n in fresh]
        out += [(3232235777, numeric(3232235777), False), (1, numeric(1), False), (True, numeric(1), False), (0, numeric(0), False)]
        return out
    if base_t == "bytes":
        out = []
        for _ in range(3):
            b = bytes(rng.randrange(256) for _ in range(rng.randint(1, 12)))
            out.append((b, [("memoryview", memoryview(b))], True))
        out.append((b"", [("memoryview", memoryview(b""))], False))
        return out
    if base_t == "boolean":
        return [(v, numeric(int(v)), False) for v in (True, 1, False, 0)]
    raise KeyError(base_t)


def run_history(ctx, case):
    """Acceptance must depend on the kind of the value offered, not on what was accepted before.  For the kinds the statement
    names (address, network, bytes, boolean) a wrong-kind value c is offered that is equal to, and hashes like, a valid value v
    (float / Decimal / Fraction of an address integer, 1.0 for 1 / True, a memoryview of bytes): before v was ever offered
    (fresh random v), after v was accepted, and in the order v, c only.  Whatever the library decides for such a c, it must
    decide the same in all positions (a cache keyed by the raw argument makes the outcome depend on the history)."""
    rng = random.Random(case["s"])
    t = case["t"]
    is_list = t.endswith("[]")
    base_t = t[:-2] if is_list else t
    h = Hist(ctx, case, rng, t, nfields=rng.choice([1, 2]))
    h.start()
    ops = ["assign", "ctor_kwargs", "ctor_args", "replace", "from_dict", "group_assign"]
    outcomes = {}

    def offer(value, exp, kind, label, phase):
        if is_list:
            pre = [c.fresh() for c in rng.sample([c for c in h.pool(base_t) if c.exp == "accept"], rng.choice([0, 0, 1]))]
            value = pre + [value]
        c = cands.Cand(value, exp, kind)
        op = rng.choice(ops)
        ok, _ = h.do(op, h.focus, c)
        if ok is None:
            return
        ctx.cell(t, "history:" + label, phase)
        if label != "valid":
            outcomes.setdefault(label, []).append((phase, bool(ok), op, _safe_repr(value)[:60]))

    for v, twins, fresh in equal_twins(base_t, rng):
        for label, c in twins:
            try:
                if not (c == v and hash(c) == hash(v)):
                    continue
            except Exception:  # noqa: BLE001
                continue
            ctx.event("history_twin_pairs")
            if fresh and rng.random() < 0.7:
                offer(c, "open", "equal-wrongkind", label, "before-equal-valid")
                offer(v, "accept", "valid", "valid", "valid")
                offer(c, "open", "equal-wrongkind", label, "after-equal-valid")
            else:
                offer(v, "accept", "valid", "valid", "valid")
                offer(c, "open", "equal-wrongkind", label, "after-equal-valid" if fresh else "after-equal-valid-common")
    for label, seen in outcomes.items():
        ctx.event("history_consistency_checked")
        if len({ok for _, ok, _, _ in seen}) > 1:
            ctx.violation(KEY_HISTORY, "acceptance of a wrong-kind value (%s for %s) depends on what was accepted before" % (label, t),
                          detail=h.detail("history", [], kind=label, offers=[list(x) for x in seen][:12]))
    h.end()
    ctx.sample({"case": case, "descriptor": [h.desc.name, h.fields], "operations": h.log[:8]}, kind="history:" + base_t)


def run_alias(ctx, case):
    """Several records of one descriptor leave a digest / T[] field unset; the default object the library puts there must be
    the record's own: filling it in place through ONE record (digest setters, append / extend / insert on the typed list)
    changes that record as requested and leaves the deep observation of every other record unchanged.  Only defaults the
    library creates are judged: _replace / init_from_record sources are throw-away records outside the observed set (a
    _replace copy shares the values of its source by design), and the one record built with explicit values gets its own."""
    from flow.record import RecordDescriptor, RecordPacker

    rng = random.Random(case["s"])
    t = case["t"]
    second = "digest" if t != "digest" else rng.choice([x for x in ALIAS_TYPES if x != "digest"])
    fa, fb, fo = gen.unique_names(rng, 3, avoid=("zz_other", "zz_unknown", "self"))
    fields = [(t, fa), (second, fb), ("string", fo)]
    rng.shuffle(fields)
    name = "c05/alias_" + gen.rand_ident(rng)
    desc = RecordDescriptor(name, fields)
    h = Hist(ctx, case, rng, t, fields=fields, descname=name)
    h.focus = fa
    info = {"case": case, "descriptor": [name, fields]}

    def explicit(ftype):
        c = rng.choice([c for c in h.pool(ftype) if c.exp == "accept" and c.kind not in ("empty", "none")])
        return c.fresh()

    routes = {
        "ctor": lambda: desc(),
        "ctor_kwargs": lambda: desc.recordType(**{fo: "x"}),
        "from_dict": lambda: desc.init_from_dict({fo: "y", "zz_unknown": 1}),
        "replace_of_throwaway": lambda: desc()._replace(**{fo: "z"}),
        "from_record_of_throwaway": lambda: desc.init_from_record(RecordDescriptor("c05/alias_src", [("string", fo)])(**{fo: "w"})),
        "equal_descriptor": lambda: RecordDescriptor(name, list(fields))(),
    }
    chosen = rng.sample(sorted(routes), rng.randint(2, 6 if case.get("deep") else 4))
    recs = []
    for r in chosen:
        try:
            recs.append((r, routes[r]()))
        except Exception as e:  # noqa: BLE001
            ctx.violation(None, "a record with unset fields could not be built (%s)" % r, detail=dict(info, exception=repr(e)[:300]))
            return
    try:
        recs.append(("explicit_values", desc.recordType(**{fa: explicit(t), fb: explicit(second), fo: "e"})))
    except Exception as e:  # noqa: BLE001
        ctx.violation(None, "valid values rejected", detail=dict(info, exception=repr(e)[:300]))
        return
    for _, r in recs:
        observe.assert_typed(r, "alias build")

    # every defaulted slot holds an object of its own
    unset = [(r, rec) for r, rec in recs if r != "explicit_values"]
    for fname in (fa, fb):
        objs = [(r, getattr(rec, fname)) for r, rec in unset]
        for i in range(len(objs)):
            for j in range(i + 1, len(objs)):
                if objs[i][1] is None or objs[j][1] is None:
                    continue
                ctx.event("alias_identity_checked")
                if objs[i][1] is objs[j][1]:
                    ctx.violation("default-object-shared-between-records", "two records hold the very same default object in an unset field",
                                  detail=dict(info, field=fname, records=[objs[i][0], objs[j][0]]))

    nmut = rng.randint(1, 10 if case.get("deep") else 3)
    for _ in range(nmut):
        mi = rng.randrange(len(recs))
        mroute, m = recs[mi]
        fname = rng.choice([fa, fb])
        ftype = h.type_of(fname)
        holder = getattr(m, fname)
        if holder is None:
            ctx.event("alias_slot_is_none")  # no default object (keyword-field classes): nothing can be shared
            continue
        before = [snapshot(rec) for _, rec in recs]
        want = None
        try:
            if ftype == "digest":
                which = rng.choice(["md5", "sha1", "sha256"])
                val = gen._hex(rng, {"md5": 16, "sha1": 20, "sha256": 32}[which])
                what = "%s.%s = %r" % (fname, which, val)
                setattr(holder, which, val)
                o = observe.oval(holder)
                want = list(before[mi][0][3][[k for k, _ in before[mi][0][3]].index(fname)][1] or ["digest", None, None, None])
                want[{"md5": 1, "sha1": 2, "sha256": 3}[which]] = val.lower()
            else:
                elem_cls = type(holder).__type__
                base_t = ftype[:-2]

                def elem():
                    v = explicit(base_t)
                    return v if base_t == "record" or isinstance(v, elem_cls) else elem_cls(v)

                how = rng.choice(["append", "extend", "insert"])
                new = [elem() for _ in range(1 if how != "extend" else rng.randint(1, 3))]
                what = "%s.%s(%s)" % (fname, how, ", ".join(_safe_repr(x)[:40] for x in new))
                old_obs = [observe.oval(x) for x in holder]
                if how == "append":
                    holder.append(new[0])
                    exp_list = old_obs + [observe.oval(new[0])]
                elif how == "extend":
                    holder.extend(new)
                    exp_list = old_obs + [observe.oval(x) for x in new]
                else:
                    holder.insert(0, new[0])
                    exp_list = [observe.oval(new[0])] + old_obs
                want = ["list", ftype, exp_list]
        except Exception as e:  # noqa: BLE001
            ctx.violation(None, "in-place fill of a valid value raised", detail=dict(info, mutation=what, exception=repr(e)[:300]))
            return
        ctx.ev()
        ctx.event("op:inplace_" + ("digest" if ftype == "digest" else "list"))
        ctx.cell(ftype, "inplace", mroute)
        ctx.nontrivial("alias", t, case["s"], what[:60])
        after = [snapshot(rec) for _, rec in recs]
        got = observe.slots_of(after[mi][0]).get(fname)
        if got != want:
            ctx.violation(None, "an in-place fill did not change the record as requested", detail=dict(info, mutation=what, route=mroute, expected=want, holds=got))
        try:
            observe.assert_typed(m, "after in-place fill")
            RecordPacker().pack(m)
            ctx.event("alias_mutated_typed_and_packed")
        except Exception as e:  # noqa: BLE001
            ctx.violation(None, "record no longer typed / serialisable after an in-place fill with a value of the element type",
                          detail=dict(info, mutation=what, exception=repr(e)[:300]))
        for i, (route, rec) in enumerate(recs):
            if i == mi:
                continue
            ctx.event("alias_others_checked")
            if after[i] != before[i]:
                ctx.violation("default-object-shared-between-records", "filling a field of one record in place changed another record",
                              detail=dict(info, mutation=what, mutated_record=mroute, changed_record=route, diff=observe.first_diff(before[i], after[i])))
        # a record built after the fill starts unset again
        try:
            later = desc()
        except Exception as e:  # noqa: BLE001
            ctx.violation(None, "a record with unset fields could not be built", detail=dict(info, exception=repr(e)[:300]))
            return
        ctx.event("alias_later_checked")
        for f2 in (fa, fb):
            v = getattr(later, f2)
            if not observe.is_unset(observe.oval(v)):
                ctx.violation("default-object-shared-between-records", "a record built after an in-place fill of another record does not start unset",
                              detail=dict(info, mutation=what, field=f2, holds=_safe_repr(v)))
            elif v is not None and any(v is getattr(rec, f2) for _, rec in recs):
                ctx.violation("default-object-shared-between-records", "a new record holds the very same default object as an existing one", detail=dict(info, field=f2))
    ctx.sample({"case": case, "descriptor": [name, fields], "records": [r for r, _ in recs]}, kind="alias:" + ("digest" if t == "digest" else "list"))


def execute(ctx, case):
    k = case["k"]
    if k == "samename":
        run_samename(ctx, case)
    elif k == "redeclared":
        run_redeclared(ctx, case)
    elif k == "copies":
        run_copies(ctx, case)
    elif k == "groupoverlap":
        run_groupoverlap(ctx, case)
    elif k == "pairs":
        run_pairs(ctx, case)
    elif k == "cold":
        run_cold(ctx, case)
    elif k == "inputtypes":
        run_inputtypes(ctx, case)
    elif k == "dtroute":
        run_dtroute(ctx, case)
    elif k == "jsonfloat":
        run_jsonfloat(ctx, case)
    elif k == "decode":
        run_decode(ctx, case)
    elif k == "locale":
        run_locale(ctx, case)
    elif k == "history":
        run_history(ctx, case)
    elif k == "alias":
        run_alias(ctx, case)
    elif k == "suite":
        run_suite(ctx, case)
    elif k == "sweep":
        run_sweep(ctx, case)
    elif k == "hist":
        run_hist(ctx, case)
    else:
        run_shadow(ctx, case)


def finish(ctx):
    ctx.state["reach"].into(ctx)
    ev = ctx.events
    ctx.note("field_types_covered", len(cands.TYPES) if ctx.shard == 0 else 0)
    if ctx.evaluations == 0:
        return
    ctx.require(ev.get("expect:accept/accepted", 0) > 0, "no valid candidate was ever accepted")
    ctx.require(ev.get("expect:reject/raised", 0) > 0, "no unrepresentable candidate was ever offered and rejected")
    ctx.require(ev.get("unchanged_checked", 0) > 0, "the unchanged-after-rejection monitor never ran")
    ctx.require(ev.get("typed_checked", 0) > 0, "the typed-slot monitor never ran")
    ctx.require(ev.get("pack_checked", 0) > 0, "the serialisation check never ran")
    ctx.require(ev.get("decoded_typed_checked", 0) > 0, "the typed-slot monitor never ran on a decoded record")
    ctx.require(ev.get("conv_checked_kind:naive", 0) > 0, "no naive timestamp conversion was observed")
    ctx.require(ev.get("conv_checked_kind:bytes-for-text", 0) > 0, "no bytes-to-text conversion was observed")
    ctx.require(ev.get("stamp_checked", 0) > 0, "the _version stamp check never ran")
    ctx.require(ev.get("alias_others_checked", 0) > 0, "the shared-default monitor (other records unchanged after an in-place fill) never ran")
    ctx.require(ev.get("alias_identity_checked", 0) > 0, "the default-object identity check never ran")
    ctx.require(ev.get("history_consistency_checked", 0) > 0, "the history-independence monitor never ran")
    ctx.require(ev.get("json_pack_checked", 0) > 0, "the JSON serialisation check never ran")
    ctx.require(ev.get("unchanged_by_serialising_checked", 0) > 0, "the serialising-leaves-the-record-unchanged monitor never ran")
    if any(c.startswith("samename/") for c in ctx.cells):
        ctx.require(ev.get("samename_packed", 0) > 0 and ev.get("samename_written", 0) > 0, "the same-name descriptor family serialised nothing")
    if any(c.startswith("redeclared/") for c in ctx.cells):
        ctx.require(ev.get("redeclared_checked", 0) > 0, "the re-declared field family checked nothing")
    if any(c.startswith("copies/") for c in ctx.cells):
        ctx.require(ev.get("copies_assignments", 0) > 0, "the copy-aliasing monitor performed no assignment")
    if any(c.startswith("groupoverlap/") for c in ctx.cells):
        ctx.require(ev.get("group_flat_fields_checked", 0) > 0, "the grouped flat-view monitor never ran")
    ctx.require(any("/lookalike/" in c for c in ctx.cells), "no Unicode look-alike candidate was offered")
    if any(c.startswith("cold/") for c in ctx.cells):
        ctx.require(ev.get("cold_steps_ok_in_warm", 0) > 0, "the cold-process family compared no successfully serialised step")
    if any("/input:" in c for c in ctx.cells):
        ctx.require(ev.get("inputtypes_accepted", 0) > 0, "the unusual-input family saw no accepted value")
    for fam, counter in (("dtroute", "dtroute_accepted"), ("jsonfloat", "jsonfloat_records_with_nonfinite"), ("decode", "decode:malformed/refused")):
        if any(c.startswith(fam + "/") for c in ctx.cells):
            ctx.require(ev.get(counter, 0) > 0, "the '%s' family ran without its deciding counter %s" % (fam, counter))
    ctx.note_add("families_run:dtroute", ev.get("dtroute_accepted", 0))
    ctx.note_add("families_run:jsonfloat", sum(v for k, v in ev.items() if k.startswith("jsonfloat_serialiser_checked")))
    ctx.note_add("families_run:decode", sum(v for k, v in ev.items() if k.startswith("decode:")))
    ctx.require(ev.get("bystander_checked", 0) > 0, "the bystander monitor (other records unchanged after every operation) never ran")
    ctx.require(ev.get("group_view_checked", 0) > 0 and ev.get("group_view_unchanged_checked", 0) > 0, "the grouped-view monitor never ran")
    for q in ("flow.record.base:Record.__setattr__", "flow.record.fieldtypes:typedlist._convert", "flow.record.packer:RecordPacker.pack_obj"):
        ctx.require(ctx.reach.get(q, 0) > 0, "anchor %s was never entered" % q)
