"""C01 - record stream round trip preserves every record exactly (DESIGN section 4, C01)."""
from __future__ import annotations

import io
import os
import shutil
import tempfile

from .. import gen, observe, probes, workload
from ..core import subseed
from ..findings import classify_stream_value_diff

ID = "C01"
TITLE = "stream round trip"
LEVEL = "exploration"
RULE = (
    "cases = generated record sequences (1-40 records over 1-5 descriptors drawn from every serialisable whitelisted "
    "field type in scalar and T[] form, nested record/record[] to depth 2, grouped records) written by the real writer "
    "and read back; enumerated part: every cell of the matrix field type x value class (none/empty/boundary/extreme/"
    "random/hostile) is forced into the first record of at least one sequence per access path family; the rest are "
    "random mixes; 'rewrite' cases hand the SAME record objects to the writer three times, each record being updated in place "
    "between the writes through the mutable values it holds (typed-list methods, digest / command attributes, fields of nested "
    "records, untyped values appended / assigned into typed lists in place - observed as what the element type makes of them) - every "
    "write must emit the state at that moment; 'surrogate' cases hold text with lone surrogates outside U+DC80..DCFF: a record the "
    "packer refuses with UnicodeEncodeError is left out, one it accepts must round-trip like any other.  Reading is not always one "
    "uninterrupted loop: full / peek-then-loop / islice batches / break-and-come-back rotate over the cases; every third 'path' case "
    "names the file 'stream://<path>.<json|csv|jsonl|avro|txt>' (explicit scheme, foreign extension).  A case is non-trivial when at least one record was written and read back; distinct = distinct "
    "(recipe kind, focus cell, access path, sub-seed).  Oracle: canonical deep observation (class names, float bits, "
    "code points, wall clock + utcoffset, flavour, address family, list order; typed-list/digest None == empty default) "
    "of what was written, taken before writing, equals that of what was read; Record.__eq__ is never used."
)
ASSUMPTIONS = [
    "values are drawn from the generator pools in verif/gen.py (sub-second UTC offsets are not generated; lone surrogates outside U+DC80-DCFF only in the 'surrogate' cases, where refusal by the packer is accepted)",
    "observation reads values through public behaviour (str(), int(), attributes) of the field types",
]
SHARDS = {"quick": 8, "thorough": 16}
BUDGET_S = {"quick": 150, "thorough": 2400}

VIAS = ("stream", "path", "path.gz", "fileobj")
ANCHORS = [
    "flow.record.packer:RecordPacker.pack_obj",
    "flow.record.packer:RecordPacker.unpack_obj",
    "flow.record.base:Record._pack",
    "flow.record.stream:RecordStreamWriter.write",
    "flow.record.stream:RecordStreamReader.read",
    "flow.record.fieldtypes:typedlist._unpack",
    "flow.record.fieldtypes:path._unpack",
    "flow.record.fieldtypes:command._unpack",
    "flow.record.fieldtypes:digest._unpack",
    "flow.record.fieldtypes.net.ip:ipaddress._unpack",
]


def setup(ctx):
    ctx.state["reach"] = probes.Reach(ANCHORS)
    ctx.state["tmp"] = tempfile.mkdtemp(prefix="frv-c01-", dir=os.environ.get("VERIF_TMP", "/var/tmp"))


def teardown(ctx):
    ctx.state["reach"].stop()
    shutil.rmtree(ctx.state["tmp"], ignore_errors=True)


def generate(ctx):
    cells = gen.all_cells()
    idx = 0
    reps = ctx.scale(3, 12)
    for rep in range(reps):
        for t, vc in cells:
            if vc == "extreme" and rep > 0:
                continue
            via = VIAS[(idx + rep) % len(VIAS)]
            if ctx.mine(idx):
                yield {"k": "cell", "t": t, "vc": vc, "via": via, "s": subseed("c01", ctx.seed, "cell", t, vc, rep)}
            idx += 1
    nmix = ctx.scale(150, 2500)
    for i in range(nmix):
        yield {"k": "mix", "via": VIAS[i % len(VIAS)], "s": subseed("c01", ctx.seed, "mix", ctx.shard, i)}
    # identifier-coincident types interleaved in one stream; frames above 1 MiB through every access path
    for i in range(ctx.scale(16, 400)):
        yield {"k": "coincident", "via": VIAS[i % len(VIAS)], "s": subseed("c01", ctx.seed, "co", ctx.shard, i)}
    if ctx.shard < len(VIAS):
        yield {"k": "bigframe", "via": VIAS[ctx.shard], "s": subseed("c01", ctx.seed, "big", ctx.shard)}
    # the same record objects are written again after being updated in place (list methods, digest / command attributes,
    # fields of nested records): every write must emit the record's state at that moment
    for i in range(ctx.scale(40, 1200)):
        yield {"k": "rewrite", "via": VIAS[i % len(VIAS)], "s": subseed("c01", ctx.seed, "rewrite", ctx.shard, i)}
    # text holding lone surrogates outside the byte-escape range: a record is either refused by the packer or round-trips
    for i in range(ctx.scale(24, 720)):
        yield {"k": "surrogate", "via": VIAS[i % len(VIAS)], "s": subseed("c01", ctx.seed, "surrogate", ctx.shard, i)}
    # unrelated configuration must not leak into the stream: comparison ignore-lists active while writing / reading
    for i in range(ctx.scale(24, 600)):
        yield {"k": "cfg", "via": VIAS[i % len(VIAS)], "ignore": [["_generated"], ["_source", "_version"], ["<first>"], ["<all>"]][i % 4],
               "s": subseed("c01", ctx.seed, "cfg", ctx.shard, i)}


STREAM_MAGIC = b"\x00\x00\x00\x0f\xc4\x0dRECORDSTREAM\n"


def consume(ctx, rd):
    """Read everything from a reader the way applications do - not always in one uninterrupted loop: peek at the first
    record and then loop over the same reader, take batches with islice, break out of a loop and come back.  Every
    pattern must deliver every record exactly once, in order."""
    import itertools

    n = ctx.evaluations
    mode = ("full", "peek", "batches", "break")[n % 4]
    ctx.event("reader_usage:" + mode)
    if mode == "full":
        return list(rd)
    out = []
    if mode == "peek":
        first = next(iter(rd), None)
        if first is not None:
            out.append(first)
        out.extend(rd)
        return out
    if mode == "batches":
        k = 1 + n % 3
        while True:
            batch = list(itertools.islice(rd, k))
            if not batch:
                return out
            out.extend(batch)
    for r in rd:  # "break": leave the loop after a few records, then carry on with a new loop
        out.append(r)
        if len(out) >= 2:
            break
    import gc

    gc.collect()  # the abandoned iterator is finalised before the reader is used again
    out.extend(rd)
    return out


def roundtrip(ctx, records, via):
    """Write with the real writer, read with the real reader; -> list of records read."""
    from flow.record import RecordReader, RecordStreamReader, RecordStreamWriter, RecordWriter

    if via == "stream":
        buf = io.BytesIO()
        w = RecordStreamWriter(buf)
        for r in records:
            w.write(r)
        w.flush()
        data = buf.getvalue()
        w.fp = None  # keep BytesIO readable; the writer would close it
        return consume(ctx, RecordStreamReader(io.BytesIO(data)))
    ext = ".records.gz" if via == "path.gz" else ".records"
    path = os.path.join(ctx.state["tmp"], "c%d%s" % (ctx.evaluations, ext))
    uri = path
    if via == "path" and ctx.evaluations % 3 == 0:
        # the record stream is asked for EXPLICITLY (stream:// scheme) under a file name whose extension belongs to another
        # adapter: the scheme decides
        path = os.path.join(ctx.state["tmp"], "c%d%s" % (ctx.evaluations, (".json", ".csv", ".jsonl", ".avro", ".txt")[(ctx.evaluations // 3) % 5]))
        uri = "stream://" + path
        ctx.event("explicit_stream_scheme_with_foreign_extension")
    try:
        w = RecordWriter(uri)
        for r in records:
            w.write(r)
        w.flush()
        w.close()
        if uri != path:
            with open(path, "rb") as f:
                head = f.read(len(STREAM_MAGIC))
            if head != STREAM_MAGIC:
                ctx.violation(None, "RecordWriter('stream://...') did not write a record stream (the file does not start with the stream header)",
                              detail={"uri": "stream://<tmp>/" + os.path.basename(path), "file_starts_with": head.hex()})
        if via == "fileobj":
            with open(path, "rb") as f:
                rd = RecordReader(fileobj=f)
                return consume(ctx, rd)
        rd = RecordReader(uri)
        try:
            return consume(ctx, rd)
        finally:
            rd.close()
    finally:
        try:
            os.unlink(path)
        except OSError:
            pass


def surrogate_records(ctx, seed):
    """Records whose text fields hold lone surrogates OUTSIDE U+DC80..DCFF (which no byte sequence decodes to) next to
    ordinary byte escapes.  Such a record may be refused by the packer (UnicodeEncodeError - property C05's known finding);
    the ones the packer accepts take part in the round trip like any other record."""
    import random

    from flow.record import RecordDescriptor
    from flow.record.packer import RecordPacker

    rng = random.Random(seed)
    D = RecordDescriptor("sur/x%d" % rng.randrange(3), [("string", "s"), ("string", "t"), ("string[]", "l"), ("varint", "n"), ("path", "p")])
    lone = ["\ud800", "\ud83d", "a\udbffz", "\udc00", "\udc7f", "\udfff", "\ud83d\ud83d", "x\ud800\udcff"]
    esc = ["\udcff", "caf\udce9", "plain", "", "\udc80\udcfe tail"]
    cand = []
    for j in range(rng.randint(3, 8)):
        kind = rng.choice(["lone-s", "lone-l", "clean", "lone-s"])
        cand.append(D(s=rng.choice(lone) if kind == "lone-s" else rng.choice(esc), t=rng.choice(esc),
                      l=[rng.choice(esc), rng.choice(lone)] if kind == "lone-l" else [rng.choice(esc)], n=j, p=rng.choice(["/a/" + rng.choice(esc), None])))
    out = []
    for r in cand:
        try:
            RecordPacker().pack(r)
        except UnicodeEncodeError:
            ctx.event("surrogate_records_refused_by_the_packer")
            continue
        except Exception as e:  # noqa: BLE001
            ctx.violation(None, "packing a record with a lone surrogate raised %s (neither refused with UnicodeEncodeError nor packed)" % type(e).__name__, detail={"exception": repr(e)[:300]})
            continue
        ctx.event("surrogate_records_accepted_by_the_packer")
        out.append(r)
    ctx.event("surrogate_candidates", len(cand))
    return out


def big_frame_records(seed):
    """A few records whose frames exceed 1 MiB (highly compressible and incompressible payloads) between small ones."""
    import random

    from flow.record import RecordDescriptor

    rng = random.Random(seed)
    D = RecordDescriptor("big/frame", [("varint", "idx"), ("string", "text"), ("bytes", "blob")])
    out = []
    for i in range(6):
        if i in (1, 3, 4):
            text = "x" * (1_200_000 + i) if i != 4 else ""
            blob = b"" if i != 4 else rng.randbytes(1_100_000)
        else:
            text, blob = "small%d" % i, bytes([i])
        out.append(D(idx=i, text=text, blob=blob))
    # one frame beyond 2**24 bytes (the length prefix has four bytes: nothing special may happen at three)
    out.insert(2, D(idx=99, text="sixteen", blob=bytes(range(256)) * (2**16) + b"tail"))
    return out


RAW_ELEMENTS = {
    "path": ["/etc/passwd", "ab", "relative/x y", "c"],
    "command": ["ls -la /tmp", "/bin/sh -c 'echo hi'", "x"],
    "digest": [("d41d8cd98f00b204e9800998ecf8427e", None, None), (None, "da39a3ee5e6b4b0d3255bfef95601890afd80709", None)],
    "string": ["raw text", b"raw \xff bytes", ""],
    "wstring": ["raw w"],
    "varint": [0, -1, 2**70],
    "uint16": [0, 65535],
    "uint32": [4294967295],
    "float": [1, 2.5],
    "boolean": [True, 0],
    "uri": ["http://raw.example/x?y"],
    "net.ipaddress": ["10.1.2.3", "2001:db8::5"],
    "net.ipnetwork": ["10.0.0.0/8", "10.1.2.3"],
    "filesize": [12345],
    "unix_file_mode": [0o644],
    "net.tcp.Port": [443],
}
PENDING_RAW = []  # one entry per untyped element put into a typed list (counter for the evidence)


def is_typed_list(v):
    """T[] field values: the library builds one list class per element type (copies of typedlist, not subclasses)."""
    import flow.record.base as base

    return isinstance(v, list) and isinstance(v, base.FieldType) and getattr(type(v), "__type__", None) is not None


def _untyped_elements(rec, out):
    import flow.record.base as base
    import flow.record.fieldtypes as ft

    if isinstance(rec, base.GroupedRecord):
        for m in rec.records:
            _untyped_elements(m, out)
        return
    for _, fname in rec._desc.get_field_tuples():
        v = getattr(rec, fname)
        if is_typed_list(v):
            et = type(v).__type__
            for i, x in enumerate(v):
                if isinstance(x, (base.Record, base.GroupedRecord)):
                    _untyped_elements(x, out)
                elif et is not ft.record and not isinstance(x, et):
                    out.append((v, i, x, et(x)))
        elif isinstance(v, (base.Record, base.GroupedRecord)):
            _untyped_elements(v, out)


def snap(records):
    """Observations of the records as the stream must hold them: untyped elements sitting in typed lists (put there in
    place by the application) are observed as the value the element type makes of them.  The lists themselves are left
    as the application made them."""
    live = []
    for r in records:
        _untyped_elements(r, live)
    for v, i, raw, typed in live:
        list.__setitem__(v, i, typed)
    try:
        return [observe.obs(r) for r in records]
    finally:
        for v, i, raw, typed in live:
            list.__setitem__(v, i, raw)


def mutate_in_place(b, rng, rec, depth=0):
    """Update a record WITHOUT assigning to its own fields: through the mutable values it holds.  -> number of updates."""
    import flow.record.base as base
    import flow.record.fieldtypes as ft

    if isinstance(rec, base.GroupedRecord):
        return sum(mutate_in_place(b, rng, m, depth + 1) for m in rec.records)
    n = 0
    for ftype, fname in rec._desc.get_field_tuples():
        v = getattr(rec, fname)
        if is_typed_list(v):
            ops = ["append-copy", "reverse", "pop", "clear", "double", "swap", "append-new", "append-raw", "append-raw"] if len(v) else ["append-new", "append-raw"]
            op = rng.choice(ops)
            et = type(v).__type__
            if op == "append-copy":
                v.append(v[rng.randrange(len(v))])
            elif op == "reverse":
                if len(v) < 2 or observe.oval(v[0]) == observe.oval(v[-1]):
                    v.append(v[0])
                    v.append(v[0])
                else:
                    v.reverse()
            elif op == "pop":
                v.pop(rng.randrange(len(v)))
            elif op == "clear":
                del v[:]
            elif op == "double":
                v.extend(list(v))
            elif op == "swap":
                v[0:1] = [v[-1], v[0]]
            elif op == "append-raw" and ftype[:-2] in RAW_ELEMENTS:
                # an UNTYPED value put into the typed list in place (no conversion happens then): the writer converts it
                # while packing, so the stream must hold - and the reader return - what the element type makes of it
                raw = rng.choice(RAW_ELEMENTS[ftype[:-2]])
                if rng.random() < 0.5 or not len(v):
                    v.append(raw)
                    idx = len(v) - 1
                else:
                    idx = rng.randrange(len(v))
                    v[idx] = raw
                PENDING_RAW.append(1)
            else:
                base_t = ftype[:-2]
                if base_t == "record":
                    v.append(b.record(b.descriptor(depth=2, nfields=2, allow_keyword=False), depth=2))
                else:
                    x = b.value(base_t, "random", depth + 1)
                    v.append(x if isinstance(x, et) else et(x))
            n += 1
            for x in v:
                if isinstance(x, (base.Record, base.GroupedRecord)) and rng.random() < 0.5:
                    n += mutate_in_place(b, rng, x, depth + 1)
        elif isinstance(v, ft.digest):
            which = rng.choice(["md5", "sha1", "sha256"])
            setattr(v, which, "%0*x" % ({"md5": 32, "sha1": 40, "sha256": 64}[which], rng.getrandbits(120)))
            n += 1
        elif isinstance(v, ft.command) and v.args is not None:
            if rng.random() < 0.5:
                v.args.append("extra%d" % rng.randrange(100))
            else:
                v.executable = v._path_type("renamed%d" % rng.randrange(100))
            n += 1
        elif isinstance(v, (base.Record, base.GroupedRecord)):
            if isinstance(v, base.Record) and v._desc.get_field_tuples() and rng.random() < 0.6:
                t2, n2 = rng.choice(v._desc.get_field_tuples())
                if not t2.startswith("record"):
                    setattr(v, n2, b.value(t2, rng.choice([c for c in gen.classes_for(t2) if c != "extreme"]), depth + 1))
                    n += 1
            n += mutate_in_place(b, rng, v, depth + 1)
    return n


def rewriting(ctx, records, seed, snaps):
    """Generator handed to the writer loop: all records, then twice (update every record in place, all records again).
    The observation of each record is taken at the moment it is handed to the writer."""
    import random

    rng = random.Random(seed ^ 0xA11CE)
    b = gen.Builder(rng, thorough=False, max_depth=2)
    del PENDING_RAW[:]
    for r in records:
        snaps.append(observe.obs(r))
        yield r
    for _ in range(2):
        for r in records:
            ctx.event("in_place_updates_between_writes", mutate_in_place(b, rng, r))
        live = []
        for r in records:
            _untyped_elements(r, live)
        ctx.event("untyped_elements_sitting_in_typed_lists_when_written", len(live))
        for r in records:
            snaps.extend(snap([r]))
            ctx.event("records_written_again")
            yield r


def compare(ctx, before, after, what):
    """Compare lists of observations; classify every value difference.  -> number of unclassified differences."""
    if len(before) != len(after):
        ctx.violation(None, "%s: %d records written, %d read back" % (what, len(before), len(after)),
                      detail={"written": len(before), "read": len(after)})
        return 1
    bad = 0
    for i, (a, b) in enumerate(zip(before, after)):
        a, b = observe.normalise(a), observe.normalise(b)
        if a == b:
            continue
        for path, declared, wv, rv in observe.value_diffs(a, b, "$[%d]" % i):
            key = classify_stream_value_diff(path, declared, wv, rv)
            if key is None:
                bad += 1
            ctx.violation(key, "%s: value of declared type %s differs after the round trip" % (what, declared),
                          detail={"where": path, "declared": declared, "written": wv, "read": rv})
    return bad


def execute(ctx, case):
    thorough = not ctx.quick
    focus = (case["t"], case["vc"]) if case["k"] == "cell" else None
    small = case["k"] == "cell" and case["vc"] == "extreme"
    if case["k"] == "surrogate":
        records = surrogate_records(ctx, case["s"])
    elif case["k"] == "coincident":
        records = workload.coincident_sequence(case["s"])
    elif case["k"] == "bigframe":
        records = big_frame_records(case["s"])
    else:
        records = workload.build_sequence(case["s"], thorough=thorough, focus=focus, small=small,
                                          n_records=(2 if small else None))
    specs = workload.last_specs() if case["k"] not in ("bigframe", "surrogate") else []
    ctx.ev()
    # every record carries the descriptor it was created with (name and field list taken from the descriptor object the
    # generator used, not through the record)
    for r, spec in zip(records, specs):
        if spec is not None and observe.desc_obs(r._desc) != spec:
            ctx.violation(None, "a record does not carry the descriptor it was created with", detail={"created_with": spec, "record_reports": observe.desc_obs(r._desc)})
            return
    before = [observe.obs(r) for r in records]
    for r in records:
        observe.assert_typed(r, "written")
    via = case["via"]
    restore = None
    if case.get("ignore"):
        import flow.record.base as base

        names = set()
        for n in case["ignore"]:
            if n == "<first>":
                names.update(r._desc.get_field_tuples()[0][1] for r in records if hasattr(r, "_desc") and r._desc.get_field_tuples())
            elif n == "<all>":
                for r in records:
                    names.update(getattr(r, "__slots__", ()))
            else:
                names.add(n)
        restore = set(base.IGNORE_FIELDS_FOR_COMPARISON)
        base.set_ignored_fields_for_comparison(names)
        ctx.event("cases_with_comparison_ignore_list_active")
    to_write = records
    if case["k"] == "rewrite":
        before = []
        to_write = rewriting(ctx, records, case["s"], before)
    try:
        got = roundtrip(ctx, to_write, via)
    except Exception as e:  # noqa: BLE001 - a valid sequence must be writable and readable
        ctx.violation(None, "round trip via %s raised %s" % (via, type(e).__name__),
                      detail={"exception": repr(e)[:400], "records": workload.describe(records), "ignore": case.get("ignore")})
        return
    finally:
        if restore is not None:
            base.set_ignored_fields_for_comparison(restore)
    after_write = [observe.obs(r) for r in records]
    if case["k"] == "rewrite":
        after_write = snap(records)
        if before[-len(records):] != after_write:
            ctx.violation(None, "writing mutated the record", detail={"diff": observe.first_diff(before[-len(records):], after_write)})
    elif after_write != before:
        ctx.violation(None, "writing mutated the record", detail={"diff": observe.first_diff(before, after_write)})
    try:
        for r in got:
            observe.assert_typed(r, "read back")
    except observe.Untyped as e:
        ctx.violation(None, "record read back holds an untyped slot", detail={"error": str(e)})
    after = [observe.obs(r) for r in got]
    compare(ctx, before, after, "via " + via)
    ctx.event("records_written", len(records))
    ctx.event("records_read", len(got))
    ctx.event("via:" + via)
    if focus:
        ctx.cell(focus[0], focus[1])
    for o in before:
        ctx.event("grouped_records" if o[0] == "grouped" else "plain_records")
        if o[0] == "rec":
            for _, v in o[3]:
                if isinstance(v, list) and v and v[0] in ("rec", "grouped"):
                    ctx.event("nested_record_values")
                if isinstance(v, list) and v and v[0] == "list" and v[1] == "record[]" and v[2]:
                    ctx.event("nested_record_lists")
    if records:
        ctx.nontrivial(case["k"], case.get("t"), case.get("vc"), via, case["s"])
    ctx.sample({"case": case, "records": workload.describe(records, 3)}, kind=case["k"] + ":" + via)


def finish(ctx):
    ctx.state["reach"].into(ctx)
    ctx.note("matrix_cells_expected", len(gen.all_cells()) if ctx.shard == 0 else 0)
    for q in ANCHORS[:5]:
        ctx.require(ctx.reach.get(q, 0) > 0 or ctx.evaluations == 0, "anchor %s was never entered" % q)


def post_merge(merged, args):
    """The coverage matrix field type x value class must be completely hit over all shards together."""
    want = {"%s/%s" % (t, vc) for t, vc in gen.all_cells()}
    missing = sorted(want - set(merged["cells"]))
    merged["notes"]["matrix_cells_missing"] = missing[:20]
    if missing and merged["evaluations"]:
        return ["coverage matrix not completely hit: %d cells missing, e.g. %s" % (len(missing), missing[:3])]
    return []
