"""C11 - compression and container format are detected transparently (DESIGN section 4, C11)."""
from __future__ import annotations

import bz2
import gzip
import io
import json
import os
import random
import shutil
import subprocess
import sys
import tempfile

from .. import avro_c19 as am
from .. import gen, observe, probes, sizes_c11, sources_c11, workload
from ..core import subseed

ID = "C11"
TITLE = "codec / container detection"
LEVEL = "exploration"
RULE = (
    "exhaustive matrix codec {none, gz, bz2, lz4, zst, zstd} x container {record stream, avro} x naming {path with the right "
    "extension / URL scheme (avro://x.<codec> for Avro under a codec), neutral file name (+ avro:// scheme for Avro), "
    "buffered file object open(p,'rb'), io.BytesIO, raw non-peekable object (io.FileIO and a minimal io.RawIOBase subclass), "
    "stdin of a subprocess re-writing a record stream: `rdump - -w` / `rdump -w`, `rdump stream://-|stream://|avro://-|avro:// "
    "-w`, and RecordReader('<scheme>://-' | '<scheme>://') in a python worker; for codec none also BytesIO / open file / "
    "io.FileIO holding a preamble (1 byte, text, gzip-looking bytes, the other container's magic, 9000 random bytes, a "
    "complete other file of the same container) before the payload and seek()ed to the payload's start} x 4 generated record sequences per seed, one of them with 400 "
    "records (thorough: 10, three with 800-6000 records, so files cross the buffer sizes); every written file: leading bytes == the codec's magic from "
    "the format specification, independent decompression (stdlib gzip/bz2, lz4.frame, zstandard, + the CLIs gzip/bzip2/"
    "zstd/lz4 -t when present) succeeds, the decompressed payload starts with the container magic and read on its own gives "
    "the same records; every naming: the adapter class returned by RecordReader is StreamReader / AvroReader and the "
    "observations of the records read equal those written; also per codec x container: 2 and 3 writers open at once with "
    "alternating writes, closed first-in-first-out / last-in-first-out, then readers iterated in lockstep (each file holds "
    "exactly its own records); a path holding a longer file of the same cell, or other data, written again (no stale tail: the "
    "whole file is consumed by the independent decompressor frame by frame, only the new records come back); compound "
    "names x.csv|json|jsonl|avro|records.json|tar.<codec> given as plain paths (last extension decides: a <codec>'d record "
    "stream); the REAL stdin of a python subprocess (pipe and redirected regular file) x codec x container x {program did "
    "nothing / sys.stdin.buffer.peek(1) / consumed a leading marker line with sys.stdin.buffer.readline()} before "
    "RecordReader('-') or RecordReader(): exactly the written records; a PATH that names a pipe (/dev/fd/N in-process, "
    "/dev/stdin and an os.mkfifo FIFO read by a child) x codec x container; handle turn-over histories in one process (one "
    "handle re-used with new content; many short-lived handles) through RecordReader(fileobj=), StreamReader(fh), "
    "AvroReader(fh), open_path_or_stream(fh,'rb'); hostile-but-legal file names x extension x {relative, absolute, behind a "
    "scheme}: what lands on disk is the container the extension/scheme names and reads back, or the name is refused for "
    "write and read alike, and an accepted name without URL-special characters creates a file of EXACTLY that name (incl. "
    "sqlite://name.db|.sqlite databases); a plain container compressed by ANOTHER tool of the format (levels, frame options, "
    "gzip members / name / mtime) through bytesio / buffered / raw / neutral / extension; doubly compressed input (refused, or "
    "decoded to exactly the records); a single record whose frame / payload is 2**16, 2**20 (+-1) and 2**24 (-4096, -1, 0, "
    "+58) bytes long between two small records; plain streams of exactly k*8192 / 2**16 / 2**17 / 2**20 (+-1) bytes and "
    "the same records under every codec; reader -> writer copy pipelines with two sources of one record type and an equal "
    "descriptor re-created in between, per codec x container; special matrix sequences: NO record (header-only stream / "
    "empty Avro container), exactly one record, and (stream) one type NAME standing for a base, two extended and a projected "
    "field list in base-first / extended-first / interleaved order + identifier-coincident pairs, through every codec and "
    "route; one reader consumed in pieces (peek / islice batches / break / handled exception, then iterated again) per codec x "
    "container and for jsonl / csv; file objects (buffered, FileIO, named BytesIO) whose NAME extension and CONTENT codec "
    "disagree (content decides); PathTemplateWriter / RecordArchiver outputs per codec (every file complete for the "
    "independent decompressor and CLI after close(), holds a stream, all records once); two files in which one FIELD NAME has different types (datetime vs varint / float / filesize / string, values "
    "above 2**32) read by one process in both orders, sequentially or with both readers open (avro, jsonfile compared with "
    "what was written; csvfile, sqlite with what a fresh child process reads from that file alone); thorough: 12 matrix sequences up to 25000 records, more "
    "hostile names, 4 repetitions of the in-process kinds, 400-step handle turn-over (stream: observe.normalise(obs) equality; avro: the C19 comparison, "
    "floats to single precision, timestamps as instants).  Plus JSON / JSON lines / CSV chosen by extension, and junk inputs "
    "(empty, text, record repr text, random bytes, each codec around junk, each codec magic followed by junk, Avro magic "
    "followed by junk; non-stream input that contains the stream magic text at offset 0-5/7/10 instead of the header frame, "
    "followed by text or by a genuine frame sequence, plain and under each codec) through every naming: must raise (any exception class) and yield zero records; for rdump stdin: no "
    "record in the output and a logged error or non-zero exit.  Non-trivial = a file with >= 1 record read back through >= 1 "
    "naming, or a junk input presented; distinct = distinct (kind, codec, container, sequence sub-seed / junk kind, naming)."
)
ASSUMPTIONS = [
    "record-stream sequences come from workload.build_sequence(types=...) without net.ipaddress / net.IPAddress / dynamic "
    "(their classified C01 round-trip differences belong to C01) and without nested / grouped records, so written "
    "observations can be compared directly",
    "Avro sequences come from the C19 generator restricted to records the Avro mapping must accept (one descriptor per file)",
    "a path's last extension decides: 'x.avro.gz' is a gzip'd record stream; Avro under a codec is named avro://x.<codec>",
    "the exact 19-byte header frame without frames is an empty stream today and is not generated as junk; an input of fewer "
    "than 19 bytes that ENDS with the magic text ('RECORDSTREAM\\n' alone, 'xx' + magic) is accepted as an empty stream "
    "today too and is not generated; 6 arbitrary bytes + the magic at offset 6 (the format's position) is not generated "
    "(accepted as a stream today); every generated bogus-header input is longer than 19 bytes; other junk never contains "
    "the magic (a damaged stream is C04's subject)",
    "JSON / CSV under a codec extension are outside the matrix (jsonfile://x.json.gz is refused with TypeError today, "
    "csvfile://x.csv.gz writes plain text)",
    "for rdump the exit status is not demanded (record_stream() logs the reader's error and continues): refusal = no record in "
    "the output and an error/warning on stderr or a non-zero exit",
    "hostile file names: which file NAME is created is not demanded ('a#b.avro' / 'q?x.avro' create 'a' / 'q' today: URL "
    "fragment / query semantics, and the codec extension is lost with it), only the container of what is created and that it "
    "reads back under the same name; relative names with unbalanced / non-IPv6 brackets are refused with ValueError today "
    "for write and read, which is accepted as a consistent refusal",
    "hostile names containing an ASCII tab / newline lose that character (urlsplit drops it) like '#' / '?' cut the name: "
    "URL semantics, the exact-name demand does not apply to them; '-' is stdout/stdin, not a file name",
    "a zstd file made of SEVERAL frames (pzstd, `cat a.zst b.zst`) is read correctly through file objects but fails by path "
    "('Unpack failed: incomplete input': zstandard's stream_reader is handed to the record reader unbuffered and returns short "
    "at a frame end); files written by flow.record are single-frame, so this is not generated (reported to the lead)",
    "doubly compressed input: a refusal with zero records (HEAD) or exactly the records are both accepted",
    "the sqlite reader starts over on every iteration (HEAD), so the consumed-in-pieces histories leave it out",
    "raw objects deliver full reads (as io.FileIO does); objects whose first read returns fewer bytes than the magic depth are "
    "not generated (reported to the lead as candidate finding sniff-single-peek-short-read)",
]
SHARDS = {"quick": 16, "thorough": 16}
BUDGET_S = {"quick": 200, "thorough": 2400}

ANCHORS = [
    "flow.record.base:open_stream",
    "flow.record.base:open_path",
    "flow.record.base:find_adapter_for_stream",
    "flow.record.base:RecordAdapter",
]

# magic numbers from the format specifications (RFC 1952, bzip2, LZ4 frame format, RFC 8878, Avro 1.x object container)
CODECS = ("none", "gz", "bz2", "lz4", "zst", "zstd")
CODEC_MAGIC = {"gz": b"\x1f\x8b", "bz2": b"BZh", "lz4": b"\x04\x22\x4d\x18", "zst": b"\x28\xb5\x2f\xfd", "zstd": b"\x28\xb5\x2f\xfd"}
CODEC_CLI = {"gz": "gzip", "bz2": "bzip2", "lz4": "lz4", "zst": "zstd", "zstd": "zstd"}
CONTAINERS = ("stream", "avro")
STREAM_MAGIC = b"RECORDSTREAM\n"
AVRO_MAGIC = b"Obj\x01"
NAMINGS = ("ext", "neutral", "buffered", "bytesio", "raw", "stdin", "stdin-scheme", "stdin-scheme-worker")
OFFSET_NAMINGS = ("offset-bytesio", "offset-buffered", "offset-raw")  # codec none only
STREAM_TYPES = [t for t in gen.ALL_FIELD_TYPES
                if not t.startswith("record") and (t[:-2] if t.endswith("[]") else t) not in ("net.ipaddress", "net.IPAddress", "dynamic")]

JUNK_KINDS = ("empty", "text", "record-repr", "random", "random-long", "nul", "avro-magic+junk", "json-line", "csv-text") + tuple(
    "%s(%s)" % (c, inner) for c in ("gz", "bz2", "lz4", "zst") for inner in ("text", "random", "empty")) + tuple(
    "%s-magic+junk" % c for c in ("gz", "bz2", "lz4", "zst")) + tuple("%s-magic-only" % c for c in ("gz", "bz2", "lz4", "zst"))
# non-stream input that CONTAINS the stream magic text near its start, but not as the header frame (4-byte length, 2-byte bin
# header, magic at offset 6): the magic at offset k followed by text, by a genuine frame sequence right after the magic
# ("+frames"), or by 6-k pad bytes and a genuine frame sequence, so that the frames start at offset 19 ("+pad+frames": a
# reader that does not validate the header would decode records the input does not encode at that framing)
BOGUS_TAILS = ("text", "frames", "pad+frames")
BOGUS_KINDS = tuple("bogus-hdr@%d+%s" % (k, t) for k in (0, 1, 2, 3, 4, 5, 7, 10) for t in BOGUS_TAILS if not (k > 5 and t == "pad+frames"))
JUNK_KINDS += BOGUS_KINDS + tuple("%s(bogus-hdr@%d+%s)" % (c, k, t) for c in ("gz", "bz2", "lz4", "zst") for k in (0, 2, 5) for t in BOGUS_TAILS)
# what the reading program did with its standard input before it created the reader: nothing; looked at it without consuming
# (the "is anything piped in?" idiom); consumed a leading text line itself with a buffered readline()
STDIN_TOUCH = ("untouched", "peek", "line")
MARKER_LINE = b"#records follow\n"
COMPOUND_INNER = (".csv", ".json", ".jsonl", ".avro", ".records.json", ".tar")  # x<inner>.<codec>: the LAST extension decides
JUNK_VIAS = ("bytesio", "buffered", "raw", "neutral", "neutral-avro", "ext", "stdin")


class MinimalRaw(io.RawIOBase):
    """The least a raw binary file object offers: readable() and readinto(); no peek, no seek, no name."""

    def __init__(self, data):
        super().__init__()
        self._data = data
        self._pos = 0

    def readable(self):
        return True

    def readinto(self, b):
        n = min(len(b), len(self._data) - self._pos)
        b[:n] = self._data[self._pos:self._pos + n]
        self._pos += n
        return n


def setup(ctx):
    ctx.state["reach"] = probes.Reach(ANCHORS)
    ctx.state["tmp"] = tempfile.mkdtemp(prefix="frv-c11-", dir=os.environ.get("VERIF_TMP", "/var/tmp"))
    ctx.state["n"] = 0
    clis = {}
    for codec, tool in CODEC_CLI.items():
        clis[tool] = shutil.which(tool)
    ctx.state["clis"] = clis
    exe = os.path.join(os.path.dirname(sys.executable), "rdump")
    ctx.state["rdump"] = [exe] if os.path.exists(exe) else [sys.executable, "-m", "flow.record.tools.rdump"]
    env = dict(os.environ)
    repo = os.environ.get("VERIF_REPO")
    if repo and os.path.realpath(repo) != "/repo":
        env["PYTHONPATH"] = repo + os.pathsep + env.get("PYTHONPATH", "")  # the subprocess must import the tree under test
    env["PYTHONWARNINGS"] = "ignore"
    ctx.state["env"] = env


def teardown(ctx):
    ctx.state["reach"].stop()
    shutil.rmtree(ctx.state["tmp"], ignore_errors=True)


def generate(ctx):
    idx = 0
    nseq = ctx.scale(4, 12)
    for seq in range(nseq):
        for codec in CODECS:
            for container in CONTAINERS:
                if ctx.mine(idx):
                    yield {"k": "cell", "codec": codec, "container": container, "seq": seq,
                           "s": subseed("c11", ctx.seed, "seq", container, seq)}
                idx += 1
    # special sequences through the whole matrix: no record at all (header-only stream / empty Avro container), exactly one
    # record, and (stream) one type NAME standing for several field lists + identifier-coincident pairs
    for flavour in ("zero", "one", "versions"):
        for rep in range(ctx.scale(1, 3) if flavour == "versions" else 1):
            for codec in CODECS:
                for container in CONTAINERS:
                    if flavour == "versions" and container == "avro":
                        continue
                    if ctx.mine(idx):
                        yield {"k": "cell", "codec": codec, "container": container, "seq": flavour,
                               "s": subseed("c11", ctx.seed, "seq", container, flavour, rep)}
                    idx += 1
    for rep in range(ctx.scale(1, 3)):
        for kind in JUNK_KINDS:
            for via in JUNK_VIAS:
                if ctx.mine(idx):
                    yield {"k": "junk", "kind": kind, "via": via, "s": subseed("c11", ctx.seed, "junk", kind, via, rep)}
                idx += 1
    # in-process kinds: more repetitions in the thorough tier
    for rep in range(ctx.scale(1, 4)):
        for codec in CODECS:
            for container in CONTAINERS:
                for nw in (2, 3):
                    for order in ("fifo", "lifo"):
                        if ctx.mine(idx):
                            yield {"k": "interleave", "codec": codec, "container": container, "writers": nw, "close": order,
                                   "s": subseed("c11", ctx.seed, "interleave", container, nw, order, rep)}
                        idx += 1
                for prior in ("same-longer", "other-data"):
                    if ctx.mine(idx):
                        yield {"k": "overwrite", "codec": codec, "container": container, "prior": prior,
                               "s": subseed("c11", ctx.seed, "overwrite", container, prior, rep)}
                    idx += 1
        for container in CONTAINERS:
            for history in ("reused-handle", "short-lived"):
                for k in range(ctx.scale(2, 3)):
                    if ctx.mine(idx):
                        yield {"k": "turnover", "container": container, "history": history, "s": subseed("c11", ctx.seed, "turnover", container, history, rep, k)}
                    idx += 1
        for codec, variants in sources_c11.FOREIGN_VARIANTS.items():
            for variant in variants:
                for container in CONTAINERS:
                    if ctx.mine(idx):
                        yield {"k": "foreign", "codec": codec, "variant": variant, "container": container,
                               "s": subseed("c11", ctx.seed, "foreign", codec, variant, container, rep)}
                    idx += 1
        for inner in COMPOUND_INNER:
            for codec in CODECS[1:]:
                if ctx.mine(idx):
                    yield {"k": "compound", "inner": inner, "codec": codec, "s": subseed("c11", ctx.seed, "compound", inner, rep)}
                idx += 1
    for outer in ("gz", "bz2", "lz4", "zst"):
        for inner in ("gz", "bz2", "lz4", "zst"):
            for container in CONTAINERS:
                for via in ("bytesio", "neutral", "ext"):
                    if ctx.mine(idx):
                        yield {"k": "nested", "outer": outer, "inner": inner, "container": container, "via": via,
                               "s": subseed("c11", ctx.seed, "nested", outer, inner, container)}
                    idx += 1
    # size boundaries: a record of ~2**16 / 2**20 (every codec x container x field kind, all routes) and ~2**24 bytes (quick:
    # one target above 16 MiB, plain + one codec, two routes; thorough: every target x codec, all routes, stream container)
    for codec in CODECS:
        for container in CONTAINERS:
            for j, target in enumerate(sizes_c11.FRAME_TARGETS_SMALL):
                field = ("bytes", "string")[(j + CODECS.index(codec)) % 2]
                if ctx.mine(idx):
                    yield {"k": "frame-size", "codec": codec, "container": container, "field": field, "target": target, "s": subseed("c11", ctx.seed, "frame", target)}
                idx += 1
    big_codecs = CODECS if not ctx.quick else ("none", CODECS[1 + ctx.seed % 5])
    for codec in big_codecs:
        for j, target in enumerate(sizes_c11.FRAME_TARGETS_16M if not ctx.quick else sizes_c11.FRAME_TARGETS_16M[-1:]):
            for container in (("stream",) if ctx.quick else CONTAINERS):
                if ctx.mine(idx):
                    yield {"k": "frame-size", "codec": codec, "container": container, "field": ("bytes", "string")[j % 2], "target": target,
                           "routes": ["ext", "bytesio"] if ctx.quick else None, "s": subseed("c11", ctx.seed, "frame", target)}
                idx += 1
    for codec in CODECS:
        for target in sizes_c11.TOTAL_TARGETS:
            for delta in (-1, 0, 1):
                if ctx.mine(idx):
                    yield {"k": "total-size", "codec": codec, "target": target, "delta": delta, "s": subseed("c11", ctx.seed, "total", target, delta)}
                idx += 1
    for rep in range(ctx.scale(1, 4)):
        for codec in CODECS:
            for container in CONTAINERS:
                if ctx.mine(idx):
                    yield {"k": "merge", "codec": codec, "container": container, "s": subseed("c11", ctx.seed, "merge", codec, container, rep)}
                idx += 1
    # subprocess-bound kinds: fewer repetitions
    for rep in range(ctx.scale(1, 2)):
        for codec in CODECS:
            for container in CONTAINERS:
                for touch in STDIN_TOUCH:
                    for how in ("pipe", "file"):
                        if ctx.mine(idx):
                            yield {"k": "stdin-touch", "codec": codec, "container": container, "touch": touch, "stdin": how,
                                   "s": subseed("c11", ctx.seed, "stdin-touch", container, touch, how, rep)}
                        idx += 1
        for codec in CODECS:
            for container in CONTAINERS:
                for form in sources_c11.PIPE_FORMS:
                    if ctx.mine(idx):
                        yield {"k": "pipe-path", "codec": codec, "container": container, "form": form,
                               "s": subseed("c11", ctx.seed, "pipe-path", container, form, rep)}
                    idx += 1
    stems = sources_c11.NAME_STEMS + (() if ctx.quick else sources_c11.NAME_STEMS_THOROUGH)
    for stem in stems:
        for ext in sources_c11.NAME_EXTS + sources_c11.SQLITE_EXTS:
            if stem + ext in ("-", ""):
                continue  # that is stdout / stdin, not a file name
            for form in sources_c11.NAME_FORMS + (sources_c11.SQLITE_FORMS if ext in sources_c11.SQLITE_EXTS else ()):
                if ctx.mine(idx):
                    yield {"k": "names", "stem": stem, "ext": ext, "form": form, "s": subseed("c11", ctx.seed, "names", stem, ext, form)}
                idx += 1
    for rep in range(ctx.scale(2, 8)):
        for ext in (".json", ".jsonl", ".csv"):
            if ctx.mine(idx):
                yield {"k": "text-ext", "ext": ext, "s": subseed("c11", ctx.seed, "text", ext, rep)}
            idx += 1
    for ext in (".json", ".jsonl", ".csv"):
        for n in (0, 1):
            if ctx.mine(idx):
                yield {"k": "text-ext", "ext": ext, "n": n, "s": subseed("c11", ctx.seed, "text", ext, "n", n)}
            idx += 1
    # round 8: one reader consumed in pieces; file objects whose name and content disagree; time-templated writers
    j = 0
    for codec in CODECS:
        for container in CONTAINERS:
            for pattern in am.USAGE_PATTERNS:
                j += 1
                if ctx.mine(idx):
                    yield {"k": "reader-usage", "codec": codec, "container": container, "pattern": pattern, "size": ("small", "multi")[j % 2],
                           "via": ("path", "fileobj")[(j // 2) % 2], "s": subseed("c11", ctx.seed, "usage", codec, container, pattern)}
                idx += 1
    for ext in (".jsonl", ".csv"):
        for pattern in am.USAGE_PATTERNS:
            if ctx.mine(idx):
                yield {"k": "reader-usage", "codec": "none", "container": ext, "pattern": pattern, "size": "small", "s": subseed("c11", ctx.seed, "usage", ext, pattern)}
            idx += 1
    for content in ("none", "gz", "bz2", "lz4", "zst"):
        for name_ext in ("", ".gz", ".bz2", ".lz4", ".zst", ".zstd"):
            if name_ext.lstrip(".") == content or (content == "zst" and name_ext == ".zstd") or (content == "none" and name_ext == ""):
                continue
            for container in CONTAINERS:
                if ctx.mine(idx):
                    yield {"k": "name-mismatch", "content": content, "name_ext": name_ext, "container": container,
                           "s": subseed("c11", ctx.seed, "mismatch", content, name_ext, container)}
                idx += 1
    for codec in CODECS:
        for cls in ("PathTemplateWriter", "RecordArchiver"):
            for shape in ("two-hours", "three-hours", "back-and-forth", "many"):
                if ctx.mine(idx):
                    yield {"k": "template-writer", "codec": codec, "cls": cls, "shape": shape, "s": subseed("c11", ctx.seed, "template", codec, cls, shape)}
                idx += 1
    # cross-file reader state: the same FIELD NAME with different types in two files read by one process
    for adapter in sources_c11.CROSS_ADAPTERS:
        for other in sources_c11.CROSS_TYPES:
            for order in ("ab", "ba"):
                for layout in ("sequential", "simultaneous"):
                    if ctx.mine(idx):
                        yield {"k": "cross-file", "adapter": adapter, "other": other, "order": order, "layout": layout,
                               "s": subseed("c11", ctx.seed, "cross", adapter, other, order, layout)}
                    idx += 1


# ---- helpers ----------------------------------------------------------------------------------------------------------
def tmp_name(ctx, stem, suffix=""):
    ctx.state["n"] += 1
    return os.path.join(ctx.state["tmp"], "%s%d%s" % (stem, ctx.state["n"], suffix))


def build_records(case, thorough):
    """-> (records, descriptor or None).  seq index decides the size class: the last sequences of the thorough tier are long."""
    seq = case["seq"]
    if seq == "zero":
        return []
    if seq == "one":
        return sized_records(case["container"], case["s"], 1)[:1]
    if seq == "versions":
        return versions_sequence(case["s"], thorough)
    big = seq >= 3 if not thorough else seq >= 7
    size = 400 if not thorough else (800, 2500, 6000, 12000, 25000)[max(0, min(seq - 7, 4))]
    if case["container"] == "stream":
        n = None
        if big:
            n = size
        recs = workload.build_sequence(case["s"], thorough=False, nested=False, grouped=False, types=STREAM_TYPES, n_records=n,
                                       small=big)
        if not recs:
            recs = workload.build_sequence(case["s"] + 1, nested=False, grouped=False, types=STREAM_TYPES, n_records=3)
        return recs
    n = size if big else None
    _, recs = am.clean_sequence(case["s"], n_records=n)
    k = 1
    while not recs:
        _, recs = am.clean_sequence(case["s"] + k, n_records=3)
        k += 1
    return recs


def versions_sequence(seed, thorough=False):
    """Record stream sequence in which ONE type name stands for several field lists: a base type, types extended from it
    (RecordDescriptor.extend) and a projection of it, in base-first / extended-first / interleaved order, followed by records of
    identifier-coincident pairs (same name AND same 32-bit hash, workload.coincident_pairs()).  Every record must come back
    under the field list it was written with."""
    from flow.record import RecordDescriptor

    rng = random.Random(seed)
    name = "versions/t%x" % (seed & 0xFFFF)
    base = RecordDescriptor(name, [("string", "a"), ("varint", "b")])
    ext1 = base.extend([("string", "c")])
    ext2 = ext1.extend([("datetime", "d"), ("bytes", "e")])
    proj = RecordDescriptor(name, [("varint", "b")])
    versions = [base, ext1, ext2, proj]
    order = rng.choice(["base-first", "extended-first", "interleaved"])
    n = rng.choice([2, 4, 9] if not thorough else [4, 9, 60])
    if order == "base-first":
        plan = [base] * n + [ext1] * n + [ext2] * n + [proj] * n + [base]
    elif order == "extended-first":
        plan = [ext2] * n + [ext1] * n + [base] * n + [proj] + [ext2]
    else:
        plan = [rng.choice(versions) for _ in range(4 * n)] + versions
    recs = []
    for i, d in enumerate(plan):
        kw = {"b": i}
        fields = [f for _, f in d.get_field_tuples()]
        if "a" in fields:
            kw["a"] = "a%d" % i
        if "c" in fields:
            kw["c"] = rng.choice(["c", "", "ü%d" % i])
        if "d" in fields:
            kw["d"] = "2021-02-03T04:05:06.%06dZ" % (i % 1000000)
            kw["e"] = bytes([i % 256]) * (i % 5)
        recs.append(d.recordType(**kw))
    b = gen.Builder(rng)
    pairs = workload.coincident_pairs()
    rng.shuffle(pairs)
    for a_desc, b_desc in pairs[: (2 if not thorough else 4)]:
        for j in range(rng.choice([2, 3, 6])):
            recs.append(b.record((a_desc, b_desc)[j % 2] if rng.random() < 0.8 else rng.choice((a_desc, b_desc))))
    return recs


def independent_decompress(codec, raw):
    """Decompress the WHOLE file with a standard library of the format, frame by frame; raises on any format error, on an
    incomplete last frame and on trailing bytes that are not another complete frame (a stale tail)."""
    if not raw:
        raise ValueError("empty file")
    out, data = [], raw
    while data:
        if codec == "gz":
            import zlib

            d = zlib.decompressobj(wbits=31)
            out.append(d.decompress(data))
        elif codec == "bz2":
            d = bz2.BZ2Decompressor()
            out.append(d.decompress(data))
        elif codec == "lz4":
            import lz4.frame

            d = lz4.frame.LZ4FrameDecompressor()
            out.append(d.decompress(data))
        elif codec in ("zst", "zstd"):
            import zstandard

            d = zstandard.ZstdDecompressor().decompressobj()
            out.append(d.decompress(data))
        else:
            raise KeyError(codec)
        if not d.eof:
            raise ValueError("%s frame is not complete" % codec)
        data = d.unused_data
    return b"".join(out)


def cli_test(ctx, codec, path):
    """`<tool> -t < file` with the format's reference command line tool, when present.  -> True/False/None (absent)."""
    tool = CODEC_CLI[codec]
    exe = ctx.state["clis"].get(tool)
    if not exe:
        ctx.event("cli_absent:" + tool)
        return None, ""
    try:
        with open(path, "rb") as f:
            p = subprocess.run([exe, "-t"], stdin=f, stdout=subprocess.PIPE, stderr=subprocess.PIPE, timeout=300)
    except (OSError, subprocess.TimeoutExpired) as e:
        ctx.event("cli_could_not_run:" + tool)
        return None, repr(e)
    ctx.event("cli_tested:" + tool)
    return p.returncode == 0, p.stderr.decode("utf-8", "replace")[-300:]


def drain(make_reader):
    """-> (reader or None, records yielded, exception or None); records yielded before an error are kept."""
    rd, got = None, []
    try:
        rd = make_reader()
        for r in rd:
            got.append(r)
        return rd, got, None
    except Exception as e:  # noqa: BLE001 - which class is left open
        return rd, got, e
    finally:
        if rd is not None:
            try:
                rd.close()
            except Exception:
                pass


WORKER = (
    "import sys, warnings\n"
    "warnings.simplefilter('ignore')\n"
    "from flow.record import RecordReader, RecordWriter\n"
    "rd = RecordReader(sys.argv[1])\n"
    "w = RecordWriter(sys.argv[2])\n"
    "n = 0\n"
    "for r in rd:\n"
    "    w.write(r); n += 1\n"
    "w.flush(); w.close()\n"
    "sys.stdout.write('%s %d' % (type(rd).__name__, n))\n"
)


def run_rdump(ctx, data, variant):
    """Feed `data` to the stdin of a subprocess that re-writes what it reads as a plain record stream file.
    variant: 0 `rdump - -w OUT`, 1 `rdump -w OUT`, or a source string ('stream://-', 'avro://', ...) -> `rdump SRC -w OUT`,
    or ('worker', SRC) -> a python subprocess doing RecordReader(SRC) -> RecordWriter(OUT).
    -> (returncode, stderr, out path, stdout)"""
    out = tmp_name(ctx, "rdump-out", ".records")
    if isinstance(variant, tuple):
        argv = [sys.executable, "-c", WORKER, variant[1], out]
    elif isinstance(variant, str):
        argv = list(ctx.state["rdump"]) + [variant, "-w", out]
    else:
        argv = list(ctx.state["rdump"]) + (["-", "-w", out] if variant == 0 else ["-w", out])
    try:
        p = subprocess.run(argv, input=data, stdout=subprocess.PIPE, stderr=subprocess.PIPE, timeout=600, env=ctx.state["env"],
                           cwd=ctx.state["tmp"])
    except subprocess.TimeoutExpired:
        ctx.require(False, "a subprocess reading stdin did not finish within 600 s")
        return None, "", out, ""
    ctx.event("worker_subprocesses" if isinstance(variant, tuple) else "rdump_subprocesses")
    return p.returncode, p.stderr.decode("utf-8", "replace"), out, p.stdout.decode("utf-8", "replace")


def reader_class_ok(rd, container):
    from flow.record.adapter.avro import AvroReader
    from flow.record.adapter.stream import StreamReader

    return isinstance(rd, AvroReader if container == "avro" else StreamReader)


def compare(ctx, container, records, before, got, what, detail):
    """Oracle for one access path: the records read equal the records written.  -> True when equal."""
    if len(got) != len(records):
        ctx.violation(None, "%s: %d records written, %d read" % (what, len(records), len(got)), detail=detail)
        return False
    try:
        for r in got:
            observe.assert_typed(r, what)
    except observe.Untyped as e:
        ctx.violation(None, "%s: a record read back holds an untyped slot" % what, detail=dict(detail, error=str(e)))
        return False
    if container == "stream":
        for i, (a, r) in enumerate(zip(before, got)):
            b = observe.normalise(observe.obs(r))
            if a != b:
                ctx.violation(None, "%s: a record read back differs from the one written" % what,
                              detail=dict(detail, index=i, diff=observe.first_diff(a, b)))
                return False
    else:
        for i, (w, r) in enumerate(zip(records, got)):
            d = am.record_diffs(w, r)
            if d:
                ctx.violation(None, "%s: a record read back differs from the one written" % what, detail=dict(detail, index=i, diff=d[:4]))
                return False
    return True


# ---- the matrix -------------------------------------------------------------------------------------------------------
def execute(ctx, case):
    if case["k"] == "cell":
        return execute_cell(ctx, case)
    if case["k"] == "junk":
        return execute_junk(ctx, case)
    if case["k"] == "interleave":
        return execute_interleave(ctx, case)
    if case["k"] == "overwrite":
        return execute_overwrite(ctx, case)
    if case["k"] == "compound":
        return execute_compound(ctx, case)
    if case["k"] == "stdin-touch":
        return execute_stdin_touch(ctx, case)
    if case["k"] == "pipe-path":
        return sources_c11.execute_pipe_path(ctx, case)
    if case["k"] == "turnover":
        return sources_c11.execute_turnover(ctx, case)
    if case["k"] == "names":
        return sources_c11.execute_names(ctx, case)
    if case["k"] == "reader-usage":
        return sources_c11.execute_reader_usage(ctx, case)
    if case["k"] == "name-mismatch":
        return sources_c11.execute_name_mismatch(ctx, case)
    if case["k"] == "template-writer":
        return sources_c11.execute_template_writer(ctx, case)
    if case["k"] == "cross-file":
        return sources_c11.execute_cross_file(ctx, case)
    if case["k"] == "frame-size":
        return sizes_c11.execute_frame_size(ctx, case)
    if case["k"] == "total-size":
        return sizes_c11.execute_total_size(ctx, case)
    if case["k"] == "merge":
        return sizes_c11.execute_merge(ctx, case)
    if case["k"] == "foreign":
        return sources_c11.execute_foreign(ctx, case)
    if case["k"] == "nested":
        return sources_c11.execute_nested(ctx, case)
    return execute_text_ext(ctx, case)


# ---- several files at once, overwriting, compound extensions ------------------------------------------------------------
def sized_records(container, seed, n):
    """About n records (stream: generated flat sequence; avro: records the Avro mapping must accept)."""
    if container == "stream":
        recs = workload.build_sequence(seed, nested=False, grouped=False, types=STREAM_TYPES, n_records=n, small=True)
        return recs or workload.build_sequence(seed + 1, nested=False, grouped=False, types=STREAM_TYPES, n_records=3, n_descs=1)
    k = 0
    while True:
        _, recs = am.clean_sequence(seed + k, n_records=n)
        if recs:
            return recs
        k += 1


def cell_path(ctx, codec, container, stem):
    """-> (file path, URL for RecordWriter/RecordReader) of a matrix cell."""
    ext = "" if codec == "none" else "." + codec
    if container == "stream":
        p = tmp_name(ctx, stem, ".records" + ext)
        return p, p
    if codec == "none":
        p = tmp_name(ctx, stem, ".avro")
        return p, p
    p = tmp_name(ctx, stem, ext)
    return p, "avro://" + p


def verify_file(ctx, codec, container, path, url, records, before, detail, what, cli=True):
    """Checks on a closed written file: codec magic, the WHOLE file accepted by the independent decompressor (no stale tail),
    container magic of the payload, and exactly `records` through the path/URL, a neutral copy and a buffered file object.
    -> True when everything held."""
    from flow.record import RecordReader

    ok = True
    with open(path, "rb") as f:
        raw = f.read()
    payload = raw
    if codec != "none":
        magic = CODEC_MAGIC[codec]
        if raw[:len(magic)] != magic:
            ctx.violation(None, "%s: the file does not start with the codec magic of its extension" % what, detail=dict(detail, leading=raw[:8].hex()))
            ok = False
        try:
            payload = independent_decompress(codec, raw)
            ctx.event("independent_decompress_ok:" + codec)
        except Exception as e:  # noqa: BLE001
            ctx.violation(None, "%s: an independent decompressor rejects the file" % what,
                          detail=dict(detail, exception=repr(e)[:300], file_bytes=len(raw), leading=raw[:8].hex()))
            return False
        if cli:
            good, msg = cli_test(ctx, codec, path)
            if good is False:
                ctx.violation(None, "%s: the codec's command line tool rejects the file" % what, detail=dict(detail, stderr=msg))
                ok = False
    good = (STREAM_MAGIC in payload[:19]) if container == "stream" else payload[:4] == AVRO_MAGIC
    if not good:
        ctx.violation(None, "%s: the (decompressed) file does not start with the %s container magic" % (what, container),
                      detail=dict(detail, leading=payload[:24].hex()))
        ok = False
    neutral = tmp_name(ctx, "neutral", ".bin")
    shutil.copyfile(path, neutral)
    f = open(path, "rb")
    try:
        for naming, make in (("ext", lambda: RecordReader(url)),
                             ("neutral", lambda: RecordReader(neutral if container == "stream" else "avro://" + neutral)),
                             ("buffered", lambda: RecordReader(fileobj=f))):
            rd, got, err = drain(make)
            d = dict(detail, naming=naming)
            if err is not None:
                ctx.violation(None, "%s via %s: reading raised %s" % (what, naming, type(err).__name__),
                              detail=dict(d, exception=repr(err)[:300], records_before_error=len(got)))
                ok = False
                continue
            if not reader_class_ok(rd, container):
                ctx.violation(None, "%s via %s: RecordReader returned %s" % (what, naming, type(rd).__name__), detail=d)
                ok = False
            if not compare(ctx, container, records, before, got, "%s via %s" % (what, naming), d):
                ok = False
            ctx.event("records_read", len(got))
    finally:
        f.close()
        _rm(neutral)
    return ok


def execute_interleave(ctx, case):
    """Several writers of one codec open at the same time, writes alternating; then several readers iterated in lockstep."""
    from flow.record import RecordReader, RecordWriter

    codec, container, nw = case["codec"], case["container"], case["writers"]
    rng = random.Random(case["s"])
    big = not ctx.quick
    seqs = [sized_records(container, case["s"] + 101 * i, rng.choice([30, 80, 200] if not big else [200, 800, 3000])) for i in range(nw)]
    ctx.ev()
    befores = [[observe.normalise(observe.obs(r)) for r in recs] for recs in seqs]
    paths = [cell_path(ctx, codec, container, "il%d-" % i) for i in range(nw)]
    detail = {"codec": codec, "container": container, "writers": nw, "close_order": case["close"], "records": [len(x) for x in seqs]}
    what = "%d files open at once" % nw
    try:
        writers = [RecordWriter(url) for _, url in paths]
        its = [iter(x) for x in seqs]
        live = list(range(nw))
        while live:
            for i in list(live):
                burst = rng.choice([1, 1, 2, 5])
                for _ in range(burst):
                    r = next(its[i], None)
                    if r is None:
                        live.remove(i)
                        break
                    writers[i].write(r)
                if rng.random() < 0.05 and i in live:
                    writers[i].flush()
        order = list(range(nw)) if case["close"] == "fifo" else list(reversed(range(nw)))
        for i in order:
            writers[i].flush()
            writers[i].close()
    except Exception as e:  # noqa: BLE001
        ctx.violation(None, "%s: interleaved writing raised %s" % (what, type(e).__name__), detail=dict(detail, exception=repr(e)[:300]))
        for p, _ in paths:
            _rm(p)
        return
    ctx.event("interleaved_writer_groups")
    ok = True
    for i, (p, url) in enumerate(paths):
        ok = verify_file(ctx, codec, container, p, url, seqs[i], befores[i], dict(detail, file=i), what + ", each file on its own", cli=(i == 0)) and ok
    # readers in lockstep: by path/URL, then over buffered file objects (extension-driven and sniffed decompression)
    for mode in ("ext", "buffered"):
        files = []
        try:
            if mode == "ext":
                readers = [RecordReader(url) for _, url in paths]
            else:
                files = [open(p, "rb") for p, _ in paths]
                readers = [RecordReader(fileobj=f) for f in files]
            its = [iter(r) for r in readers]
            gots = [[] for _ in range(nw)]
            live = list(range(nw))
            while live:
                for i in list(live):
                    r = next(its[i], None)
                    if r is None:
                        live.remove(i)
                    else:
                        gots[i].append(r)
            for r in readers:
                r.close()
        except Exception as e:  # noqa: BLE001
            ctx.violation(None, "%s: reading them in lockstep (%s) raised %s" % (what, mode, type(e).__name__),
                          detail=dict(detail, exception=repr(e)[:300]))
            ok = False
            continue
        finally:
            for f in files:
                f.close()
        for i in range(nw):
            if not compare(ctx, container, seqs[i], befores[i], gots[i], "%s, read in lockstep (%s)" % (what, mode), dict(detail, file=i)):
                ok = False
        ctx.event("lockstep_reader_groups")
    for p, _ in paths:
        _rm(p)
    if ok:
        ctx.cell("interleave", codec, container, nw, case["close"])
    ctx.nontrivial("interleave", codec, container, nw, case["close"], case["s"])
    ctx.sample({"case": case, "records": detail["records"]}, kind="interleave:" + codec)


def execute_overwrite(ctx, case):
    """A path that already holds a longer file (same codec, or other data) is written again: only the new data may remain."""
    from flow.record import RecordWriter

    codec, container, prior = case["codec"], case["container"], case["prior"]
    long_recs = sized_records(container, case["s"] + 5, 600 if ctx.quick else 4000)
    short_recs = sized_records(container, case["s"] + 9, random.Random(case["s"]).choice([1, 2, 5]))
    ctx.ev()
    before = [observe.normalise(observe.obs(r)) for r in short_recs]
    path, url = cell_path(ctx, codec, container, "ow")
    detail = {"codec": codec, "container": container, "prior": prior, "long": len(long_recs), "short": len(short_recs)}
    what = "overwriting an existing file (%s)" % prior
    try:
        if prior == "same-longer":
            w = RecordWriter(url)
            try:
                for r in long_recs:
                    w.write(r)
            finally:
                w.flush()
                w.close()
        else:
            # the path previously held something else: a long PLAIN stream (for a codec path) / long gzip data (for a plain path)
            other = tmp_name(ctx, "prior", ".records" if codec != "none" else ".records.gz")
            w = RecordWriter(other)
            try:
                for r in sized_records("stream", case["s"] + 13, 600 if ctx.quick else 4000):
                    w.write(r)
            finally:
                w.flush()
                w.close()
            shutil.copyfile(other, path)
            _rm(other)
        detail["prior_bytes"] = os.path.getsize(path)
        w = RecordWriter(url)
        try:
            for r in short_recs:
                w.write(r)
        finally:
            w.flush()
            w.close()
        detail["new_bytes"] = os.path.getsize(path)
    except Exception as e:  # noqa: BLE001
        ctx.violation(None, "%s raised %s" % (what, type(e).__name__), detail=dict(detail, exception=repr(e)[:300]))
        _rm(path)
        return
    if verify_file(ctx, codec, container, path, url, short_recs, before, detail, what):
        ctx.cell("overwrite", codec, container, prior)
    ctx.event("overwrites")
    _rm(path)
    ctx.nontrivial("overwrite", codec, container, prior, case["s"])


TOUCH_WORKER = (
    "import sys, warnings\n"
    "warnings.simplefilter('ignore')\n"
    "from flow.record import RecordReader, RecordWriter\n"
    "mode, src, out = sys.argv[1:4]\n"
    "if mode == 'peek':\n"
    "    if not sys.stdin.buffer.peek(1):\n"
    "        sys.exit('no input')\n"
    "elif mode == 'line':\n"
    "    line = sys.stdin.buffer.readline()\n"
    "    assert line == b'#records follow\\n', line\n"
    "rd = RecordReader() if src == 'NONE' else RecordReader(src)\n"
    "w = RecordWriter(out)\n"
    "n = 0\n"
    "for r in rd:\n"
    "    w.write(r); n += 1\n"
    "w.flush(); w.close()\n"
    "sys.stdout.write('%s %d' % (type(rd).__name__, n))\n"
)


def execute_stdin_touch(ctx, case):
    """The real standard input of a python subprocess (a pipe, or redirected from a regular file) carries the file; the
    program may have looked at / read a leading line from sys.stdin.buffer before it creates RecordReader('-')."""
    from flow.record import RecordReader, RecordWriter

    codec, container, touch, how = case["codec"], case["container"], case["touch"], case["stdin"]
    ctx.state["stdin_touch_cases"] = ctx.state.get("stdin_touch_cases", 0) + 1
    rng = random.Random(case["s"])
    records = sized_records(container, case["s"] + 3, rng.choice([3, 40, 400] if ctx.quick else [40, 400, 5000]))
    ctx.ev()
    before = [observe.normalise(observe.obs(r)) for r in records]
    path, url = cell_path(ctx, codec, container, "st")
    w = RecordWriter(url)
    try:
        for r in records:
            w.write(r)
    finally:
        w.flush()
        w.close()
    with open(path, "rb") as f:
        data = f.read()
    _rm(path)
    if touch == "line":
        data = MARKER_LINE + data
    src = ("-", "NONE")[rng.randrange(2)]
    out = tmp_name(ctx, "touch-out", ".records")
    argv = [sys.executable, "-c", TOUCH_WORKER, touch, src, out]
    detail = {"codec": codec, "container": container, "stdin": how, "before_reader": touch, "source": src, "records": len(records),
              "stdin_bytes": len(data)}
    stdin_path = None
    try:
        if how == "file":
            stdin_path = tmp_name(ctx, "stdin", ".bin")
            with open(stdin_path, "wb") as f:
                f.write(data)
            with open(stdin_path, "rb") as f:
                p = subprocess.run(argv, stdin=f, stdout=subprocess.PIPE, stderr=subprocess.PIPE, timeout=600, env=ctx.state["env"], cwd=ctx.state["tmp"])
        else:
            p = subprocess.run(argv, input=data, stdout=subprocess.PIPE, stderr=subprocess.PIPE, timeout=600, env=ctx.state["env"], cwd=ctx.state["tmp"])
    except subprocess.TimeoutExpired:
        ctx.require(False, "a subprocess reading its real stdin did not finish within 600 s")
        return
    finally:
        if stdin_path:
            _rm(stdin_path)
    ctx.event("stdin_touch:%s/%s" % (touch, how))
    what = "real stdin (%s), program %s before RecordReader" % (how, {"untouched": "did nothing", "peek": "peeked at sys.stdin.buffer",
                                                                       "line": "read a leading line from sys.stdin.buffer"}[touch])
    stdout, stderr = p.stdout.decode("utf-8", "replace"), p.stderr.decode("utf-8", "replace")
    d2 = dict(detail, returncode=p.returncode, stderr=stderr[-600:])
    if p.returncode != 0 or not os.path.exists(out):
        ctx.violation(None, "%s: reading failed" % what, detail=d2)
    else:
        if stdout.split(" ")[0] != ("AvroReader" if container == "avro" else "StreamReader"):
            ctx.violation(None, "%s: RecordReader returned %s" % (what, stdout.split(" ")[0]), detail=d2)
        rd, got, err = drain(lambda: RecordReader(out))
        if err is not None:
            ctx.violation(None, "%s: the stream the subprocess wrote cannot be read" % what, detail=dict(d2, exception=repr(err)[:300]))
        elif compare(ctx, container, records, before, got, what, d2):
            ctx.cell("stdin-touch", codec, container, touch, how)
    _rm(out)
    ctx.nontrivial("stdin-touch", codec, container, touch, how, case["s"])


def execute_compound(ctx, case):
    """x<inner>.<codec> given to RecordWriter as a plain path: the last extension decides -> a <codec>'d record stream."""
    from flow.record import RecordWriter

    codec, inner = case["codec"], case["inner"]
    records = sized_records("stream", case["s"], random.Random(case["s"]).choice([1, 3, 20]))
    ctx.ev()
    before = [observe.normalise(observe.obs(r)) for r in records]
    path = tmp_name(ctx, "cx", inner + "." + codec)
    detail = {"name": "x" + inner + "." + codec, "records": len(records)}
    what = "compound extension"
    try:
        w = RecordWriter(path)
        try:
            for r in records:
                w.write(r)
        finally:
            w.flush()
            w.close()
    except Exception as e:  # noqa: BLE001
        ctx.violation(None, "%s: writing raised %s" % (what, type(e).__name__), detail=dict(detail, exception=repr(e)[:300]))
        _rm(path)
        return
    if verify_file(ctx, codec, "stream", path, path, records, before, detail, what, cli=False):
        ctx.cell("compound", inner, codec)
    ctx.event("compound_files")
    _rm(path)
    ctx.nontrivial("compound", inner, codec, case["s"])


def execute_cell(ctx, case):
    from flow.record import RecordReader, RecordWriter

    codec, container, seq = case["codec"], case["container"], case["seq"]
    records = build_records(case, not ctx.quick)
    if not isinstance(seq, int):
        ctx.event("matrix_flavour:" + seq)
        seq = {"zero": 0, "one": 1, "versions": 2}[seq] + (case["s"] & 1)
    ctx.ev()
    before = [observe.normalise(observe.obs(r)) for r in records]
    for r in records:
        observe.assert_typed(r, "written")
    ext = "" if codec == "none" else "." + codec
    if container == "stream":
        path = tmp_name(ctx, "w", ".records" + ext)
        url = path
    elif codec == "none":
        path = tmp_name(ctx, "w", ".avro")
        url = path
    else:
        path = tmp_name(ctx, "w", ext)  # a path's last extension decides the codec; the scheme names the container
        url = "avro://" + path
    cellname = "%s/%s" % (codec, container)
    detail = {"codec": codec, "container": container, "url": url.replace(ctx.state["tmp"], "<tmp>"), "records": len(records)}

    # -- write with the real writer
    try:
        w = RecordWriter(url)
        try:
            for r in records:
                w.write(r)
        finally:
            w.flush()
            w.close()
    except Exception as e:  # noqa: BLE001
        ctx.violation(None, "writing a %s file raised %s" % (container, type(e).__name__), detail=dict(detail, exception=repr(e)[:300]))
        return
    with open(path, "rb") as f:
        raw = f.read()
    ctx.event("files_written")
    ctx.event("bytes_written", len(raw))

    # -- the written file: magic, independent decompression, payload
    payload = raw
    if codec != "none":
        magic = CODEC_MAGIC[codec]
        if raw[:len(magic)] != magic:
            ctx.violation(None, "a file written to a .%s path does not start with the %s magic" % (codec, codec),
                          detail=dict(detail, leading=raw[:8].hex()))
        try:
            payload = independent_decompress(codec, raw)
            ctx.event("independent_decompress_ok:" + codec)
        except Exception as e:  # noqa: BLE001
            payload = None
            ctx.violation(None, "an independent %s decompressor rejects the written file" % codec,
                          detail=dict(detail, exception=repr(e)[:300], leading=raw[:8].hex()))
        ok, msg = cli_test(ctx, codec, path)
        if ok is False:
            ctx.violation(None, "`%s -t` rejects the written file" % CODEC_CLI[codec], detail=dict(detail, stderr=msg))
    if payload is not None:
        good = (STREAM_MAGIC in payload[:19]) if container == "stream" else payload[:4] == AVRO_MAGIC
        if not good:
            ctx.violation(None, "the (decompressed) file does not start with the %s container magic" % container,
                          detail=dict(detail, leading=payload[:24].hex()))
        else:
            ctx.event("payload_magic_ok")
        if codec != "none":
            rd, got, err = drain(lambda: RecordReader(fileobj=io.BytesIO(payload)))
            if err is not None:
                ctx.violation(None, "the independently decompressed payload cannot be read (%s)" % type(err).__name__,
                              detail=dict(detail, exception=repr(err)[:300]))
            else:
                compare(ctx, container, records, before, got, "independently decompressed payload", detail)
                ctx.event("payload_read_back")

    # -- every way of naming the source
    detail0 = detail

    def one(naming, make_reader, sub="", note=None):
        rd, got, err = drain(make_reader)
        what = "via %s%s" % (naming, sub)
        detail = dict(detail0, note=note) if note else detail0
        ctx.event("reads:" + naming)
        if err is not None:
            ctx.violation(None, "%s: reading raised %s" % (what, type(err).__name__),
                          detail=dict(detail, naming=naming + sub, exception=repr(err)[:300], records_before_error=len(got)))
            return
        if not reader_class_ok(rd, container):
            ctx.violation(None, "%s: RecordReader returned %s" % (what, type(rd).__name__), detail=dict(detail, naming=naming + sub))
        if compare(ctx, container, records, before, got, what, dict(detail, naming=naming + sub)):
            ctx.cell(codec, container, naming)
            if not isinstance(case["seq"], int):
                ctx.cell("flavour", case["seq"], codec, container, naming)
            ctx.nontrivial("cell", codec, container, case["s"], naming, sub, note)
        ctx.event("records_read", len(got))

    one("ext", lambda: RecordReader(url))
    for k, suffix in enumerate((".bin", "")):
        neutral = tmp_name(ctx, "neutral", suffix)
        shutil.copyfile(path, neutral)
        nurl = neutral if container == "stream" else "avro://" + neutral
        one("neutral", lambda: RecordReader(nurl), sub=("" if k == 0 else "(no extension)"))
        _rm(neutral)
    f = open(path, "rb")
    try:
        one("buffered", lambda: RecordReader(fileobj=f))
    finally:
        f.close()
    one("bytesio", lambda: RecordReader(fileobj=io.BytesIO(raw)))
    f = io.FileIO(path, "r")
    try:
        one("raw", lambda: RecordReader(fileobj=f), sub="(io.FileIO)")
    finally:
        f.close()
    one("raw", lambda: RecordReader(fileobj=MinimalRaw(raw)), sub="(minimal RawIOBase)")

    # stdin of a subprocess which re-writes what it reads as a plain record stream: rdump with '-' / without a source,
    # rdump with stdin named through an explicit scheme, and a worker doing RecordReader('<scheme>://-')
    ci = CODECS.index(codec)
    scheme = "stream" if container == "stream" else "avro"
    dash, bare = scheme + "://-", scheme + "://"  # both spellings per cell: they alternate over the sequences
    stdin_variants = [
        ("stdin", (seq + ci) % 2, "rdump - -w" if (seq + ci) % 2 == 0 else "rdump -w"),
        ("stdin-scheme", dash if (seq + ci) % 2 == 0 else bare, None),
        ("stdin-scheme-worker", ("worker", bare if (seq + ci) % 2 == 0 else dash), None),
    ]
    for naming, variant, label in stdin_variants:
        rc, stderr, out, stdout = run_rdump(ctx, raw, variant)
        if rc is None:
            continue
        if label is None:
            label = ("rdump %s -w" % variant) if isinstance(variant, str) else ("RecordReader(%r) in a subprocess" % variant[1])
        what = "via stdin (%s)" % label
        d2 = dict(detail, naming=naming, returncode=rc, stderr=stderr[-600:])
        ctx.event("reads:" + naming)
        ctx.event("stdin_form:" + label.replace(scheme + "://", "<scheme>://"))
        if rc != 0 or not os.path.exists(out):
            ctx.violation(None, "%s: the subprocess failed" % what, detail=d2)
        else:
            if isinstance(variant, tuple) and stdout.split(" ")[0] != ("AvroReader" if container == "avro" else "StreamReader"):
                ctx.violation(None, "%s: RecordReader returned %s" % (what, stdout.split(" ")[0]), detail=d2)
            rd, got, err = drain(lambda: RecordReader(out))
            if err is not None:
                ctx.violation(None, "%s: the stream the subprocess wrote cannot be read" % what, detail=dict(d2, exception=repr(err)[:300]))
            elif compare(ctx, container, records, before, got, what, d2):
                ctx.cell(codec, container, naming)
                ctx.nontrivial("cell", codec, container, case["s"], naming, label)
        _rm(out)

    # file objects positioned at a non-zero offset: the leading bytes are the bytes from the current position
    if codec == "none":
        offset_reads(ctx, case, container, records, before, raw, detail, one)
    _rm(path)
    ctx.event("records_written", len(records))
    ctx.sample({"case": case, "url": detail["url"], "file_bytes": len(raw), "leading_bytes": raw[:8].hex(),
                "records": workload.describe(records, 2)}, kind=cellname)


def offset_reads(ctx, case, container, records, before, raw, detail, one):
    """A preamble of other bytes followed by the complete plain container, the object seek()ed to the start of the payload
    before it is handed to RecordReader(fileobj=...): exactly the payload's records must come back."""
    from flow.record import RecordReader, RecordWriter

    rng = random.Random(case["s"] ^ 0x0FF5E7)
    # a complete other file of the same container with different records ("two files back to back, positioned at the second")
    other_case = dict(case, s=case["s"] + 7919, seq=0)
    other_path = tmp_name(ctx, "other", ".records" if container == "stream" else ".avro")
    w = RecordWriter(other_path)
    try:
        for r in build_records(other_case, False):
            w.write(r)
    finally:
        w.flush()
        w.close()
    with open(other_path, "rb") as f:
        other = f.read()
    _rm(other_path)
    preambles = {
        "1-byte": b"#",
        "text": b"some leading text that is not part of the payload\n",
        "gzip-looking": b"\x1f\x8b\x08\x00 looks like the start of a gzip member",
        "other-container-magic": (AVRO_MAGIC + b"\x00" * 20) if container == "stream" else (b"\x00\x00\x00\x0f\xc4\x0d" + STREAM_MAGIC),
        "random-9000": bytes(rng.randrange(256) for _ in range(9000)),
        "second-of-two-files": other,
    }
    for pname, pre in preambles.items():
        data = pre + raw
        for okind in ("bytesio", "buffered", "raw"):
            path = None
            if okind == "bytesio":
                f = io.BytesIO(data)
            else:
                path = tmp_name(ctx, "offset", ".bin")
                with open(path, "wb") as out:
                    out.write(data)
                f = open(path, "rb") if okind == "buffered" else io.FileIO(path, "r")
            try:
                f.seek(len(pre))
                one("offset-" + okind, lambda: RecordReader(fileobj=f), note="preamble of %d bytes: %s; object seek()ed to the payload" % (len(pre), pname))
            finally:
                try:
                    f.close()
                except Exception:
                    pass
                if path:
                    _rm(path)
            ctx.event("offset_reads")


# ---- junk -------------------------------------------------------------------------------------------------------------
def junk_bytes(kind, seed):
    rng = random.Random(seed)

    def rnd(n):
        while True:
            b = bytes(rng.randrange(256) for _ in range(n))
            if STREAM_MAGIC in b[:40] or b[:1] in (b"\x1f", b"B", b"\x04", b"\x28", b"O"):
                continue  # must not accidentally be (the start of) one of the formats
            return b

    inner = {"text": b"hello world, this is plain text and certainly not a record stream\n" * rng.choice([1, 3, 200]),
             "random": rnd(rng.choice([1, 7, 64, 3000])), "empty": b""}
    if kind == "empty":
        return b""
    if kind == "text":
        return inner["text"]
    if kind == "record-repr":
        return b"<test/record s='x' v=1>\n<test/record s='y' v=2>\n"
    if kind == "random":
        return rnd(rng.choice([1, 2, 3, 4, 18, 19, 20, 64]))
    if kind == "random-long":
        return rnd(rng.choice([5000, 70000]))
    if kind == "nul":
        return b"\x00" * rng.choice([1, 4, 19, 100, 9000])
    if kind == "avro-magic+junk":
        return AVRO_MAGIC + rnd(rng.choice([0, 5, 200]))
    if kind == "json-line":
        return b'{"_type": "record", "s": "x"}\n'
    if kind == "csv-text":
        return b"s,v\r\nx,1\r\n"
    if kind.endswith("-magic+junk"):
        return CODEC_MAGIC[kind.split("-")[0]] + rnd(rng.choice([1, 10, 500]))
    if kind.endswith("-magic-only"):
        return CODEC_MAGIC[kind.split("-")[0]]
    if kind.startswith("bogus-hdr@"):
        return bogus_header_input(kind, rng, rnd)
    codec, _, rest = kind.partition("(")
    rest = rest[:-1]
    data = bogus_header_input(rest, rng, rnd) if rest.startswith("bogus-hdr@") else inner[rest]
    if codec == "gz":
        return gzip.compress(data)
    if codec == "bz2":
        return bz2.compress(data)
    if codec == "lz4":
        import lz4.frame

        return lz4.frame.compress(data)
    import zstandard

    return zstandard.ZstdCompressor().compress(data)


def genuine_frames(rng):
    """The frames (descriptor + records) of a real record stream, without its 19-byte header frame."""
    from flow.record import RecordDescriptor, RecordStreamWriter

    desc = RecordDescriptor("bogus/test", [("string", "s"), ("varint", "v")])
    buf = io.BytesIO()
    w = RecordStreamWriter(buf)
    for i in range(rng.choice([1, 3, 40])):
        w.write(desc.recordType(s="value %d" % i, v=rng.randint(-1000, 1000)))
    w.flush()
    data = buf.getvalue()
    w.fp = None  # keep the writer from closing the buffer a second time
    assert data[6:19] == STREAM_MAGIC and len(data) > 19
    return data[19:]


def bogus_header_input(kind, rng, rnd):
    """'bogus-hdr@K+TAIL': K arbitrary bytes, the magic text, then TAIL.  Always longer than 19 bytes, never a valid header
    frame (for K < 6 the magic does not sit at offset 6; for K > 6 neither)."""
    k, _, tail = kind[len("bogus-hdr@"):].partition("+")
    k = int(k)
    lead = rnd(k) if (k and rng.random() < 0.5) else (b"#! text\n  "[:k] if k else b"")
    head = lead + STREAM_MAGIC
    if tail == "text":
        data = head + b"this file merely starts with the words of the magic\nsecond line\n" * rng.choice([1, 50])
    elif tail == "frames":
        data = head + genuine_frames(rng)
    else:
        data = head + rnd(6 - k) + genuine_frames(rng)
    assert len(data) > 19 and data[6:19] != STREAM_MAGIC
    return data


def execute_junk(ctx, case):
    from flow.record import RecordReader

    kind, via = case["kind"], case["via"]
    data = junk_bytes(kind, case["s"])
    ctx.ev()
    detail = {"junk": kind, "via": via, "bytes": data[:48].hex(), "length": len(data)}
    if via == "stdin":
        rc, stderr, out, _ = run_rdump(ctx, data, (0, 1, "stream://-", "stream://", "avro://-")[case["s"] % 5])
        if rc is None:
            return
        got, err = [], None
        if os.path.exists(out):
            _, got, err = drain(lambda: RecordReader(out))
        _rm(out)
        lines = [ln for ln in stderr.splitlines() if ln.strip() and "[reading from stdin]" not in ln]
        detail.update(returncode=rc, stderr=stderr[-500:])
        if got:
            ctx.violation(None, "rdump turned junk on stdin into records", detail=dict(detail, records=workload.describe(got, 3)))
        elif rc == 0 and not lines:
            ctx.violation(None, "rdump accepted junk on stdin silently (no error, exit 0)", detail=detail)
        else:
            ctx.event("junk_refused:stdin")
            ctx.cell("junk", kind, via)
        ctx.nontrivial("junk", kind, via, case["s"])
        return
    path = None
    f = None
    try:
        if via == "bytesio":
            make = lambda: RecordReader(fileobj=io.BytesIO(data))  # noqa: E731
        elif via == "raw":
            make = lambda: RecordReader(fileobj=MinimalRaw(data))  # noqa: E731
        else:
            suffix = ".bin"
            if via == "ext":
                codec = kind.split("-")[0].split("(")[0]
                suffix = {"gz": ".records.gz", "bz2": ".records.bz2", "lz4": ".records.lz4", "zst": ".records.zst"}.get(codec, ".records")
                if kind == "avro-magic+junk":
                    suffix = ".avro"
            path = tmp_name(ctx, "junk", suffix)
            with open(path, "wb") as out:
                out.write(data)
            if via == "buffered":
                f = open(path, "rb")
                make = lambda: RecordReader(fileobj=f)  # noqa: E731
            elif via == "neutral-avro":
                make = lambda: RecordReader("avro://" + path)  # noqa: E731
            else:
                make = lambda: RecordReader(path)  # noqa: E731
        rd, got, err = drain(make)
    finally:
        if f is not None:
            f.close()
        if path:
            _rm(path)
    if got:
        ctx.violation(None, "junk input was misread as records", detail=dict(detail, yielded=len(got), first=repr(got[0])[:200],
                                                                             reader=type(rd).__name__))
    elif err is None:
        ctx.violation(None, "junk input was accepted as an empty source instead of being refused", detail=dict(detail, reader=type(rd).__name__))
    else:
        ctx.event("junk_refused:" + via)
        ctx.event("junk_error:" + type(err).__name__)
        ctx.cell("junk", kind, via)
    ctx.nontrivial("junk", kind, via, case["s"])
    ctx.sample({"case": case, "bytes": data[:32].hex(), "refused_with": type(err).__name__ if err else None}, kind="junk:" + via)


# ---- JSON / CSV by extension ----------------------------------------------------------------------------------------
def execute_text_ext_empty(ctx, case, desc):
    """A JSON / CSV file into which no record was written: whatever the reader does with it (today: nothing for JSON, an
    error for the 0-byte CSV file), no record may appear."""
    from flow.record import RecordReader, RecordWriter

    ext = case["ext"]
    ctx.ev()
    path = tmp_name(ctx, "t0", ext)
    try:
        w = RecordWriter(path)
        w.flush()
        w.close()
    except Exception as e:  # noqa: BLE001
        ctx.violation(None, "creating a %s file without records raised %s" % (ext, type(e).__name__), detail={"exception": repr(e)[:300]})
        return
    rd, got, err = drain(lambda: RecordReader(path))
    _rm(path)
    if got:
        ctx.violation(None, "records appear in a %s file into which none was written" % ext, detail={"records": len(got)})
    else:
        ctx.cell("by-extension-empty", ext, "refused" if err is not None else "empty")
    ctx.nontrivial("text-ext-empty", ext)


def execute_text_ext(ctx, case):
    from flow.record import RecordDescriptor, RecordReader, RecordWriter
    from flow.record.adapter.csvfile import CsvfileReader, CsvfileWriter
    from flow.record.adapter.jsonfile import JsonfileReader, JsonfileWriter

    ext = case["ext"]
    rng = random.Random(case["s"])
    names = gen.unique_names(rng, 2)
    desc = RecordDescriptor(gen.rand_typename(rng), [("string", names[0]), ("varint", names[1])])
    records = [desc.recordType(**{names[0]: "v%d-%s" % (i, rng.choice(["a b", "ünï", "x,y", "q\"q", "plain"])), names[1]: rng.randint(-(2**40), 2**40)})
               for i in range(case.get("n", rng.choice([1, 3, 10])))]
    if not records:
        return execute_text_ext_empty(ctx, case, desc)
    ctx.ev()
    path = tmp_name(ctx, "t", ext)
    detail = {"ext": ext, "records": len(records)}
    want_w, want_r = (CsvfileWriter, CsvfileReader) if ext == ".csv" else (JsonfileWriter, JsonfileReader)
    try:
        w = RecordWriter(path)
        wcls = type(w)
        try:
            for r in records:
                w.write(r)
        finally:
            w.flush()
            w.close()
    except Exception as e:  # noqa: BLE001
        ctx.violation(None, "writing a %s file raised %s" % (ext, type(e).__name__), detail=dict(detail, exception=repr(e)[:300]))
        return
    if not issubclass(wcls, want_w):
        ctx.violation(None, "RecordWriter('x%s') returned %s" % (ext, wcls.__name__), detail=detail)
    with open(path, "rb") as f:
        raw = f.read()
    text_ok = True
    try:
        text = raw.decode("utf-8")
        if ext == ".csv":
            import csv

            rows = list(csv.reader(io.StringIO(text, newline="")))
            text_ok = len(rows) == len(records) + 1 and rows[0][:2] == names and [r[0] for r in rows[1:]] == [getattr(x, names[0]) for x in records]
        else:
            objs = [json.loads(ln) for ln in text.splitlines() if ln.strip()]
            recs = [o for o in objs if isinstance(o, dict) and o.get("_type") == "record"]
            text_ok = len(recs) == len(records) and [o.get(names[0]) for o in recs] == [getattr(x, names[0]) for x in records]
    except Exception as e:  # noqa: BLE001
        text_ok = False
        detail["text_error"] = repr(e)[:200]
    if not text_ok:
        ctx.violation(None, "the %s file is not the plain-text rendering of the records" % ext, detail=dict(detail, leading=raw[:200].decode("utf-8", "replace")))
    rd, got, err = drain(lambda: RecordReader(path))
    _rm(path)
    if err is not None:
        ctx.violation(None, "reading a %s file raised %s" % (ext, type(err).__name__), detail=dict(detail, exception=repr(err)[:300]))
        return
    if not isinstance(rd, want_r):
        ctx.violation(None, "RecordReader('x%s') returned %s" % (ext, type(rd).__name__), detail=detail)
    if len(got) != len(records):
        ctx.violation(None, "%s: %d records written, %d read" % (ext, len(records), len(got)), detail=detail)
    else:
        for a, b in zip(records, got):
            va, vb = str.__str__(getattr(a, names[0])), getattr(b, names[0], None)
            if vb is None or str.__str__(vb) != va:
                ctx.violation(None, "%s: a text field read back differs" % ext, detail=dict(detail, written=va, read=repr(vb)[:100]))
                break
            ia, ib = int(getattr(a, names[1])), getattr(b, names[1], None)
            if ext != ".csv" and (ib is None or int(ib) != ia):
                ctx.violation(None, "%s: an integer field read back differs" % ext, detail=dict(detail, written=ia, read=repr(ib)[:100]))
                break
        else:
            ctx.cell("by-extension", ext)
    ctx.event("text_ext_files")
    ctx.nontrivial("text-ext", ext, case["s"])


def _rm(path):
    try:
        os.unlink(path)
    except OSError:
        pass


def finish(ctx):
    ctx.state["reach"].into(ctx)
    ctx.exhaustive = True  # the codec x container x naming matrix and the junk kind x naming table are enumerated completely
    if ctx.shard == 0:
        ctx.note("matrix_cells_expected", len(CODECS) * len(CONTAINERS) * len(NAMINGS) + len(CONTAINERS) * len(OFFSET_NAMINGS))
        ctx.note("junk_cells_expected", len(JUNK_KINDS) * len(JUNK_VIAS))
        ctx.note("interleave_cells_expected", len(CODECS) * len(CONTAINERS) * 4)
        ctx.note("overwrite_cells_expected", len(CODECS) * len(CONTAINERS) * 2)
        ctx.note("compound_cells_expected", len(COMPOUND_INNER) * (len(CODECS) - 1))
        ctx.note("pipe_path_cells_expected", len(CODECS) * len(CONTAINERS) * len(sources_c11.PIPE_FORMS))
        ctx.note("names_cases_expected", (len(sources_c11.NAME_STEMS) + (0 if ctx.quick else len(sources_c11.NAME_STEMS_THOROUGH)))
                 * len(sources_c11.NAME_EXTS) * len(sources_c11.NAME_FORMS))
        ctx.note("foreign_cells_expected", 2 * sum(len(v) for v in sources_c11.FOREIGN_VARIANTS.values()))
        ctx.note("nested_cells_expected", 4 * 4 * 2 * 3)
        ctx.note("stdin_touch_cells_expected", len(CODECS) * len(CONTAINERS) * len(STDIN_TOUCH) * 2)
        ctx.note("cli_tools", {k: (v or "absent") for k, v in ctx.state["clis"].items()})
        ctx.note("rdump_argv0", ctx.state["rdump"])
    if ctx.evaluations:
        for q in ANCHORS:
            ctx.require(ctx.reach.get(q, 0) > 0, "anchor %s was never entered" % q)
        ran_pp = sum(v for k, v in ctx.events.items() if k.startswith("pipe_path:"))
        ctx.require(ran_pp == ctx.state.get("pipe_path_cases", 0), "a pipe-named-by-path case did not run to completion")
        ran = sum(v for k, v in ctx.events.items() if k.startswith("stdin_touch:"))
        ctx.require(ran == ctx.state.get("stdin_touch_cases", 0), "a real-stdin subprocess case did not run to completion")
        if ctx.nshards == 1:
            for touch in STDIN_TOUCH:
                for how in ("pipe", "file"):
                    ctx.require(ctx.events.get("stdin_touch:%s/%s" % (touch, how), 0) > 0, "real-stdin variant %s/%s never ran" % (touch, how))
        if ctx.events.get("files_written", 0):
            ctx.require(ctx.events.get("records_read", 0) > 0, "no record was read back through any naming")
