"""C08 - comparisons on a field the record lacks are false and never raise (DESIGN section 4, C08)."""
from __future__ import annotations

import ast
import contextlib
import io
import logging
import os
import re
import random
import shutil
import tempfile

from .. import observe, probes, refselector, selgen
from ..core import subseed
from ..refselector import Undefined, Unsupported, ref_match

ID = "C08"
TITLE = "comparisons on a missing field"
LEVEL = "exploration"
RULE = (
    "Sizes: quick runs part A on 2 pool records + 6 boundary records and one stream seed; thorough on 110 records (10 "
    "seed-dependent pools) with 6 additional nesting contexts (not not, and-or, all, nested any, ...), derived operands "
    "on the boundary records too, 20 stream seeds of 60 records and 10 seeds of 48 records for parts C-E.  "
    "Part A (exhaustive, identical for every seed): operator {== != < > <= >= in, not in} x position of the missing "
    "operand {left, right, both} x other operand {int, float, text, empty text, bytes, None, bool, list, tuple, empty "
    "list, every field kind of the 33-field pool record, typed matchers, net.* constructors, names(r), name(r)} "
    "restricted to well-typed combinations (a container on the right of in / not in when the missing field is on the "
    "left) x context {bare, not (..), (..) and True, (..) or False, any(.. for _ in [1])} x {interpreted, compiled}; "
    "derived operands (arithmetic on / attribute of the missing field) x the six comparison operators x both engines; "
    "helper functions x field lists {missing only, missing+present, present+missing}.  Oracle: the comparison is False "
    "(bare/and/or/any -> False, not -> True) and nothing is raised; helpers: the reference evaluator in lenient mode.  "
    "Part B: heterogeneous streams (3 descriptors, the compared field exists in only one) written as .records, "
    ".records.gz and .jsonl, filtered by RecordReader(path, selector=text | CompiledSelector) and by rdump in-process "
    "(compiled by default, -n interpreted) with comparison templates over every operator and the boolean contexts; "
    "oracle: output == [r for r in input if reference(expr, r, lenient)] by canonical observation, in particular "
    "nothing after the first record lacking the field is lost.  Part C: sequences mixing two descriptors that share a "
    "name, only one of which has the compared field, in both orders, through match() of one long-lived and of fresh "
    "selector objects (compiled and interpreted), RecordReader and rdump; same oracle.  Part D: the same for sequences "
    "of GroupedRecord objects of varying composition (a group lacking the field first, then groups having it, and the "
    "other order) over the binary stream formats.  Part E: plain JSON-lines sources (hand-written objects, each a record "
    "type of its own keys; the compared key present in some objects only, both orders) through RecordReader and rdump.  "
    "Part F: generators over a missing field (every clause position, nested generator iterables, if clauses, "
    "element).  Part G: comparisons on a field that a NESTED record lacks (r.sub.x, r.sub.inner.x, loop variables over a "
    "record[] field whose elements are of several types) in the table and through match / RecordReader / rdump; oracle: "
    "the missing-field rule applied per nested record.  Part H: the lacked field is named like an attribute or method "
    "records have or could get (dir(Record), dir(GroupedRecord), dict / list / str methods).  A case is non-trivial when at least one engine "
    "evaluation / one stream with records having and lacking the field was run; distinct = distinct (expression, "
    "record or stream seed, access path)."
)
ASSUMPTIONS = [
    "ill-typed membership (missing field `in` a non-container such as an int) is not part of the enumerated grammar",
    "identity operators (is / is not) are not comparisons in the sense of the property and are not enumerated",
    "iterating a missing field yields nothing (any -> False, all -> True), as the interpreted engine documents; attributes of a present but None-valued record field (r.sub.x with sub unset) are not missing fields and are not enumerated",
    "lower() / upper() of a missing field stay missing and are demanded false-and-never-raise; the text-producing calls str() / repr() / name() / names() / get_type() on a missing field yield ordinary text on the unchanged tree ('str(r.missing) != x' is true in both engines): they are evaluated and counted as observations (events observed:text-call-on-missing:*), not judged",
    "derived operands (arithmetic on / attribute chains of the missing field) are demanded false-and-never-raise from both engines for the operators of the language (+ * / % & |)",
    "stream selectors are comparison templates whose reference value is defined on every record of the stream",
]
SHARDS = {"quick": 8, "thorough": 16}
BUDGET_S = {"quick": 150, "thorough": 2400}

ANCHORS = [
    "flow.record.selector:NoneObject.__eq__",
    "flow.record.selector:NoneObject.__ne__",
    "flow.record.selector:NoneObject.__lt__",
    "flow.record.selector:NoneObject.__gt__",
    "flow.record.selector:NoneObject.__le__",
    "flow.record.selector:NoneObject.__ge__",
    "flow.record.selector:NoneObject.__contains__",
    "flow.record.selector:WrappedRecord.__getattr__",
    "flow.record.selector:RecordContextMatcher._eval",
    "flow.record.selector:CompiledSelector.match",
    "flow.record.selector:field_contains",
    "flow.record.selector:field_equals",
    "flow.record.selector:field_regex",
    "flow.record.stream:record_stream",
    "flow.record.stream:RecordStreamReader.__iter__",
    "flow.record.adapter.jsonfile:JsonfileReader.__iter__",
    "flow.record.tools.rdump:main",
]

OPS = ["==", "!=", "<", ">", "<=", ">=", "in", "not in"]
CONTEXTS = [("bare", "%s", False), ("not", "not (%s)", True), ("and-true", "(%s) and True", False), ("or-false", "(%s) or False", False),
            ("any", "any(%s for _v in [1])", False)]

# thorough only: one step deeper
MORE_CONTEXTS = [("not-not", "not (not (%s))", False), ("and-or", "((%s) and True) or False", False), ("all", "all(%s for _v in [1, 2])", False),
                 ("nested-any", "any(any(%s for _w in [1]) for _v in [1, 2])", False), ("or-not", "not ((%s) or False)", True),
                 ("all-empty", "all(%s for _v in [])", True)]

# (kind, source, may be the container on the right of `in` when the missing field is on the left)
OTHERS = [
    ("int", "1", False), ("float", "1.5", False), ("text", "'x'", True), ("empty-text", "''", True), ("bytes", "b'x'", True),
    ("None", "None", False), ("bool", "True", False), ("list", "[1]", True), ("tuple", "(1,)", True), ("empty-list", "[]", True),
    ("text-list", "['x', 'y']", True),
] + [("field:" + t, "r." + f, t in ("string", "wstring", "bytes", "string[]", "stringlist", "varint[]", "net.ipaddress[]", "path[]", "net.ipnetwork",
                                      "net.IPNetwork", "uri", "dictlist", "record[]"))
     for t, f in selgen.MAIN_FIELDS if f not in ("m", "t", "uport")] + [
    ("field:unset-metadata", "r._classification", False),
    ("typed:string", "Type.string", True), ("typed:varint", "Type.varint", False), ("typed:net.ipaddress", "Type.net.ipaddress", False),
    ("typed:net.ipnetwork", "Type.net.ipnetwork", True), ("typed:uri.filename", "Type.uri.filename", True),
    ("typed:absent-type", "Type.net.ipv4.Subnet", True),
    ("ctor:net.ipaddress", "net.ipaddress('10.0.0.1')", False), ("ctor:net.ipnetwork", "net.ipnetwork('10.0.0.0/8')", True),
    ("ctor:net.IPNetwork", "net.IPNetwork('::/0')", True), ("ctor:net.ipv4.Subnet", "net.ipv4.Subnet('10.0.0.0/8')", True),
    ("ctor:net.ipv4.Subnet/32", "net.ipv4.Subnet('10.0.0.1')", True), ("ctor:net.ipv4.Address", "net.ipv4.Address('10.0.0.1')", False),
    ("names(r)", "names(r)", True), ("name(r)", "name(r)", True),
]
# derived operands: arithmetic on / attributes of the missing field, (category, source)
DERIVED = [
    ("arith", "r.zz + 1"), ("arith", "1 + r.zz"), ("arith", "r.zz * 2"), ("arith", "2 * r.zz"), ("arith", "r.zz / 2"), ("arith", "r.zz % 2"),
    ("arith", "r.zz & 1"), ("arith", "r.zz | 1"), ("arith", "r.n + r.zz"), ("arith", "r.zz + r.nope"), ("arith", "(r.zz + 1) * 2"),
    ("arith", "r.s + r.zz"), ("arith", "r.zz.size + 1"),
    ("attr", "r.zz.year"), ("attr", "r.zz.a.b"), ("attr", "r.zz.filename"), ("attr", "r.zz.a.b.c.d"),
    # links with the reserved single-underscore names (metadata of a nested record field some record types lack)
    ("attr", "r.zz._source"), ("attr", "r.zz._generated.year"), ("attr", "r.zz._version"), ("attr", "r.zz._classification"),
    ("attr", "r.zz.sub._source"), ("attr", "r.zz._desc.name"), ("attr", "r.zz.sub._generated.year + 1"),
    # a field that a NESTED record lacks (r.sub is a sel/sub record: ss, sn, sip, su)
    ("nested", "r.sub.zz"), ("nested", "r.sub.zz.a"), ("nested", "r.sub.nope + 1"), ("nested", "lower(r.sub.zz)"), ("nested", "r.sub.zz._source"),
    # helper functions applied to the missing field: the result is still the missing field
    ("helper", "lower(r.zz)"), ("helper", "upper(r.zz)"), ("helper", "lower(upper(r.zz))"), ("helper", "lower(r.zz.a)"),
    ("helper", "upper(r.zz + 'x')"), ("helper", "lower(r.zz) + 'x'"), ("helper", "lower(r.zz._source)"), ("helper", "Type.nosuchtype"),
    # %-formatting: str / bytes never defer to the right operand's reflected method
    ("format", "'%s' % r.zz"), ("format", "'%d' % r.zz"), ("format", "b'%s' % r.zz"), ("format", "'%s' % r.zz.a"), ("format", "'port %s' % (r.zz + 1)"),
    ("format-tuple", "'%s-%s' % (r.zz, 1)"), ("format-tuple", "'%s-%s' % (r.n, r.zz)"), ("format-tuple", "'%d' % (r.zz,)"),
]
def attribute_like_names():
    """Field names a record type may LACK although every record object has (or could plausibly get) an attribute of
    that name: public attributes / methods of Record and GroupedRecord on this tree, dict / list / str method names and a
    few classics.  Names the pool record declares as fields are dropped."""
    import keyword

    from flow.record import GroupedRecord, Record

    names = {n for n in set(dir(Record)) | set(dir(GroupedRecord)) if not n.startswith("_")}
    names |= {n for n in set(dir(dict)) | set(dir(list)) if not n.startswith("_")}
    names |= {"name", "fields", "records", "descriptors", "type", "desc", "value", "data", "size", "length", "format", "lower", "upper", "strip",
              "split", "join", "encode", "find", "replace", "startswith", "isdigit", "real", "imag", "year", "path", "parent", "filename"}
    declared = {f for _, f in selgen.MAIN_FIELDS}
    return sorted(n for n in names if n not in declared and not keyword.iskeyword(n) and n.isidentifier())


ATTR_OTHERS = ("'x'", "1", "None", "['beta', 'x']", "r.s", "r.n")
DERIVED_OTHERS = ["0", "1", "5", "'x'", "'root'", "r.s", "'xrootx'", "None", "r.n", "[0]", "False", "'443'", "b'x'", "['beta', 'x']", "2000", "['a']",
                  "net.ipv4.Subnet('10.0.0.0/8')", "net.ipnetwork('10.0.0.0/8')", "net.IPNetwork('::/0')", "(1, 'x')"]
DERIVED_CONTAINERS = ("[", "(", "net.ipv4.Subnet", "net.ipnetwork", "net.IPNetwork", "'root'", "'xrootx'", "r.s")   # may stand on the right of in / not in

HELPERS = [
    "field_contains(r, %s, %s)", "field_contains(r, %s, %s, nocase=False)", "field_contains(r, %s, %s, word_boundary=True)",
    "field_equals(r, %s, %s)", "field_equals(r, %s, %s, nocase=False)", "field_regex(r, %s, %s)",
]
FIELD_LISTS = ["['zz']", "['zz', 'nope']", "['zz', 's']", "['s', 'zz']", "['nope', 't', 'zz', 's']", "[]", "['zz', 'w', 'nope']"]

TABLE_POOL_SEED = 8  # the enumerated part uses the same records for every seed


# ---- evaluating one comparison on both engines ---------------------------------------------------------
def run_engine(cls, expr, rec):
    try:
        return ("V", bool(cls(expr).match(rec))), None
    except Exception as e:  # noqa: BLE001
        return ("E", type(e).__name__), e


def other_values(src, rec):
    """Concrete value(s) of the non-missing operand on this record (for well-typedness and the classifiers)."""
    try:
        v = refselector._ev(ast.parse(src, mode="eval").body, refselector.make_namespace(rec, True))
    except (Undefined, Unsupported):
        return None
    if isinstance(v, refselector.RefTypeMatch):
        try:
            return list(v.values())
        except Undefined:
            return []
    return [v]


def is_container(v):
    return hasattr(v, "__contains__") or hasattr(v, "__iter__")


def classify_cmp(engine, op, pos, values, typed, got, exc):
    """Mechanism of a known defect, from the case itself: engine + operator + position + operand kind + failure mode.
    Only the two mechanisms still listed as `known` have a classifier (total __eq__ of field types, the ipv4 address
    __eq__, <= / >= of the sentinel and derived operands were repaired: they are plain violations again).

    pos: 'L' missing field on the left, 'R' on the right, 'B' both missing.  values: value(s) of the other operand.
    got: ('V', truth of the bare comparison) or ('E', exception class name)."""
    values = values or []
    # compiled engine: Python negates __contains__ itself, the sentinel / the container cannot answer `not in`
    if engine == "compiled" and op == "not in" and got == ("V", True):
        return "compiled-not-in-missing-field"
    # compiled engine: str / bytes / set / dict containers reject or cannot hash the sentinel -> TypeError
    if engine == "compiled" and op in ("in", "not in") and pos == "L" and got[0] == "E" and isinstance(exc, TypeError) and values \
            and all(isinstance(v, (str, bytes, bytearray, set, frozenset, dict)) for v in values):
        return "compiled-in-str-bytes-set-missing-field"
    return None


def classify_derived(engine, category, got, exc):
    """Derived operands: only %-formatting in the compiled engine is a known mechanism; arithmetic / attribute operands
    and the interpreted engine's tuple form were repaired (plain violations again)."""
    bad = got == ("V", True) or (got[0] == "E" and isinstance(exc, TypeError))
    # compiled engine: `<str|bytes literal> % <expression containing the missing field>`: str.__mod__ formats the
    # sentinel (through its repr, or TypeError for %d / bytes) instead of deferring to it
    if engine == "compiled" and category in ("format", "format-tuple") and bad:
        return "compiled-str-format-missing-field"
    # compiled engine: a nested record (value of a record field, element of a record[] field) is handed out unwrapped,
    # so a field IT lacks is an AttributeError instead of the sentinel
    if engine == "compiled" and category == "nested" and got[0] == "E" and isinstance(exc, AttributeError):
        return "compiled-nested-record-missing-field"
    # compiled engine: the sentinel is not iterable
    if engine == "compiled" and category == "iter" and got[0] == "E" and isinstance(exc, TypeError):
        return "compiled-iterating-missing-field"
    return None


# ---- harness -------------------------------------------------------------------------------------------
class _LogTap(logging.Handler):
    def __init__(self):
        super().__init__(level=logging.DEBUG)
        self.records = []

    def emit(self, record):
        if record.levelno >= logging.WARNING:
            try:
                self.records.append(record.getMessage()[:300])
            except Exception:  # noqa: BLE001
                self.records.append("<unformattable log record>")


def setup(ctx):
    ctx.state["reach"] = probes.Reach(ANCHORS)
    ctx.state["tmp"] = tempfile.mkdtemp(prefix="frv-c08-", dir=os.environ.get("VERIF_TMP", "/var/tmp"))
    ctx.state["pools"] = {}
    ctx.state["streams"] = {}
    tap = _LogTap()
    logging.getLogger("flow.record").addHandler(tap)
    ctx.state["tap"] = tap


def teardown(ctx):
    ctx.state["reach"].stop()
    logging.getLogger("flow.record").removeHandler(ctx.state["tap"])
    shutil.rmtree(ctx.state["tmp"], ignore_errors=True)


def boundary_records():
    """sel/main records whose PRESENT values sit at data boundaries: float nan / +-inf / -0.0, empty text / bytes / lists,
    0 / False, huge and most negative integers, datetime min / max, empty path / uri, unset digest, 0.0.0.0 and ::,
    /0 networks, None-valued fields."""
    import datetime as dt

    from flow.record.fieldtypes import command, path

    D = selgen.descriptors()
    utc = dt.timezone.utc
    sub0 = D["sel/sub"](ss="", sn=0, sip="0.0.0.0", su="")
    common = dict(u16=0, u32=0, fs=0, mode=0, port=0, uport=0, b=False, s="", t="", w="", by=b"", l=[], sl=[], nl=[], ips=[], pl=[],
                  u="", p=path.from_posix(""), dy=0, dl=[], subs=[])
    variants = [
        dict(common, n=0, m=0, f=float("nan"), d=dt.datetime.min.replace(tzinfo=utc), ip="0.0.0.0", ip2="::", nw="0.0.0.0/0", nw2="::/0",
             ip4="0.0.0.0", sub=sub0),
        dict(common, n=2**200, m=2**64, u16=65535, u32=2**32 - 1, fs=2**63, port=65535, f=float("inf"), d=dt.datetime.max.replace(tzinfo=utc),
             ip="::", ip2="255.255.255.255", nw="::/0", nw2="0.0.0.0/32", ip4="255.255.255.255", dy="", b=True, cmd=command.from_posix("x")),
        dict(common, n=-(2**63), m=-1, f=-0.0, ip="0.0.0.0", nw="0.0.0.0/0", dy=b"", dg=(None, None, None), l=[""], sl=[""], nl=[0], subs=[sub0]),
        dict(f=float("-inf")),                                       # every other field unset (None / empty default)
        dict(common, n=1, m=2, f=float("nan"), s="Hello", t="x", ip="10.0.0.1", nw="10.0.0.0/8", d=dt.datetime(2020, 1, 1, tzinfo=utc), dy=False),
        dict(common, n=0, m=0, f=0.0, dy=[]),
    ]
    return [D["sel/main"](**v) for v in variants]


def pool_for(ctx, seed):
    pools = ctx.state["pools"]
    if seed not in pools:
        pools[seed] = boundary_records() if seed == "boundary" else selgen.record_pool(random.Random(seed))
    return pools[seed]


class ExplainedSelector:
    """The interpreted engine entered through Selector.explain_selector(): same verdict, and no exception, as match()."""

    def __init__(self, expr):
        from flow.record.selector import Selector

        self.sel = Selector(expr)

    def match(self, rec):
        explain = getattr(self.sel, "explain_selector", None)
        if explain is None:
            return self.sel.match(rec)   # entry point absent on this tree: nothing to add
        res = explain(rec)
        for attr in ("backtrace", "referenced_fields"):   # the result object must be usable as well
            v = getattr(res, attr, None)
            if callable(v):
                v()
        return res.result


def engines():
    from flow.record.selector import CompiledSelector, Selector

    return (("interpreted", Selector), ("compiled", CompiledSelector), ("interpreted-explain", ExplainedSelector))


# same-name descriptors: two record types called alike, only one has the compared field `k`
SAME_NAME = "c08/same"
SAME_FIELDS = ([("varint", "seq"), ("varint", "k"), ("string", "s")], [("varint", "seq"), ("string", "s")])
SAME_TEMPLATES = ["r.k > 1", "r.k == 2", "r.k != 2", "r.k <= 3", "2 < r.k", "r.k in [1, 2, 3]", "r.k >= 2 and r.s != 'x'", "not (r.k == 2)",
                  "r.k + 1 > 2", "field_equals(r, ['k', 's'], ['Hello'])"]
SAME_VIAS = ("match-one-compiled", "match-fresh-compiled", "match-one-interpreted", "reader-text", "reader-compiled", "rdump", "rdump-n")


# plain JSON lines: every object is a record type of its own keys
PLAIN_TEMPLATES = [
    ("r.user == 'root'", "user"), ("r.user != 'root'", "user"), ("r.user == None", "user"), ("r.user != None", "user"), ("r.user < 'm'", "user"),
    ("r.user <= 'bob'", "user"), ("r.user > 'm'", "user"), ("r.user >= 'root'", "user"), ("'m' > r.user", "user"),
    ("r.user in ['root', 'bob']", "user"), ("'oo' in r.user", "user"), ("not (r.user == 'root')", None), ("r.pid > 10", "pid"),
    ("r.pid <= 10", "pid"), ("r.pid != 5", "pid"), ("r.pid == 5", "pid"), ("5 < r.pid", "pid"), ("r.pid in [5, 443]", "pid"),
    ("r.load >= 0.5", "load"), ("r.load < 0.5", "load"), ("r.pid + 1 > 10", "pid"), ("r.user == 'root' or r.pid > 10", None),
    ("r.user != 'root' and r.pid != 5", None), ("field_equals(r, ['user', 'host'], ['ROOT', 'alpha'])", None),
]
PLAIN_VIAS = ("reader-text", "reader-compiled", "rdump", "rdump-n")


# the interpreted engine's fields(<type>) helper: must answer for the CURRENT record, whatever the selector object saw before
FIELDS_TEMPLATES = ["any(f.name == 'k' for f in fields('varint'))", "all(f.name != 'k' for f in fields('varint'))",
                    "any(f.name == 'k' for f in fields('varint')) and r.k > 1", "any(f.name == 's' for f in fields('string')) and has_field(r, 'k')",
                    "not any(f.name == 'k' for f in fields('varint'))"]


def fields_expected(expr, rec):
    """Model of the fields() templates from the record's own descriptor."""
    has_k = any(t == "varint" and f == "k" for t, f in rec._desc.get_field_tuples())
    has_s = any(t == "string" and f == "s" for t, f in rec._desc.get_field_tuples())
    if expr.startswith("all("):
        return not has_k
    if expr.startswith("not "):
        return not has_k
    if "r.k > 1" in expr:
        return has_k and rec.k is not None and rec.k > 1
    if "'s'" in expr:
        return has_s and "k" in rec._desc.fields
    return has_k


GROUPED_EXTRA = ["r.f >= 1.5", "r.t == 'Hello'", "'ell' in r.t", "r.k > 1 and r.f > 1", "has_field(r, 'k')"]
# Type.<t> over grouped records: compositions lacking fields of type t and compositions where the same NAME has another type
GROUPED_TYPED = ["Type.varint == 2", "Type.varint > 1", "Type.varint in [1, 2, 3]", "Type.varint <= 2", "Type.string == 'Hello'", "'ell' in Type.string",
                 "Type.float >= 1.5", "field_contains(r, Type.string, ['ell'])", "Type.varint == 2 and has_field(r, 'k')", "not (Type.varint > 1)"]


def grouped_names(ti, order):
    """Field names private to one (template, order) sequence: whatever an implementation remembers per record CLASS
    (all grouped records share one) is wrong for the next sequence, whichever sequence the process saw first."""
    tag = "%d%s" % (ti, "a" if order == "with-field-first" else "b")
    return {"k": "k" + tag, "t": "t" + tag, "f": "f" + tag}


def grouped_expr(expr, ti, order):
    names = grouped_names(ti, order)
    for old, new in names.items():
        expr = expr.replace("r.%s" % old, "r.%s" % new).replace("'%s'" % old, "'%s'" % new)
    return expr


def table_rows():
    """The enumerated comparison grammar (independent of seed)."""
    for op in OPS:
        for kind, src, container in OTHERS:
            yield op, "L", kind, src, container, "r.zz %s %s" % (op, src)
            yield op, "R", kind, src, container, "%s %s r.zz" % (src, op)
        yield op, "B", "missing", "r.nope", True, "r.zz %s r.nope" % op


def generate(ctx):
    ctx.exhaustive = True
    # ---- part A: operator table
    recsets = [(TABLE_POOL_SEED, ri) for ri in (0, 6)]
    if not ctx.quick:
        recsets += [(TABLE_POOL_SEED, ri) for ri in (1, 2, 3, 4, 5, 7, 8, 9)]
        recsets += [(subseed("c08", ctx.seed, "pool", j), ri) for j in range(10) for ri in range(10)]
    recsets += [("boundary", ri) for ri in range(6)]   # present operands at data boundaries (same for every seed)
    idx = 0
    for pool_seed, ri in recsets:
        for op, pos, kind, src, container, cmp_src in table_rows():
            if ctx.mine(idx):
                yield {"k": "table", "op": op, "pos": pos, "kind": kind, "other": src, "container": container, "cmp": cmp_src,
                       "pool": pool_seed, "rec": ri}
            idx += 1
        if pool_seed == "boundary" and ctx.quick:
            continue   # quick: derived operands and helpers hardly look at the present values; thorough runs them too
        for category, dsrc in DERIVED + [("attrname", "r." + n) for n in attribute_like_names()]:
            for op in OPS[:6] + ["in"] + (["not in"] if category.startswith("format") or category == "helper" else []):
                for o in DERIVED_OTHERS:
                    if op in ("in", "not in") and not o.startswith(DERIVED_CONTAINERS):
                        continue
                    if category.startswith("format") and o.startswith("net."):
                        continue   # a formatted text is no address: ill-typed
                    if category == "attrname" and o not in ATTR_OTHERS:
                        continue
                    for fmt in ("%s {op} {o}", "{o} {op} %s"):
                        if op in ("in", "not in") and fmt.startswith("{o}") and category != "helper":
                            continue
                        pos = "L" if fmt.startswith("%s") else "R"
                        fmt = fmt.format(op=op, o=o)
                        if ctx.mine(idx):
                            yield {"k": "derived", "category": category, "op": op, "pos": pos, "other": o, "cmp": fmt % dsrc, "pool": pool_seed,
                                   "rec": ri}
                        idx += 1
            if category == "helper":
                for chain in ("'a' < %s <= 'z'", "'a' <= %s != 'root'", "%s == %s", "%s != %s", "r.s != %s != 'root'", "%s < 'z' > 'a'"):
                    if ctx.mine(idx):
                        yield {"k": "derived", "category": category, "op": "chain", "pos": "L", "other": "'z'",
                               "cmp": chain % ((dsrc,) * chain.count("%s")), "pool": pool_seed, "rec": ri}
                    idx += 1
        for call in ("str", "repr", "name", "names", "get_type"):
            for op in OPS[:6]:
                if ctx.mine(idx):
                    yield {"k": "observe", "cmp": "%s(r.zz) %s 'root'" % (call, op), "call": call, "pool": pool_seed, "rec": ri}
                idx += 1
        for h in HELPERS:
            for fl in FIELD_LISTS:
                for strings in ("['Hello']", "['hello', 'x']", "[r.s]", "['zz']", "['']"):
                    if "regex" in h:
                        strings = {"['Hello']": "'H.l+o'", "['hello', 'x']": "'^hello|x'", "[r.s]": "'o$'", "['zz']": "'zz'", "['']": "''"}[strings]
                    if ctx.mine(idx):
                        yield {"k": "helper", "expr": h % (fl, strings), "pool": pool_seed, "rec": ri}
                    idx += 1
        for f in ("zz", "nope", "s", "k"):
            if ctx.mine(idx):
                yield {"k": "helper", "expr": "has_field(r, %r)" % f, "pool": pool_seed, "rec": ri}
            idx += 1
    # ---- part C: two descriptors with the same name, only one has the field; both orders
    for si in range(ctx.scale(1, 10)):
        sseed = subseed("c08", ctx.seed, "same", si)
        for order in ("with-field-first", "without-field-first"):
            for ti, expr in enumerate(SAME_TEMPLATES + GROUPED_TYPED[:4] + FIELDS_TEMPLATES):
                for vi, via in enumerate(SAME_VIAS + ("match-fresh-interpreted",)):
                    if "fields(" in expr and via in ("match-one-compiled", "match-fresh-compiled", "reader-compiled", "rdump"):
                        continue   # fields() is an interpreted-engine helper
                    if via == "match-fresh-interpreted" and "fields(" not in expr:
                        continue
                    fmts = [FORMATS[(ti + vi + si) % len(FORMATS)]] if (ctx.quick or via.startswith("match")) else FORMATS
                    for fmt in fmts:
                        if ctx.mine(idx):
                            yield {"k": "same-name", "expr": expr, "ti": ti, "order": order, "via": via, "fmt": fmt, "s": sseed,
                                   "n": ctx.scale(10, 48)}
                        idx += 1
    # ---- part E: plain JSON lines (heterogeneous objects, each of its own keys), both orders
    for si in range(ctx.scale(1, 10)):
        sseed = subseed("c08", ctx.seed, "plain-json", si)
        for order in ("with-field-first", "without-field-first"):
            for ti, (expr, fkey) in enumerate(PLAIN_TEMPLATES):
                for vi, via in enumerate(PLAIN_VIAS):
                    flavours = [("hand-written", "library-writer")[(ti + vi + si) % 2]] if ctx.quick else ["hand-written", "library-writer"]
                    for flavour in flavours:
                        if ctx.mine(idx):
                            yield {"k": "plain-json", "expr": expr, "field": fkey, "ti": ti, "order": order, "via": via, "flavour": flavour,
                                   "fmt": ("jsonl", "json")[(ti + si) % 2], "s": sseed, "n": ctx.scale(10, 48)}
                        idx += 1
    # ---- part F: generators over a missing field (any clause position, nested iterables, if clauses, element)
    for pool_seed, ri in recsets[:ctx.scale(2, 30)]:
        if pool_seed == "boundary":
            continue
        for gi in range(len(GEN_MISSING)):
            if ctx.mine(idx):
                yield {"k": "gen-missing", "gi": gi, "expr": GEN_MISSING[gi][0], "pool": pool_seed, "rec": ri}
            idx += 1
    # ---- part G: nested records (record / record[] values) that lack the compared field
    ntemplates = nested_templates()
    for si in range(ctx.scale(1, 10)):
        sseed = subseed("c08", ctx.seed, "nested", si)
        for ti, t in enumerate(ntemplates):
            vias = [SAME_VIAS[(ti + j) % len(SAME_VIAS)] for j in range(3)] if ctx.quick else SAME_VIAS
            for vi, via in enumerate(dict.fromkeys(vias)):
                if ctx.mine(idx):
                    yield {"k": "nested", "expr": t["expr"], "t": t, "ti": 0, "order": "mixed", "via": via, "fmt": ("records", "records.gz")[(ti + vi) % 2],
                           "s": sseed, "n": ctx.scale(12, 48)}
                idx += 1
    # ---- part H: heterogeneous streams in which the LACKED field is named like an attribute / method records (could) have
    for si in range(ctx.scale(1, 6)):
        sseed = subseed("c08", ctx.seed, "attr-named", si)
        for ni, fname in enumerate(ATTR_STREAM_NAMES):
            for order in ("with-field-first", "without-field-first"):
                for ti, tmpl in enumerate(ATTR_STREAM_TEMPLATES):
                    vias = [PLAIN_VIAS[(ni + ti) % len(PLAIN_VIAS)]] if ctx.quick else PLAIN_VIAS
                    for via in vias:
                        if ctx.mine(idx):
                            yield {"k": "attr-named", "expr": tmpl.format(f=fname), "field": fname, "ti": ni, "order": order, "via": via,
                                   "fmt": FORMATS[(ni + ti + si) % len(FORMATS)], "s": sseed, "n": ctx.scale(10, 40)}
                        idx += 1
    # ---- part D: grouped records of different composition (all GroupedRecord objects share one class)
    for si in range(ctx.scale(1, 10)):
        sseed = subseed("c08", ctx.seed, "grouped", si)
        for order in ("with-field-first", "without-field-first"):
            for ti, expr in enumerate(SAME_TEMPLATES + GROUPED_EXTRA + GROUPED_TYPED):
                expr = grouped_expr(expr, ti, order)
                for vi, via in enumerate(SAME_VIAS):
                    gfmts = ("records", "records.gz")   # the binary stream is the only adapter that yields grouped records
                    fmts = [gfmts[(ti + vi + si) % 2]] if (ctx.quick or via.startswith("match")) else gfmts
                    for fmt in fmts:
                        if ctx.mine(idx):
                            yield {"k": "grouped", "expr": expr, "ti": ti, "order": order, "via": via, "fmt": fmt, "s": sseed,
                                   "n": ctx.scale(10, 48)}
                        idx += 1
    # ---- part B: heterogeneous streams
    templates = stream_templates()
    nseeds = ctx.scale(1, 20)
    combos = [(via, fmt) for via in VIAS for fmt in FORMATS]
    for si in range(nseeds):
        sseed = subseed("c08", ctx.seed, "stream", si)
        for ti, t in enumerate(templates):
            picks = [(via, FORMATS[(ti + j) % len(FORMATS)]) for j, via in enumerate(VIAS)] if ctx.quick else combos
            for via, fmt in dict.fromkeys(picks):
                if ctx.mine(idx):
                    yield {"k": "stream", "expr": t["expr"], "meta": t["meta"], "via": via, "fmt": fmt, "s": sseed, "n": ctx.scale(14, 60)}
                idx += 1


# ---- part A execution --------------------------------------------------------------------------------------
def check_comparison(ctx, case, rec, cmp_src, classify):
    """Run the comparison in every context on both engines; `classify(engine, got_bare, exc_bare)` names known mechanisms."""
    bare = {}
    for engine, cls in engines():
        bare[engine] = run_engine(cls, cmp_src, rec)
    for cname, wrap, expected in (CONTEXTS if ctx.quick else CONTEXTS + MORE_CONTEXTS):
        expr = wrap % cmp_src
        for engine, cls in engines():
            got, exc = bare[engine] if cname == "bare" else run_engine(cls, expr, rec)
            ctx.ev()
            ctx.event("evaluations:" + engine)
            if got == ("V", expected):
                ctx.event("held")
                continue
            # classify by what the bare comparison itself does on this engine
            bgot, bexc = bare[engine]
            key = classify(engine, bgot, bexc)
            # the context must be explained by the bare outcome: raise stays raise, a truthy comparison flips the expectation
            consistent = (bgot[0] == "E" and got[0] == "E") or (bgot == ("V", True) and got == ("V", not expected))
            if not consistent:
                key = None
            ctx.event("known:" + key if key else "VIOLATION")
            ctx.violation(
                key,
                "%s engine: comparison with a missing operand %s" % (engine, "raised" if got[0] == "E" else "is true"),
                detail={"expression": expr, "comparison": cmp_src, "context": cname, "engine": engine, "expected": expected,
                        "result": got[1], "exception": repr(exc)[:300] if exc is not None else None, "record": repr(rec)[:1200]},
            )


def exec_table(ctx, case):
    rec = pool_for(ctx, case["pool"])[case["rec"]]
    op, pos, kind, src = case["op"], case["pos"], case["kind"], case["other"]
    values = other_values(src, rec) if pos != "B" else []
    if values is None:
        ctx.event("skipped:other-operand-undefined")
        return
    if op in ("in", "not in") and pos == "L":
        # well-typed only when the right operand really is a container on this record
        if not case["container"] or not all(is_container(v) for v in values):
            ctx.event("skipped:ill-typed-membership")
            return
    ctx.cell(op, pos, kind.split(":")[0])
    ctx.nontrivial("table", case["cmp"], case["pool"], case["rec"])
    check_comparison(ctx, case, rec, case["cmp"],
                     lambda engine, got, exc: classify_cmp(engine, op, pos, values, src.startswith("Type."), got, exc))
    ctx.sample({"comparison": case["cmp"], "contexts": [c[0] for c in CONTEXTS], "expected": "False (not: True), no exception"}, kind="table:" + op)


def exec_derived(ctx, case):
    rec = pool_for(ctx, case["pool"])[case["rec"]]
    if case["category"] == "nested" and rec.sub is None:
        ctx.event("skipped:nested-record-field-unset")
        return
    ctx.cell("derived", case["category"], case["op"])
    ctx.nontrivial("derived", case["cmp"], case["pool"], case["rec"])
    if case["op"] in OPS and "pos" in case:
        # the derived operand still is the sentinel: the known mechanisms are those of the plain operator table
        values = other_values(case["other"], rec)
        if case["op"] in ("in", "not in") and case["pos"] == "L" and (values is None or not all(is_container(v) for v in values)):
            ctx.event("skipped:ill-typed-membership")
            return
        classify = lambda engine, got, exc: (classify_derived(engine, case["category"], got, exc)  # noqa: E731
                                             or classify_cmp(engine, case["op"], case["pos"], values, False, got, exc))
    else:
        classify = lambda engine, got, exc: classify_derived(engine, case["category"], got, exc)  # noqa: E731
    check_comparison(ctx, case, rec, case["cmp"], classify)
    ctx.sample({"comparison": case["cmp"], "expected": "False, no exception"}, kind="derived:" + case["category"])


def exec_helper(ctx, case):
    rec = pool_for(ctx, case["pool"])[case["rec"]]
    expr = case["expr"]
    try:
        want = ref_match(expr, rec, lenient=True)
    except (Undefined, Unsupported):
        ctx.event("skipped:helper-undefined")
        return
    ctx.cell("helper", expr.split("(")[0])
    ctx.nontrivial("helper", expr, case["pool"], case["rec"])
    for engine, cls in engines():
        got, exc = run_engine(cls, expr, rec)
        ctx.ev()
        ctx.event("evaluations:" + engine)
        if got == ("V", want):
            ctx.event("held")
            continue
        ctx.event("VIOLATION")
        ctx.violation(None, "%s engine: helper function does not skip a missing field" % engine,
                      detail={"expression": expr, "engine": engine, "expected": want, "result": got[1],
                              "exception": repr(exc)[:300] if exc is not None else None, "record": repr(rec)[:1200]})
    ctx.sample({"helper": expr, "expected": want}, kind="helper:" + expr.split("(")[0])


# ---- part B: streams ------------------------------------------------------------------------------------------
VIAS = ("reader-text", "reader-compiled", "rdump", "rdump-n")
FORMATS = ("records", "records.gz", "jsonl")
# three descriptors; every record carries a serial number `seq`, so "which records came out" is decided by identity
STREAM_DESCS = {
    "c08/small": [("varint", "seq"), ("varint", "n"), ("string", "s"), ("string[]", "l"), ("varint", "k")],
    "c08/other": [("varint", "seq"), ("string", "t"), ("varint[]", "nl"), ("net.ipaddress", "ip"), ("datetime", "d"), ("float", "f"), ("uri", "u"),
                  ("boolean", "b")],
    "c08/third": [("varint", "seq"), ("string", "s"), ("varint", "m"), ("net.ipaddress", "ip"), ("net.ipnetwork", "nw")],
}
OWNED = {"c08/small": ("k", "l", "n"), "c08/other": ("t", "f", "u", "d", "b", "nl"), "c08/third": ("nw", "m")}  # fields only that descriptor has
STREAM_IPS = ["10.0.0.1", "10.1.2.3", "192.168.1.1", "2001:db8::5"]


def stream_templates():
    """Comparison templates: the compared field exists in exactly one of the three descriptors.
    meta = (op, position of the possibly missing field: L/R, source of the other operand)."""
    out = []

    def add(expr, op, pos, other, wrap=True):
        out.append({"expr": expr, "meta": {"op": op, "pos": pos, "other": other}})
        if wrap:
            for w in ("not (%s)", "(%s) and True", "(%s) or False"):
                out.append({"expr": w % expr, "meta": {"op": op, "pos": pos, "other": other}})

    for op in OPS[:6]:
        add("r.k %s 2" % op, op, "L", "2", wrap=op in ("==", "<=", "!="))
        add("3 %s r.k" % op, op, "R", "3", wrap=False)
        add("r.f %s 1.5" % op, op, "L", "1.5", wrap=False)
        add("r.t %s 'b'" % op, op, "L", "'b'", wrap=False)
        add("r.m %s r.zz" % op, op, "R", "r.m", wrap=False)          # missing everywhere on the right
    for op in OPS[:6]:
        add("r.f %s r.k" % op, op, "R", "r.f", wrap=False)           # present float (nan / inf / -0.0 among them) vs a field missing there
        add("r.k %s r.f" % op, op, "L", "r.f", wrap=False)
        add("r.s %s r.t" % op, op, "R", "r.s", wrap=False)           # present text ('' among them) vs missing
    add("r.k in [1, 2, 3]", "in", "L", "[1, 2, 3]")
    add("r.k not in [1, 2]", "not in", "L", "[1, 2]")
    add("r.t in ['Hello', 'x', 'b']", "in", "L", "['Hello', 'x', 'b']", wrap=False)
    add("r.t in 'Hello world'", "in", "L", "'Hello world'", wrap=False)
    add("r.t not in 'xyz'", "not in", "L", "'xyz'", wrap=False)
    add("'ell' in r.t", "in", "R", "'ell'")
    add("'z' not in r.t", "not in", "R", "'z'", wrap=False)
    add("'Hello' in r.l", "in", "R", "'Hello'", wrap=False)
    add("'q' not in r.l", "not in", "R", "'q'", wrap=False)
    add("r.l == []", "==", "L", "[]", wrap=False)
    add("r.l != []", "!=", "L", "[]", wrap=False)
    add("'10.1.2.3' in r.nw", "in", "R", "'10.1.2.3'", wrap=False)
    add("r.ip in r.nw", "in", "R", "r.ip", wrap=False)
    add("r.nw != '10.0.0.0/8'", "!=", "L", "'10.0.0.0/8'", wrap=False)
    add("r.nw == net.ipnetwork('10.0.0.0/8')", "==", "L", "net.ipnetwork('10.0.0.0/8')", wrap=False)
    add("r.ip != r.nw", "!=", "R", "r.ip", wrap=False)               # total __eq__ on the left, missing on the right
    add("r.ip == r.k", "==", "R", "r.ip", wrap=False)
    add("r.u >= 'g'", ">=", "L", "'g'", wrap=False)
    add("r.f > 1 and r.t != 'x'", ">", "L", "1", wrap=False)
    add("r.k > 1 or r.f > 1", ">", "L", "1", wrap=False)
    # derived operands: arithmetic on / attribute of the possibly missing field.  `needs`: the record must have these
    # fields, else the comparison is False (the reference evaluator does not model derived operands of a missing field)
    for expr, needs in (("r.k + 1 > 2", "k"), ("r.k * 2 <= 4", "k"), ("4 >= r.k * 2", "k"), ("r.k % 2 == 0", "k"), ("(r.f / 2) < 1", "f"),
                        ("r.d.year == 2020", "d"), ("r.d.year != 1999", "d"), ("r.u.filename == 'z.txt'", "u"), ("r.t + 'x' != 'x'", "t"),
                        ("r.m + r.k > 0", "m,k"), ("not (r.k + 1 > 2)", "k"), ("r.k + 1 > 2 or r.f > 1", None),
                        ("lower(r.t) != 'beta'", "t"), ("upper(r.t) < 'M'", "t"), ("lower(r.t) <= 'hello'", "t"), ("'ell' in lower(r.t)", "t"),
                        ("lower(r.t) in ['hello', 'x']", "t"), ("upper(r.u.scheme) != 'FTP'", "u"), ("lower(r.t) != lower(r.s)", "t,s")):
        out.append({"expr": expr, "meta": {"op": "derived", "pos": "L", "other": "None", "needs": needs}})
    for expr, needs, cat in (("'%d' % r.k == '2'", "k", "format"), ("'%s' % r.t != 'beta'", "t", "format"), ("'host-%s' % r.t == 'host-b'", "t", "format"),
                             ("'%s-%s' % (r.k, 1) != '2-1'", "k", "format-tuple")):
        out.append({"expr": expr, "meta": {"op": "derived", "pos": "L", "other": "None", "needs": needs, "category": cat}})
    add("field_contains(r, ['t', 'zz'], ['hello'])", "helper", "L", "None", wrap=False)
    add("field_equals(r, ['k', 's'], ['x', 'Hello'])", "helper", "L", "None", wrap=False)
    add("field_regex(r, ['t'], '^[Hh]')", "helper", "L", "None", wrap=False)
    return out


def build_stream(seed, n, base=0, only=None):
    """n records over three descriptors in random order (the first three are one of each)."""
    import datetime as dt

    from flow.record import RecordDescriptor

    rng = random.Random(seed)
    D = {name: RecordDescriptor(name, fields) for name, fields in STREAM_DESCS.items()}
    T, I = selgen.TEXTS, selgen.INTS

    def mk(kind, seq):
        if kind == 0:
            return D["c08/small"](seq=seq, n=rng.choice(I), s=rng.choice(T), l=[rng.choice(T) for _ in range(rng.randint(0, 3))], k=rng.choice(I))
        if kind == 1:
            return D["c08/other"](seq=seq, t=rng.choice(T), nl=[rng.choice(I) for _ in range(rng.randint(0, 4))], ip=rng.choice(STREAM_IPS),
                                  d=dt.datetime(*rng.choice(selgen.DATES), tzinfo=dt.timezone.utc), f=rng.choice([0.0, 1.5, 100.0, float("nan"), float("inf"), -0.0]),
                                  u=rng.choice(selgen.URIS), b=rng.choice([True, False]))
        return D["c08/third"](seq=seq, s=rng.choice(T), m=rng.choice(I), ip=rng.choice(STREAM_IPS), nw=rng.choice(selgen.NETS))

    kinds = rng.sample([0, 1, 2], 3) + [rng.randrange(3) for _ in range(max(0, n - 3))]
    if only is not None:
        kinds = [only] * n   # homogeneous: every record has the fields of that descriptor
    return [mk(k, base + i) for i, k in enumerate(kinds)]


def ident(r):
    return (r._desc.name, int(r.seq))


def stream_file(ctx, seed, n, fmt, base=0, only=None):
    """Write the stream once per (seed, format); -> (path, records written).  `base` offsets the serial numbers."""
    from flow.record import RecordWriter

    key = (seed, n, fmt, base, only)
    cache = ctx.state["streams"]
    if key not in cache:
        records = build_stream(seed, n, base, only)
        path = os.path.join(ctx.state["tmp"], "in-%x-%d-%d-%s.%s" % (seed, n, base, only, fmt))
        w = RecordWriter(path)
        for r in records:
            w.write(r)
        w.flush()
        w.close()
        for r in records:
            observe.assert_typed(r, "stream input")
        cache[key] = (path, records)
    return cache[key]


def read_all(path, selector=None):
    from flow.record import RecordReader

    out = []
    rd = RecordReader(path, selector=selector)
    try:
        for r in rd:
            out.append(r)
    finally:
        try:
            rd.close()
        except Exception:  # noqa: BLE001
            pass
    return out


def run_via(ctx, via, path, expr):
    """-> (records out, exception or None, swallowed log messages)."""
    from flow.record.selector import CompiledSelector

    tap = ctx.state["tap"]
    tap.records = []
    if via.startswith("reader"):
        sel = expr if via == "reader-text" else CompiledSelector(expr)
        out = []
        from flow.record import RecordReader

        rd = RecordReader(path, selector=sel)
        try:
            for r in rd:
                out.append(r)
            return out, None, list(tap.records)
        except Exception as e:  # noqa: BLE001 - iteration aborted: everything after this record is lost
            return out, e, list(tap.records)
        finally:
            try:
                rd.close()
            except Exception:  # noqa: BLE001
                pass
    from flow.record.tools.rdump import main

    outpath = os.path.join(ctx.state["tmp"], "out-%d.records" % ctx.evaluations)
    argv = list(path if isinstance(path, (list, tuple)) else [path]) + ["-s", expr, "-w", outpath] + (["-n"] if via == "rdump-n" else [])
    err = None
    try:
        with contextlib.redirect_stdout(io.TextIOWrapper(io.BytesIO())), contextlib.redirect_stderr(io.StringIO()):
            rc = main(argv)
        if rc not in (None, 0):
            err = RuntimeError("rdump returned %r" % (rc,))
    except SystemExit as e:
        if e.code not in (None, 0):
            err = RuntimeError("rdump exited with %r" % (e.code,))
    except Exception as e:  # noqa: BLE001
        err = e
    out = []
    try:
        if os.path.exists(outpath) and os.path.getsize(outpath) > 0:
            out = read_all(outpath)
    finally:
        with contextlib.suppress(OSError):
            os.unlink(outpath)
    return out, err, list(tap.records)


def reference_keep(expr, meta, rec):
    """Should the reference filter keep this record?"""
    needs = meta.get("needs")
    if meta["op"] != "derived":
        return ref_match(expr, rec, lenient=True)
    fields = rec._desc.fields
    if expr == "not (r.k + 1 > 2)":
        return not ("k" in fields and ref_match("r.k + 1 > 2", rec))
    if expr == "r.k + 1 > 2 or r.f > 1":
        return ("k" in fields and ref_match("r.k + 1 > 2", rec)) or ("f" in fields and ref_match("r.f > 1", rec))
    if any(f not in fields for f in needs.split(",")):
        return False   # a comparison on (something derived from) a field the record lacks is false
    return ref_match(expr, rec)


def exec_stream(ctx, case):
    from flow.record.selector import CompiledSelector, Selector

    expr, via, fmt, meta = case["expr"], case["via"], case["fmt"], case["meta"]
    path, records = stream_file(ctx, case["s"], case["n"], fmt)
    sources = [records]
    if via.startswith("rdump"):
        # two sources: a failure in the first one must not take the second one with it.  The second source holds only
        # records of the descriptor that has the compared field, so no selector fails there
        fmt2 = FORMATS[(FORMATS.index(fmt) + 1) % len(FORMATS)]
        owner = next((i for i, name in enumerate(STREAM_DESCS) if any(("r." + f) in expr for _, f in STREAM_DESCS[name] if f in OWNED[name])), None)
        path2, records2 = stream_file(ctx, case["s"] + 1, 6, fmt2, base=1000, only=owner)
        path = [path, path2]
        sources.append(records2)
        records = records + records2
    try:
        keep = [reference_keep(expr, meta, r) for r in records]
    except (Undefined, Unsupported):
        ctx.event("skipped:stream-selector-undefined-on-some-record")
        return
    ctx.ev()
    expected = [ident(r) for r, k in zip(records, keep) if k]
    got, err, swallowed = run_via(ctx, via, path, expr)
    try:
        for r in got:
            observe.assert_typed(r, "stream output")
        actual = [ident(r) for r in got]
    except Exception as e:  # noqa: BLE001
        ctx.violation(None, "unusable record in the filtered output via %s" % via, detail={"selector": expr, "error": repr(e)[:300]})
        return
    ctx.event("streams")
    ctx.event("via:" + via)
    ctx.event("format:" + fmt)
    ctx.event("records_in", len(records))
    ctx.event("records_expected", len(expected))
    ctx.event("records_out", len(actual))
    ctx.event("swallowed_exceptions_logged", len(swallowed))
    ctx.cell("stream", meta["op"], via)
    if any(keep) and not all(keep):
        ctx.nontrivial("stream", expr, case["s"], via, fmt)
    ctx.sample({"selector": expr, "via": via, "format": fmt, "in": len(records), "out": len(actual)}, kind="stream:" + via + ":" + fmt)
    if actual == expected and err is None:
        ctx.event("held")
        return
    # classify: replay the engine of this access path on the input records
    engine, cls = ("compiled", CompiledSelector) if via in ("reader-compiled", "rdump") else ("interpreted", Selector)
    keys = set()
    sim = []
    aborted = False
    want = dict(zip([ident(r) for r in records], keep))
    for src in sources:
        for r in src:
            g, exc = run_engine(cls, expr, r)
            if g != ("V", want[ident(r)]):
                values = other_values(meta["other"], r)
                # a template that deviates by value does so because its comparison on the missing field is truthy
                bare = g if g[0] == "E" else ("V", True)
                if meta["op"] in OPS:
                    keys.add(classify_cmp(engine, meta["op"], meta["pos"], values, False, bare, exc))
                elif meta.get("category"):
                    keys.add(classify_derived(engine, meta["category"], bare, exc))
                else:
                    keys.add(None)
            if g[0] == "E":
                aborted = True
                break  # the rest of this source is lost, the next source is still read
            if g[1]:
                sim.append(ident(r))
    # explained iff the output is exactly what this engine's per-record answers produce (a raise ends the source)
    explained = actual == sim and (err is None or (aborted and via.startswith("reader")))
    key = keys.pop() if (explained and len(keys) == 1) else None
    ctx.event("known:" + key if key else "VIOLATION")
    ctx.violation(
        key,
        "filtered heterogeneous stream differs from the reference filter (%s)" % ("rest of the source lost" if (aborted or err) else "different records"),
        detail={"selector": expr, "via": via, "format": fmt, "engine": engine, "records_in": len(records), "expected_out": expected,
                "actual_out": actual, "exception": repr(err)[:300] if err else None, "swallowed_log": swallowed[:3],
                "input": [repr(r)[:160] for r in records[:6]]},
    )


def build_same(seed, order, n, ti=0):
    """Both descriptors carry the same name; the name is private to (template, order), so whatever an implementation
    remembers per descriptor name is first primed by the first record of exactly this sequence."""
    from flow.record import RecordDescriptor

    rng = random.Random(seed)
    name = "%s_%s_%d" % (SAME_NAME, "a" if order == "with-field-first" else "b", ti)
    D = [RecordDescriptor(name, f) for f in SAME_FIELDS]
    kinds = ([0, 1] if order == "with-field-first" else [1, 0]) + [rng.randrange(2) for _ in range(max(0, n - 2))]
    out = []
    for i, k in enumerate(kinds):
        if k == 0:
            out.append(D[0](seq=i, k=rng.choice(selgen.INTS), s=rng.choice(selgen.TEXTS)))
        else:
            out.append(D[1](seq=i, s=rng.choice(selgen.TEXTS)))
    return out


def build_grouped(seed, order, n, ti=0, typed=False):
    """Grouped records of varying composition: every group holds a c08/g1 member (serial number), some also a c08/g2
    member (fields k: varint, t: string) and / or a c08/g3 member (field f: float); with typed=True some groups hold a
    c08/g4 member instead, whose field k is a STRING.  The first group has / lacks the c08/g2 member per `order`.
    The field names k, t, f are private to (template, order), see grouped_names()."""
    from flow.record import GroupedRecord, RecordDescriptor

    rng = random.Random(seed)
    nm = grouped_names(ti, order)
    G1 = RecordDescriptor("c08/g1", [("uint32", "seq"), ("string", "s")])
    G2 = RecordDescriptor("c08/g2", [("varint", nm["k"]), ("string", nm["t"])])
    G3 = RecordDescriptor("c08/g3", [("float", nm["f"])])
    G4 = RecordDescriptor("c08/g4", [("string", nm["k"])])
    first = [True, False] if order == "with-field-first" else [False, True]
    out = []
    for i in range(n):
        with_k = first[i] if i < 2 else rng.random() < 0.5
        members = [G1(seq=i, s=rng.choice(selgen.TEXTS))]
        if with_k:
            members.append(G2(**{nm["k"]: rng.choice(selgen.INTS), nm["t"]: rng.choice(selgen.TEXTS)}))
        elif typed and i >= 2 and rng.random() < 0.5:
            members.append(G4(**{nm["k"]: rng.choice(selgen.TEXTS)}))
        if rng.random() < 0.5:
            members.append(G3(**{nm["f"]: rng.choice([0.0, 1.5, 100.0])}))
        rng.shuffle(members)
        out.append(GroupedRecord("c08/group", members))
    return out


def build_plain_json(seed, order, n, fkey):
    """-> (list of dicts as written, list of reference records).  Objects carry `seq` plus a random subset of
    user / pid / load / host; the first two objects have / lack the compared key per `order`."""
    from flow.record import RecordDescriptor

    rng = random.Random(seed)
    fkey = fkey or "user"
    pools = {"user": ["root", "bob", "alice", "Root", "zed", ""], "pid": [1, 5, 10, 11, 443, 70000], "load": [0.0, 0.25, 0.5, 1.5, 12.0],
             "host": ["alpha", "beta", "h-1"]}
    types = {"seq": "varint", "user": "string", "pid": "varint", "load": "float", "host": "string"}
    first = [True, False] if order == "with-field-first" else [False, True]
    objs, recs = [], []
    for i in range(n):
        keys = [k for k in ("user", "pid", "load", "host") if k != fkey and rng.random() < 0.5]
        if first[i] if i < 2 else rng.random() < 0.5:
            keys.append(fkey)
        rng.shuffle(keys)
        obj = {"seq": i}
        for k in keys:
            obj[k] = rng.choice(pools[k])
        if rng.random() < 0.3:
            obj = dict(reversed(list(obj.items())))   # key order varies too
        objs.append(obj)
        recs.append(RecordDescriptor("json/record", [(types[k], k) for k in obj])(**obj))
    return objs, recs


def exec_same_name(ctx, case):
    import json

    from flow.record import RecordWriter
    from flow.record.selector import CompiledSelector, Selector

    expr, via, order, fmt = case["expr"], case["via"], case["order"], case["fmt"]
    ti = case.get("ti", 0)
    grouped = case["k"] == "grouped"
    flavour = case.get("flavour", "hand-written")
    key = (case["k"], case["s"], order, case["n"], fmt, ti, flavour)
    cache = ctx.state["streams"]
    if key not in cache and case["k"] == "plain-json":
        objs, records = build_plain_json(case["s"] + ti, order, case["n"], case.get("field"))
        path = os.path.join(ctx.state["tmp"], "plain-%x-%s-%d-%d-%s.%s" % (case["s"], order, case["n"], ti, flavour[:4], fmt))
        if flavour == "library-writer":
            # the library's own plain output: JSON lines without descriptors
            w = RecordWriter("jsonfile://%s?descriptors=false" % path)
            for r in records:
                w.write(r)
            w.flush()
            w.close()
        else:
            with open(path, "w") as f:
                for o in objs:
                    f.write(json.dumps(o) + "\n")
        cache[key] = (path, records)
    if key not in cache:
        if case["k"] == "nested":
            records = build_nested(case["s"], case["n"])
        elif case["k"] == "attr-named":
            records = build_attr_named(case["s"] + ti, case["n"], case["field"], order)
        else:
            records = build_grouped(case["s"], order, case["n"], ti, "Type." in expr) if grouped else build_same(case["s"], order, case["n"], ti)
        path = os.path.join(ctx.state["tmp"], "%s-%x-%s-%d-%d.%s" % (case["k"], case["s"], order, case["n"], ti, fmt))
        w = RecordWriter(path)
        for r in records:
            w.write(r)
        w.flush()
        w.close()
        cache[key] = (path, records)
    path, records = cache[key]
    try:
        if case["k"] == "nested":
            keep = [nested_expected(case["t"], r) for r in records]
        elif "fields(" in expr:
            keep = [fields_expected(expr, r) for r in records]
        elif re.fullmatch(r"r\.\w+ \+ 1 > \d+", expr):
            keep = [expr[2:].split(" ")[0] in r._desc.fields and ref_match(expr, r) for r in records]
        else:
            keep = [ref_match(expr, r, lenient=True) for r in records]
    except (Undefined, Unsupported):
        ctx.event("skipped:%s-selector-undefined-on-some-record" % case["k"])
        return
    expected = [ident(r) for r, k in zip(records, keep) if k]
    ctx.ev()
    err = None
    swallowed = []
    if via.startswith("match"):
        cls = Selector if via.endswith("interpreted") else CompiledSelector
        one = cls(expr)
        actual = []
        try:
            for r in records:
                sel = one if "-one-" in via else cls(expr)
                if sel.match(r):
                    actual.append(ident(r))
        except Exception as e:  # noqa: BLE001
            err = e
    else:
        got, err, swallowed = run_via(ctx, via, path, expr)
        actual = [ident(r) for r in got]
    what = case["k"]
    ctx.event(what + " sequences")
    ctx.event(what + ":" + via)
    ctx.cell(what, order, via)
    if what == "plain-json":
        ctx.event("plain-json:" + flavour)
    if any(keep) and not all(keep):
        ctx.nontrivial(what, expr, order, case["s"], via, fmt)
    ctx.sample({"selector": expr, "order": order, "via": via, "in": len(records), "out": len(actual)}, kind=what + ":" + order + ":" + via)
    if actual == expected and err is None and not swallowed:
        ctx.event("held")
        return
    key = None
    if case["k"] == "nested" and via in ("match-one-compiled", "match-fresh-compiled", "reader-compiled", "rdump"):
        # explained by the compiled engine handing out nested records unwrapped iff the output is exactly the records
        # matched before the first AttributeError of that engine
        sim, hit = [], False
        for r, k in zip(records, keep):
            g, exc = run_engine(CompiledSelector, expr, r)
            if g[0] == "E":
                hit = isinstance(exc, AttributeError)
                break
            if g != ("V", k):
                hit = False
                break
            if k:
                sim.append(ident(r))
        if hit and actual == sim:
            key = "compiled-nested-record-missing-field"
    ctx.event("known:" + key if key else "VIOLATION")
    ctx.violation(key, "%s are not filtered like the reference filter (%s)"
                  % ("records whose nested records lack the field" if case["k"] == "nested"
                     else "records lacking a field named like a record attribute" if case["k"] == "attr-named"
                     else "grouped records of different composition (some lack the field)" if grouped
                     else "plain JSON objects of different keys (some lack the key)" if case["k"] == "plain-json"
                     else "records of two same-name descriptors (one lacks the field)",
                     "raised / rest lost" if (err or swallowed) else "different records"),
                  detail={"selector": expr, "order": order, "via": via, "format": fmt, "expected_out": expected, "actual_out": actual,
                          "exception": repr(err)[:300] if err else None, "swallowed_log": swallowed[:3],
                          "input": [repr(r)[:120] for r in records[:6]]})


GEN_MISSING = [
    # (expression, expected as a function of the record): iterating a missing field yields nothing, a comparison with it is false
    ("any(t == l for t in r.l for l in r.zz)", lambda r: False), ("all(t == l for t in r.l for l in r.zz)", lambda r: True),
    ("any(a == c for a in r.l for b in r.nl for c in r.zz)", lambda r: False), ("all(a != c for a in r.l for b in r.zz for c in r.nl)", lambda r: True),
    ("any(x == 1 for x in r.zz)", lambda r: False), ("all(x == 1 for x in r.zz)", lambda r: True),
    ("any(x == y for y in r.zz for x in r.l)", lambda r: False), ("any(x.a == 1 for x in r.zz)", lambda r: False),
    ("any(y == 1 for x in r.l for y in (z for z in r.zz))", lambda r: False), ("all(y == 1 for x in r.l for y in (z + 1 for z in r.zz.a))", lambda r: True),
    ("any(x == x for x in r.l if x in r.zz)", lambda r: False), ("any(True for x in r.l if x == r.zz)", lambda r: False),
    ("all(x != 'q-q' for x in r.l if r.zz > 1)", lambda r: True), ("any(x == x for x in r.l if not (x in r.zz))", lambda r: bool(r.l)),
    ("any(x == r.zz for x in r.l)", lambda r: False), ("all(x != r.zz for x in r.l)", lambda r: not r.l), ("any(r.zz < x for x in r.nl)", lambda r: False),
    ("1 in (x for x in r.zz)", lambda r: False), ("'x' in (y for y in r.zz for z in r.l)", lambda r: False),
    ("any(x == 1 for x in r.zz) or r.n == r.n", lambda r: True), ("not any(x == 1 for x in r.zz)", lambda r: True),
    ("any(any(y == x for y in r.zz) for x in r.l)", lambda r: False), ("all(any(y == x for y in r.zz) for x in r.l)", lambda r: not r.l),
    ("any(x == 1 for x in r.zz.items)", lambda r: False), ("any(x == 1 for x in r.sub.zz)", lambda r: False),
]


def exec_gen_missing(ctx, case):
    rec = pool_for(ctx, case["pool"])[case["rec"]]
    expr, want_fn = GEN_MISSING[case["gi"]]
    if "r.sub." in expr and rec.sub is None:
        return
    want = bool(want_fn(rec))
    ctx.cell("generator-over-missing", "clause" if " for " in expr else "other")
    ctx.nontrivial("gen-missing", expr, case["pool"], case["rec"])
    for wrap, flip in (("%s", False), ("not (%s)", True)):
        e = wrap % expr
        for engine, cls in engines():
            got, exc = run_engine(cls, e, rec)
            ctx.ev()
            ctx.event("evaluations:" + engine)
            if got == ("V", want != flip):
                ctx.event("held")
                continue
            category = "nested" if "r.sub." in expr else "iter"
            key = classify_derived(engine, category, got, exc)
            ctx.event("known:" + key if key else "VIOLATION")
            ctx.violation(key, "%s engine: a generator over / a comparison with a missing field %s" % (engine, "raised" if got[0] == "E" else "has the wrong value"),
                          detail={"expression": e, "engine": engine, "expected": want != flip, "result": got[1],
                                  "exception": repr(exc)[:300] if exc is not None else None, "record": repr(rec)[:800]})
    ctx.sample({"generator": expr, "expected": want}, kind="gen-missing")


# ---- nested records lacking the field (value of a record field, elements of a record[] field) ---------------------
NESTED_FORMS = {
    "any": "any(e.pid {op} {x} for e in r.children)", "all": "all(e.pid {op} {x} for e in r.children)", "any-rev": "any({x} {op} e.pid for e in r.children)",
    "sub": "r.sub.pid {op} {x}", "sub-rev": "{x} {op} r.sub.pid", "sub2": "r.sub.inner.pid {op} {x}", "not-sub": "not (r.sub.pid {op} {x})",
    "any-if": "any(True for e in r.children if e.pid {op} {x})",
}
PYOPS = {"==": lambda a, b: a == b, "!=": lambda a, b: a != b, "<": lambda a, b: a < b, ">": lambda a, b: a > b, "<=": lambda a, b: a <= b,
         ">=": lambda a, b: a >= b, "in": lambda a, b: a in b, "not in": lambda a, b: a not in b}


def nested_templates():
    out = []
    for form in NESTED_FORMS:
        for op in OPS:
            xs = ["[4, 5]"] if op in ("in", "not in") else ["4", "5"]
            if op in ("in", "not in") and form.endswith("rev"):
                continue
            for x in xs:
                out.append({"form": form, "op": op, "x": x, "expr": NESTED_FORMS[form].format(op=op, x=x)})
    return out


def build_nested(seed, n):
    from flow.record import RecordDescriptor

    rng = random.Random(seed)
    C1 = RecordDescriptor("c08/proc", [("varint", "pid"), ("string", "name")])
    C2 = RecordDescriptor("c08/file", [("string", "name")])
    C3 = RecordDescriptor("c08/sock", [("varint", "pid"), ("varint", "uid")])
    W = RecordDescriptor("c08/wrap", [("record", "inner"), ("string", "name")])
    P = RecordDescriptor("c08/parent", [("uint32", "seq"), ("record", "sub"), ("record[]", "children")])

    def child():
        k = rng.randrange(3)
        if k == 0:
            return C1(pid=rng.choice([3, 4, 5, 6]), name=rng.choice(selgen.TEXTS))
        if k == 1:
            return C2(name=rng.choice(selgen.TEXTS))
        return C3(pid=rng.choice([4, 5, 9]), uid=rng.choice([0, 1000]))

    out = []
    for i in range(n):
        sub = child() if rng.random() < 0.6 else W(inner=child(), name="w")
        out.append(P(seq=i, sub=sub, children=[child() for _ in range(rng.randint(0, 4))]))
    return out


def nested_expected(t, rec):
    """The value the missing-field rule gives: a comparison on a field the (nested) record lacks is false."""
    x = ast.literal_eval(t["x"])
    op = PYOPS[t["op"]]

    def cmp(obj, names, rev=False):
        for nm in names:
            if obj is None or nm not in obj._desc.fields:
                return False
            obj = getattr(obj, nm)
        return bool(op(x, obj) if rev else op(obj, x))

    form = t["form"]
    if form in ("any", "any-if"):
        return any(cmp(e, ["pid"]) for e in rec.children)
    if form == "all":
        return all(cmp(e, ["pid"]) for e in rec.children)
    if form == "any-rev":
        return any(cmp(e, ["pid"], True) for e in rec.children)
    if form == "sub":
        return cmp(rec.sub, ["pid"])
    if form == "sub-rev":
        return cmp(rec.sub, ["pid"], True)
    if form == "sub2":
        return cmp(rec.sub, ["inner", "pid"])
    return not cmp(rec.sub, ["pid"])


def build_attr_named(seed, n, fname, order):
    from flow.record import RecordDescriptor

    rng = random.Random(seed)
    A = RecordDescriptor("c08/has_" + fname, [("uint32", "seq"), ("string", fname)])
    B = RecordDescriptor("c08/lacks", [("uint32", "seq"), ("string", "other")])
    first = [True, False] if order == "with-field-first" else [False, True]
    out = []
    for i in range(n):
        if first[i] if i < 2 else rng.random() < 0.5:
            out.append(A(**{"seq": i, fname: rng.choice(["v", "x", "a b", "Hello"])}))
        else:
            out.append(B(seq=i, other=rng.choice(selgen.TEXTS)))
    return out


ATTR_STREAM_NAMES = ("keys", "values", "items", "get", "copy", "update", "pop", "count", "index", "name", "fields", "type", "desc", "clear")
ATTR_STREAM_TEMPLATES = ("r.{f} != 'x'", "r.{f} == 'v'", "r.{f} < 'm'", "'a' in r.{f}", "r.{f} >= 'a' and r.{f} != 'Hello'", "not (r.{f} == 'v')", "lower(r.{f}) <= 'v'")


def exec_observe(ctx, case):
    """Text-producing calls on a missing field: recorded, not judged (see ASSUMPTIONS)."""
    rec = pool_for(ctx, case["pool"])[case["rec"]]
    for engine, cls in engines():
        got, _ = run_engine(cls, case["cmp"], rec)
        ctx.event("observed:text-call-on-missing:%s:%s:%s" % (case["call"], engine, "raised" if got[0] == "E" else got[1]))


def execute(ctx, case):
    k = case["k"]
    if k == "observe":
        return exec_observe(ctx, case)
    if k == "gen-missing":
        return exec_gen_missing(ctx, case)
    if k in ("same-name", "grouped", "plain-json", "nested", "attr-named"):
        return exec_same_name(ctx, case)
    if k == "table":
        exec_table(ctx, case)
    elif k == "derived":
        exec_derived(ctx, case)
    elif k == "helper":
        exec_helper(ctx, case)
    else:
        exec_stream(ctx, case)


def finish(ctx):
    ctx.state["reach"].into(ctx)
    ctx.require(ctx.events.get("evaluations:interpreted", 0) > 0 and ctx.events.get("evaluations:compiled", 0) > 0,
                "an engine was never evaluated in shard %d" % ctx.shard)
    ctx.require(ctx.events.get("streams", 0) > 0, "no stream was filtered in shard %d" % ctx.shard)
    ctx.require(ctx.events.get("same-name sequences", 0) > 0, "no same-name sequence was filtered in shard %d" % ctx.shard)
    ctx.require(ctx.events.get("plain-json sequences", 0) > 0, "no plain JSON-lines source was filtered in shard %d" % ctx.shard)
    ctx.require(ctx.events.get("grouped sequences", 0) > 0, "no grouped-record sequence was filtered in shard %d" % ctx.shard)
    for q in ("flow.record.selector:NoneObject.__eq__", "flow.record.selector:NoneObject.__le__", "flow.record.selector:NoneObject.__contains__",
              "flow.record.selector:WrappedRecord.__getattr__", "flow.record.selector:RecordContextMatcher._eval"):
        ctx.require(ctx.reach.get(q, 0) > 0, "anchor %s was never entered" % q)
    if ctx.events.get("via:rdump", 0) or ctx.events.get("via:rdump-n", 0):
        ctx.require(ctx.reach.get("flow.record.stream:record_stream", 0) > 0, "record_stream was never entered although rdump ran")
