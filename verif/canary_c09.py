"""Canary objects for C09 (DESIGN 3.6 `Canary`): value look-alikes whose every *named method invocation* ('call'), every
*special method that builtins and operators invoke on them* ('special': __str__, __repr__, __iter__, __len__, __bool__,
__eq__ .. __ge__, __hash__, __contains__, __format__, __add__ .., __getitem__) and every *double-underscore attribute read*
('dunder') is logged together with who did it.

* `CStr`, `CInt`, `CList` are str/int/list subclasses (usable wherever the selector interpreter or a helper function
  expects such a value); `CObj` is a plain object with a callable attribute `fn`, a nested `child`, and a method
  `detonate`; `CCallable` is an object whose `__call__` logs.  Values derived from a canary (results of methods, `+`,
  `%`, iteration, indexing, `str()`) are canaries again.
* `real_classes()` builds the same canaries as subclasses of the *field type classes* of flow.record
  (`fieldtypes.string`, `fieldtypes.varint`, the generated typed lists, `FieldType` for the plain object), so that
  `Record.__setattr__` (which converts unless `isinstance(value, field_type)`) stores them unchanged in real records.
* `StandIn` is a duck-typed record: `_desc` (plain object with `.name`, `.fields`, `.getfields`, `.get_all_fields`,
  `.get_field_tuples`) plus canary attributes.

Every log entry carries the *caller class* of the access, from the Python frame that performed it:
  'interpreter'  code of flow/record/selector.py that is not one of the documented helper functions
  'helper'       code of a documented helper function (lower/upper/field_*...), which may call `s.lower()` itself
  'outside'      anything else (field-type constructors, the ipaddress module, the harness)
Only 'interpreter' accesses can refute the sandbox property; the others are counted for the evidence file.

The log is only written while `STATE.armed` is true (the harness arms it around `Selector.match`).
"""
from __future__ import annotations

import sys

HOSTILE_METHOD = "detonate"
TRIP_DUNDER = "__trip__"


class _State:
    armed = False
    log = []
    selector_file = None
    helper_codes = frozenset()
    ctor_codes = frozenset()


STATE = _State()


def configure(selector_module, helper_names):
    """Tell the canaries which code is 'the interpreter' and which are the documented helper functions."""
    code = None
    for owner, attr in (("Selector", "match"), ("RecordContextMatcher", "_eval"), ("RecordContextMatcher", "matches")):
        fn = getattr(getattr(selector_module, owner, None), attr, None)
        code = getattr(fn, "__code__", None)
        if code is not None:
            break
    STATE.selector_file = code.co_filename if code is not None else getattr(selector_module, "__file__", None)
    codes = set()

    def walk(c):
        codes.add(c)
        for k in c.co_consts:
            if hasattr(k, "co_code"):
                walk(k)

    for n in helper_names:
        fn = getattr(selector_module, n, None)
        c = getattr(fn, "__code__", None)
        if c is not None:
            walk(c)
    STATE.helper_codes = frozenset(codes)
    try:
        from flow.record.base import DynamicFieldtypeModule

        STATE.ctor_codes = frozenset({DynamicFieldtypeModule.__call__.__code__})
    except Exception:  # noqa: BLE001 - tolerant of refactorings: the path test in _code_tag remains
        STATE.ctor_codes = frozenset()


def caller_class_of_code(code):
    if STATE.selector_file is None or code.co_filename != STATE.selector_file:
        return "outside"
    if code in STATE.helper_codes:
        return "helper"
    return "interpreter"


def _code_tag(code):
    """What kind of library code sits between the selector module and a canary method (for named-method calls)."""
    fn = code.co_filename.replace("\\", "/")
    if code in STATE.ctor_codes or "/flow/record/fieldtypes/" in fn:
        return "fieldtype-constructor"
    base = fn.rsplit("/", 1)[-1]
    if code.co_filename == __file__:
        return "canary-internal"
    if "/re/" in fn or base.startswith("sre_") or base == "re.py":
        return "regex-engine"
    if base in ("ipaddress.py", "parse.py") and "/flow/" not in fn:
        return "stdlib:" + base
    return base + ":" + code.co_name


def call_root(frame):
    """(class, function name, tags of the library frames in between) of the nearest selector-module frame that (indirectly)
    issued a call: tells on whose behalf library code invoked a method of a value."""
    via = []
    f = frame
    for _ in range(30):
        if f is None:
            break
        code = f.f_code
        cls = caller_class_of_code(code)
        if cls != "outside":
            return (cls, code.co_name, tuple(via))
        if len(via) < 8:
            via.append(_code_tag(code))
        f = f.f_back
    return ("none", None, tuple(via))


def builtin_base(obj):
    for b in (str, int, list):
        if isinstance(obj, b):
            return b
    return None


def _log(kind, obj, name, frame):
    code = frame.f_code
    root = native = None
    if kind == "call":
        root = call_root(frame)
        # is the method one the value's builtin base type really has (a str treated as a str), or a foreign name that only
        # duck typing would look for (decode on an object, isoformat on a str ...)?
        b = builtin_base(obj)
        native = b is not None and hasattr(b, name)
    STATE.log.append((kind, type(obj).__name__, name, caller_class_of_code(code), code.co_name, root, native))


def arm():
    STATE.log = []
    STATE.armed = True


def disarm():
    STATE.armed = False
    out, STATE.log = STATE.log, []
    return out


class CanaryBase:
    """Marker: isinstance(x, CanaryBase) <=> x is canary-tagged."""

    def __getattribute__(self, name):
        if STATE.armed and name[:2] == "__":
            _log("dunder", self, name, sys._getframe(1))
        return object.__getattribute__(self, name)

    def detonate(self, *a, **k):
        if STATE.armed:
            _log("call", self, HOSTILE_METHOD, sys._getframe(1))
        return CStr("boom")

    def __getattr__(self, name):
        # while armed a canary exposes ANY public attribute name as a logged callable (gettypename, records, startswith
        # on a non-string ...): duck-typing helper code that probes a value with hasattr()/getattr() and calls it is seen
        if STATE.armed and name[:1] != "_":
            return CAnyMethod(self, name)
        raise AttributeError(name)

    @property
    def __trip__(self):
        # reading it is logged by __getattribute__ (name starts with '__'); the value is a canary again
        return CStr("tripped")


class CAnyMethod(CanaryBase):
    """`value.<any name>`: calling it is logged as a named-method call on the owning value."""

    def __init__(self, owner, name):
        d = object.__getattribute__(self, "__dict__")
        d["owner"], d["name"] = owner, name

    def __getattr__(self, name):
        raise AttributeError(name)

    def __call__(self, *a, **k):
        d = object.__getattribute__(self, "__dict__")
        if STATE.armed:
            _log("call", d["owner"], d["name"], sys._getframe(1))
        return CStr("any:" + d["name"])

    def __repr__(self):
        d = object.__getattribute__(self, "__dict__")
        return "<canary attribute %s of %s>" % (d["name"], type(d["owner"]).__name__)


def is_canary_callable(c):
    """A callable that only a forbidden call could reach: a canary's bound method or a canary callable object."""
    if isinstance(c, CanaryBase):
        return True
    try:
        s = getattr(c, "__self__", None)
    except Exception:
        return False
    return isinstance(s, CanaryBase)


def derive(v):
    """Results computed from a canary are canaries again."""
    if isinstance(v, CanaryBase) or v is None or isinstance(v, (bool, float, bytes)):
        return v
    if isinstance(v, str):
        return CStr(v)
    if isinstance(v, int):
        return CInt(v)
    if isinstance(v, list):
        return CList([derive(x) for x in v])
    if isinstance(v, tuple):
        return tuple(derive(x) for x in v)
    return v


def _method(name, base):
    orig = getattr(base, name)

    def m(self, *a, **k):
        if STATE.armed:
            _log("call", self, name, sys._getframe(1))
        return derive(orig(self, *a, **k))

    m.__name__ = name
    m.__qualname__ = "canary." + name
    return m


def _operator(name, base):
    """Binary / unary operator or indexing: logged as a 'special' event, the result is a canary again."""
    orig = getattr(base, name)

    def m(self, *a):
        if STATE.armed:
            _log("special", self, name, sys._getframe(1))
        r = orig(self, *a)
        return r if r is NotImplemented else derive(r)

    m.__name__ = name
    return m


def _special(name, base):
    """A special method that builtins and operators invoke (__eq__, __hash__, __len__, __contains__, __format__ ...):
    logged as a 'special' event, the base type's answer is returned unchanged."""
    orig = getattr(base, name)

    def m(self, *a):
        if STATE.armed:
            _log("special", self, name, sys._getframe(1))
        return orig(self, *a)

    m.__name__ = name
    return m


SPECIALS = ["__eq__", "__ne__", "__lt__", "__le__", "__gt__", "__ge__", "__hash__", "__len__", "__contains__", "__format__", "__bool__",
            "__int__", "__index__", "__float__"]


def _public_methods(base):
    out = []
    for n in dir(base):
        if n.startswith("_") or not callable(getattr(base, n)):
            continue
        raw = next((k.__dict__[n] for k in base.__mro__ if n in k.__dict__), None)
        if type(raw).__name__ in ("staticmethod", "classmethod", "classmethod_descriptor"):
            continue  # str.maketrans, int.from_bytes: not instance methods
        out.append(n)
    return out


def _fill(ns, base, operators):
    for n in _public_methods(base):
        ns[n] = _method(n, base)
    for n in operators:
        if hasattr(base, n):
            ns[n] = _operator(n, base)
    for n in SPECIALS:
        if getattr(base, n, None) is not None and n not in ns:
            ns[n] = _special(n, base)


# ---- str ---------------------------------------------------------------------------------------------
class StrMixin(CanaryBase):
    def __iter__(self):
        if STATE.armed:
            _log("special", self, "__iter__", sys._getframe(1))
        return (CStr(ch) for ch in str.__iter__(self))

    def __str__(self):
        if STATE.armed:
            _log("special", self, "__str__", sys._getframe(1))
        return CStr(str.__str__(self))

    def __repr__(self):
        if STATE.armed:
            _log("special", self, "__repr__", sys._getframe(1))
        return CStr(str.__repr__(self))


_fill_ns = {}
_fill(_fill_ns, str, ["__add__", "__mul__", "__rmul__", "__mod__", "__rmod__", "__getitem__"])
for _k, _v in _fill_ns.items():
    setattr(StrMixin, _k, _v)


class CStr(StrMixin, str):
    pass


# ---- int ---------------------------------------------------------------------------------------------
class IntMixin(CanaryBase):
    def __str__(self):
        if STATE.armed:
            _log("special", self, "__str__", sys._getframe(1))
        return CStr(int.__repr__(self))

    def __repr__(self):
        if STATE.armed:
            _log("special", self, "__repr__", sys._getframe(1))
        return CStr(int.__repr__(self))


_fill_ns = {}
_fill(_fill_ns, int, ["__add__", "__radd__", "__sub__", "__rsub__", "__mul__", "__rmul__", "__mod__", "__rmod__", "__and__", "__rand__",
                      "__or__", "__ror__", "__floordiv__", "__neg__"])
for _k, _v in _fill_ns.items():
    setattr(IntMixin, _k, _v)


class CInt(IntMixin, int):
    pass


# ---- list --------------------------------------------------------------------------------------------
class ListMixin(CanaryBase):
    __hash__ = None

    def __iter__(self):
        if STATE.armed:
            _log("special", self, "__iter__", sys._getframe(1))
        return list.__iter__(self)

    def __repr__(self):
        if STATE.armed:
            _log("special", self, "__repr__", sys._getframe(1))
        return CStr("[" + ", ".join(str.__str__(repr(x)) for x in list.__iter__(self)) + "]")

    __str__ = __repr__


_fill_ns = {}
_fill(_fill_ns, list, ["__add__", "__mul__", "__rmul__", "__getitem__"])
_fill_ns.pop("__hash__", None)
for _k, _v in _fill_ns.items():
    setattr(ListMixin, _k, _v)


class CList(ListMixin, list):
    pass


# ---- plain objects -----------------------------------------------------------------------------------
class CCallable(CanaryBase):
    """A callable reached through an attribute (`r.o.fn`)."""

    def __init__(self, label="fn"):
        object.__setattr__(self, "label", label)
        object.__setattr__(self, "calls", 0)

    def __call__(self, *a, **k):
        if STATE.armed:
            _log("call", self, "()", sys._getframe(1))
        object.__setattr__(self, "calls", object.__getattribute__(self, "calls") + 1)
        return CStr("called")

    def __repr__(self):
        if STATE.armed:
            _log("special", self, "__repr__", sys._getframe(1))
        return "<CCallable %s calls=%d>" % (object.__getattribute__(self, "label"), object.__getattribute__(self, "calls"))


class ObjMixin(CanaryBase):
    def _init_canary(self, depth=1):
        d = object.__getattribute__(self, "__dict__")
        d["fn"] = CCallable("fn")
        d["ipaddress"] = CCallable("ipaddress")  # target of `net.ipaddress(..)` when a generator variable shadows `net`
        d["value"] = CStr("objvalue")
        d["items"] = CList([CStr("i1"), CInt(2)])
        d["child"] = type(self)._make(depth - 1) if depth > 0 else None

    @classmethod
    def _make(cls, depth=1):
        o = cls.__new__(cls)
        o._init_canary(depth)
        return o

    def __repr__(self):
        if STATE.armed:
            _log("special", self, "__repr__", sys._getframe(1))
        d = object.__getattribute__(self, "__dict__")
        return "<%s %s>" % (type(self).__name__, snapshot(d))

    __str__ = __repr__

    def __eq__(self, other):
        if STATE.armed:
            _log("special", self, "__eq__", sys._getframe(1))
        return self is other

    def __ne__(self, other):
        if STATE.armed:
            _log("special", self, "__ne__", sys._getframe(1))
        return self is not other

    def __hash__(self):
        if STATE.armed:
            _log("special", self, "__hash__", sys._getframe(1))
        return id(self) >> 4

    def __bool__(self):
        if STATE.armed:
            _log("special", self, "__bool__", sys._getframe(1))
        return True


class CObj(ObjMixin):
    pass


def _proto(name, value):
    def m(self, *a):
        if STATE.armed:
            _log("special", self, name, sys._getframe(1))
        return value() if callable(value) else value

    m.__name__ = name
    return m


class CProto(ObjMixin):
    """A plain object that also answers the tempting conversion protocols (each logged as a 'special' event); every other
    public name (decode, encode, read, hex, isoformat, timestamp, keys, strip, lower ...) is a logged callable while armed."""

    __fspath__ = _proto("__fspath__", "/frv_c09_trip/fspath")
    __index__ = _proto("__index__", 7)
    __int__ = _proto("__int__", 7)
    __float__ = _proto("__float__", 7.5)
    __bytes__ = _proto("__bytes__", b"proto")
    __len__ = _proto("__len__", 2)
    __iter__ = _proto("__iter__", lambda: iter((CStr("p1"), CStr("p2"))))
    __format__ = _proto("__format__", "proto")

    def __getitem__(self, k):
        if STATE.armed:
            _log("special", self, "__getitem__", sys._getframe(1))
        if isinstance(k, int) and 0 <= k < 2:
            return CStr("p%d" % (k + 1))
        raise IndexError(k)


# ---- deep state snapshot (for stand-ins, where observe.obs does not apply) ---------------------------------
def snapshot(v, depth=0):
    """Deterministic rendering of the complete state reachable from v (never calls a logged method)."""
    if depth > 8:
        return "<deep>"
    if isinstance(v, dict):
        return {str(k): snapshot(x, depth + 1) for k, x in sorted(v.items(), key=lambda kv: str(kv[0]))}
    if isinstance(v, str):
        return [type(v).__name__, str.__str__(v) if type(v) is not str else v]
    if isinstance(v, bool) or v is None:
        return v
    if isinstance(v, int):
        return [type(v).__name__, int.__int__(v) if type(v) is not int else v]
    if isinstance(v, (list, tuple)):
        return [type(v).__name__, [snapshot(x, depth + 1) for x in list.__iter__(v)] if isinstance(v, list) else
                [snapshot(x, depth + 1) for x in v]]
    if isinstance(v, CCallable):
        return ["CCallable", object.__getattribute__(v, "label"), object.__getattribute__(v, "calls")]
    d = getattr(v, "__dict__", None) if not isinstance(v, CanaryBase) else object.__getattribute__(v, "__dict__")
    if isinstance(d, dict):
        return [type(v).__name__, snapshot(dict(d), depth + 1)]
    return [type(v).__name__, repr(v)[:120]]


# ---- duck-typed record ---------------------------------------------------------------------------------
class _Field:
    def __init__(self, name, typename):
        self.name = name
        self.typename = typename

    def __repr__(self):
        return "<field %s (%s)>" % (self.name, self.typename)


class StandInDesc:
    """What the interpreter and the helper functions use of a descriptor; a plain (untagged) object."""

    def __init__(self, name, fields):
        self.name = name
        self._tuples = tuple(fields)
        self.fields = {n: _Field(n, t) for t, n in fields}

    def getfields(self, typename):
        name = typename if isinstance(typename, str) else getattr(typename, "path", None)
        return [f for f in self.fields.values() if f.typename == name]

    def get_all_fields(self):
        return dict(self.fields)

    def get_field_tuples(self):
        return self._tuples


class StandIn:
    """Record look-alike: attributes are canaries, `_desc` describes them.  Dunder reads on it are logged as well."""

    def __init__(self, name, fields, values):
        object.__setattr__(self, "_desc", StandInDesc(name, fields))
        for k, v in values.items():
            object.__setattr__(self, k, v)

    def __getattribute__(self, name):
        if STATE.armed and name[:2] == "__":
            _log("dunder", self, name, sys._getframe(1))
        return object.__getattribute__(self, name)

    @property
    def __trip__(self):
        return CStr("tripped")

    def __repr__(self):
        return "<StandIn %s>" % object.__getattribute__(self, "_desc").name

    def state(self):
        d = dict(object.__getattribute__(self, "__dict__"))
        desc = d.pop("_desc")
        return {"desc": [desc.name, list(desc._tuples), sorted(desc.fields)], "values": snapshot(d)}


FIELDS = [("string", "s"), ("string", "t"), ("varint", "n"), ("string[]", "l"), ("varint[]", "k"), ("dynamic", "o"), ("string", "fmt"),
          ("string", "fmt2")]
# string fields holding text that looks like a format specification with attribute paths
FMT_TEXTS = {"fmt": "{0.__secret__}", "fmt2": ">{0.__init__.__globals__}"}


def standin_record():
    return StandIn("c09/standin", FIELDS + [("record", "p")], {
        "s": CStr("Abc Def"), "t": CStr("other"), "n": CInt(5), "l": CList([CStr("a1"), CStr("b2")]),
        "k": CList([CInt(1), CInt(2), CInt(3)]), "o": CObj._make(1), "p": CProto._make(0),
        "fmt": CStr(FMT_TEXTS["fmt"]), "fmt2": CStr(FMT_TEXTS["fmt2"]),
    })


# ---- canaries that real records accept -----------------------------------------------------------------
_REAL = {}


def real_classes():
    """-> dict of canary classes derived from the field type classes of the flow.record under test."""
    if _REAL:
        return _REAL
    from flow.record import RecordDescriptor, fieldtypes
    from flow.record.base import FieldType

    desc = RecordDescriptor("c09/canary", FIELDS)
    ftypes = {k: f.type for k, f in desc.get_all_fields().items()}

    class CFStr(StrMixin, fieldtypes.string):
        pass

    class CFInt(IntMixin, fieldtypes.varint):
        pass

    def listclass(name, base):
        def __init__(self, values=None):
            # typedlist.__init__ uses super(self.__class__, self): it must not be re-entered from a subclass
            list.__init__(self, list(values or []))

        return type(name, (ListMixin, base), {"__init__": __init__})

    CFStrList = listclass("CFStrList", ftypes["l"])
    CFIntList = listclass("CFIntList", ftypes["k"])

    class CFObj(ObjMixin, FieldType):
        def _pack(self):
            return repr(self)

    _REAL.update(desc=desc, CFStr=CFStr, CFInt=CFInt, CFStrList=CFStrList, CFIntList=CFIntList, CFObj=CFObj)
    return _REAL


def real_canary_record():
    c = real_classes()
    return c["desc"](
        s=c["CFStr"]("Abc Def"), t=c["CFStr"]("other"), n=c["CFInt"](5),
        l=c["CFStrList"]([c["CFStr"]("a1"), c["CFStr"]("b2")]),
        k=c["CFIntList"]([c["CFInt"](1), c["CFInt"](2), c["CFInt"](3)]),
        o=c["CFObj"]._make(1), fmt=c["CFStr"](FMT_TEXTS["fmt"]), fmt2=c["CFStr"](FMT_TEXTS["fmt2"]),
    )


def grouped_canary_record():
    """A grouped record: the canary record plus a second member; every field of the canary record is reached through the
    group's attribute lookup (GroupedRecord.__getattr__)."""
    from flow.record import GroupedRecord, RecordDescriptor

    c = real_classes()
    if "extra_desc" not in c:
        c["extra_desc"] = RecordDescriptor("c09/extra", [("string", "zz"), ("varint", "yy")])
    return GroupedRecord("c09/grouped", [real_canary_record(), c["extra_desc"](zz="extra", yy=7)])


def raw_state(v, depth=0):
    """The object's raw state next to its canonical observation: instance-dict keys of grouped records, identity of member
    records / list objects / slot values (read with object.__getattribute__), recursively through nested records and lists."""
    from flow.record.base import GroupedRecord, Record

    if depth > 6:
        return None
    if isinstance(v, GroupedRecord):
        d = object.__getattribute__(v, "__dict__")
        return ["grouped", id(v), sorted(map(str, d)), [raw_state(m, depth + 1) for m in d.get("records", [])]]
    if isinstance(v, Record):
        out = ["record", id(v)]
        for k in type(v).__slots__:
            try:
                x = object.__getattribute__(v, k)
            except AttributeError:
                out.append([k, "<unset>"])
                continue
            out.append([k, id(x), raw_state(x, depth + 1) if isinstance(x, (Record, list, dict)) else None])
        return out
    if isinstance(v, list):
        return ["list", id(v), len(v), [raw_state(x, depth + 1) if isinstance(x, (Record, list, dict)) else id(x) for x in list.__iter__(v)]]
    if isinstance(v, dict):
        return ["dict", id(v), sorted(map(str, v))]
    return ["value", id(v)]


MUTABLE_FIELDS = [("string[]", "tags"), ("stringlist", "sl"), ("dictlist", "hashes"), ("varint[]", "nums"), ("digest", "dg"), ("command", "cmd"),
                  ("record", "sub"), ("record[]", "subs"), ("bytes", "by"), ("string", "s"), ("string", "fmt"), ("string", "fmt2"), ("dynamic", "dy"),
                  ("path[]", "paths"), ("varint", "n"), ("record", "grp"), ("record[]", "grps")]
MD5 = "d41d8cd98f00b204e9800998ecf8427e"
SHA1 = "da39a3ee5e6b4b0d3255bfef95601890afd80709"


def real_mutable_record():
    """A real record with plain (non-canary) but MUTABLE values: typed lists, a stringlist, a dictlist whose dicts look like
    digest arguments, a digest, a command, nested records holding lists.  Evaluation never modifies the record: its deep
    observation (observe.obs) is compared before and after every evaluation."""
    from flow.record import RecordDescriptor
    from flow.record.fieldtypes import command

    c = real_classes()
    if "mutable_desc" not in c:
        c["mutable_desc"] = RecordDescriptor("c09/mutable", MUTABLE_FIELDS)
        c["inner_desc"] = RecordDescriptor("c09/inner", [("string[]", "tags"), ("dictlist", "hashes"), ("string", "s")])
    inner = lambda i: c["inner_desc"](tags=["i%d" % i, "j"], hashes=[{"md5": MD5}], s="inner%d" % i)  # noqa: E731
    return c["mutable_desc"](
        tags=["a"], sl=["Xa", "yB"], hashes=[{"md5": MD5, "sha1": SHA1}, {"md5": MD5}, {"sha256": "0" * 64}], nums=[1, 2, 3],
        dg=(MD5, None, None), cmd=command.from_posix("ls -l /tmp"), sub=inner(0), subs=[inner(1), inner(2)], by=b"ab", s="Abc Def",
        fmt=FMT_TEXTS["fmt"], fmt2=FMT_TEXTS["fmt2"], dy=["d1", "d2"], paths=["/a/b", "/c"], n=5,
        grp=_group(c, inner(3), inner(4)), grps=[_group(c, inner(5), inner(6)), inner(7)],
    )


def _group(c, a, b):
    from flow.record import GroupedRecord, RecordDescriptor

    if "other_desc" not in c:
        c["other_desc"] = RecordDescriptor("c09/other", [("string", "q"), ("varint[]", "nums")])
    return GroupedRecord("c09/innergroup", [a, c["other_desc"](q="other", nums=[1, 2]), b])



TYPED_FIELDS = [("string", "s"), ("wstring", "w"), ("uri", "u"), ("varint", "n"), ("filesize", "fs"), ("unix_file_mode", "mode"), ("dynamic", "o"),
                ("dynamic", "d2"), ("stringlist", "sl"), ("record", "sub"), ("record[]", "subs"), ("record", "p"), ("record", "q")]


def real_typed_record():
    """A real record for the typed matcher: canary values in string / wstring / uri / varint / filesize / unix_file_mode /
    dynamic / stringlist slots, and canary-holding records nested in `record` and `record[]` fields."""
    from flow.record import RecordDescriptor, fieldtypes

    c = real_classes()
    if "typed_desc" not in c:
        c["typed_desc"] = RecordDescriptor("c09/typed", TYPED_FIELDS)

        class CFUri(StrMixin, fieldtypes.uri):
            pass

        class CFSize(IntMixin, fieldtypes.filesize):
            pass

        class CFMode(IntMixin, fieldtypes.unix_file_mode):
            pass

        class CFStringList(ListMixin, fieldtypes.stringlist):
            pass

        c.update(CFUri=CFUri, CFSize=CFSize, CFMode=CFMode, CFStringList=CFStringList)
    return c["typed_desc"](
        s=c["CFStr"]("Abc Def"), w=c["CFStr"]("wide"), u=c["CFUri"]("http://h/p/file.txt"), n=c["CFInt"](5), fs=c["CFSize"](4096),
        mode=c["CFMode"](0o644), o=c["CFObj"]._make(1), d2=c["CFStr"]("dyn"), sl=c["CFStringList"]([CStr("x1"), CStr("y2")]),
        sub=real_canary_record(), subs=[real_canary_record()],
        p=CProto._make(0), q=CObj._make(0),  # a `record` typed field keeps any object as it is
    )


def real_plain_record():
    c = real_classes()
    return c["desc"](s="Abc Def", t="other", n=5, l=["a1", "b2"], k=[1, 2, 3], o="plain")


def count_canaries(rec):
    """How many slots of a real record still hold canary-tagged values (what survived Record.__setattr__)."""
    n = 0
    for k in ("s", "t", "n", "l", "k", "o", "w", "u", "fs", "mode", "d2", "sl", "p", "q", "fmt", "fmt2"):
        v = getattr(rec, k, None)
        if isinstance(v, CanaryBase):
            n += 1
            if isinstance(v, list):
                n += sum(1 for x in list.__iter__(v) if isinstance(x, CanaryBase))
    return n
