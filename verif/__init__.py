"""Runtime-monitoring machinery for the flow.record properties C01..C20 (see ../DESIGN.md)."""
