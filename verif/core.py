"""Shared run-time state of a check: counters, coverage cells, violations, evidence, known findings.

A check module provides

    ID            property id, e.g. "C01"
    LEVEL         "exploration" | "fault_enumeration"
    RULE          text: how cases are generated and what makes one distinct / non-trivial
    ASSUMPTIONS   list of strings
    SHARDS        {"quick": n, "thorough": m}        (optional, default 1 / 16)
    BUDGET_S      {"quick": s, "thorough": s}        (optional wall-clock watchdog per shard)
    setup(ctx)            optional: install probes
    generate(ctx)         yields JSON-able case recipes (dicts); must be deterministic in (ctx.seed, ctx.shard)
    execute(ctx, case)    runs one case through the real code + oracle, reporting through ctx
    finish(ctx)           optional: quiescent-point checks, reach requirements (ctx.require)

Verdicts are three-valued: violated (exit 1), held (exit 0), inconclusive (exit 2).
"""
from __future__ import annotations

import hashlib
import json
import os
import random
import time
import traceback
from collections import Counter

VERIF_DIR = os.path.dirname(os.path.dirname(os.path.abspath(__file__)))
KNOWN_FINDINGS_FILE = os.path.join(VERIF_DIR, "known_findings.json")
EVIDENCE_DIR = os.path.join(VERIF_DIR, "evidence")
REPLAY_DIR = os.path.join(VERIF_DIR, "replays")

MAX_SAMPLES = 6
MAX_VIOLATION_WITNESSES_PER_KEY = 3


def fp64(*parts) -> int:
    """Stable 64-bit fingerprint of a case description (independent of PYTHONHASHSEED)."""
    h = hashlib.blake2b(repr(parts).encode("utf-8", "surrogatepass"), digest_size=8)
    return int.from_bytes(h.digest(), "big")


def subseed(*parts) -> int:
    return fp64("seed", *parts) & 0x7FFFFFFFFFFF


def jsonable(o, depth=0):
    """Best-effort conversion of a witness to something json.dump accepts (never raises)."""
    if depth > 12:
        return "<deep>"
    if o is None or isinstance(o, (bool, int, float)):
        if isinstance(o, float) and (o != o or o in (float("inf"), float("-inf"))):
            return repr(o)
        if isinstance(o, int) and not isinstance(o, bool):
            return int(o)
        return o
    if isinstance(o, str):
        return str(o) if len(o) <= 400 else str(o[:400]) + "...<%d chars>" % len(o)
    if isinstance(o, (bytes, bytearray)):
        h = bytes(o).hex()
        return "hex:" + (h if len(h) <= 400 else h[:400] + "...<%d bytes>" % len(o))
    if isinstance(o, dict):
        return {str(k): jsonable(v, depth + 1) for k, v in list(o.items())[:200]}
    if isinstance(o, (list, tuple, set, frozenset)):
        seq = list(o)
        out = [jsonable(v, depth + 1) for v in seq[:60]]
        if len(seq) > 60:
            out.append("...<%d items>" % len(seq))
        return out
    try:
        return "<%s %s>" % (type(o).__name__, repr(o)[:300])
    except Exception as e:  # repr itself may be broken on a mutated tree
        return "<%s repr failed: %s>" % (type(o).__name__, type(e).__name__)


class Ctx:
    def __init__(self, prop, tier, seed, shard=0, nshards=1, budget_s=None, replaying=False):
        self.prop = prop
        self.tier = tier
        self.seed = seed
        self.shard = shard
        self.nshards = nshards
        self.replaying = replaying
        self.rng = random.Random(subseed(prop, seed, shard))
        self.t0 = time.monotonic()
        self.budget_s = budget_s
        self.evaluations = 0
        self.events = Counter()
        self.cells = Counter()
        self.reach = Counter()
        self.fingerprints = set()
        self.samples = []
        self.sample_kinds = set()
        self.violations = {}  # key-or-fingerprint -> {"key", "msg", "count", "witnesses": [...]}
        self.inconclusive = []
        self.notes = {}
        self.timed_out = False
        self.current_case = None
        self.exhaustive = None
        self.state = {}  # free for the check module (probes etc.)

    # ---- bookkeeping -------------------------------------------------------------------------
    @property
    def quick(self):
        return self.tier == "quick"

    def scale(self, quick, thorough):
        """Per-shard size parameter for the tier."""
        return quick if self.tier == "quick" else thorough

    def mine(self, index: int) -> bool:
        """Partition an enumerated space over the shards."""
        return index % self.nshards == self.shard

    def out_of_time(self) -> bool:
        if self.budget_s is not None and time.monotonic() - self.t0 > self.budget_s:
            self.timed_out = True
            return True
        return False

    def ev(self, n=1):
        self.evaluations += n

    def event(self, kind, n=1):
        self.events[kind] += n

    def cell(self, *name):
        self.cells["/".join(str(x) for x in name)] += 1

    def nontrivial(self, *parts):
        self.fingerprints.add(fp64(*parts))

    def sample(self, obj, kind=None):
        """Keep a few of the actual cases, preferring one per kind."""
        if kind is not None:
            if kind in self.sample_kinds or len(self.samples) >= MAX_SAMPLES * 2:
                return
            self.sample_kinds.add(kind)
        elif len(self.samples) >= MAX_SAMPLES:
            return
        self.samples.append(jsonable(obj))

    def note(self, key, value):
        self.notes[key] = value

    def note_add(self, key, n=1):
        self.notes[key] = self.notes.get(key, 0) + n

    def require(self, cond, why):
        """Reach condition: when false the run cannot claim 'held'."""
        if not cond:
            self.inconclusive.append(why)

    # ---- violations --------------------------------------------------------------------------
    def violation(self, key, msg, detail=None, case=None):
        """Report a violation. `key` names the mechanism if the check's classifier recognised one
        (only then can it be a known finding), else None."""
        case = case if case is not None else self.current_case
        ident = key if key else "unclassified:" + str(msg)[:80]
        ent = self.violations.get(ident)
        if ent is None:
            ent = self.violations[ident] = {"key": key, "msg": str(msg), "count": 0, "witnesses": []}
        ent["count"] += 1
        if len(ent["witnesses"]) < MAX_VIOLATION_WITNESSES_PER_KEY:
            ent["witnesses"].append({"case": jsonable(case), "detail": jsonable(detail), "shard": self.shard})

    # ---- (de)serialisation for shard merging --------------------------------------------------
    def summary(self) -> dict:
        return {
            "evaluations": self.evaluations,
            "events": dict(self.events),
            "cells": dict(self.cells),
            "reach": dict(self.reach),
            "fingerprints": sorted(self.fingerprints),
            "samples": self.samples,
            "violations": self.violations,
            "inconclusive": self.inconclusive,
            "notes": self.notes,
            "timed_out": self.timed_out,
            "exhaustive": self.exhaustive,
            "wall_s": round(time.monotonic() - self.t0, 3),
        }


def merge_notes(a, b):
    for k, v in b.items():
        if k not in a:
            a[k] = v
        elif isinstance(v, bool) or isinstance(a[k], bool):
            a[k] = a[k] and v
        elif isinstance(v, (int, float)) and isinstance(a[k], (int, float)):
            a[k] = a[k] + v
        elif isinstance(v, dict) and isinstance(a[k], dict):
            merge_notes(a[k], v)
        elif isinstance(v, list) and isinstance(a[k], list):
            for x in v:
                if x not in a[k] and len(a[k]) < 40:
                    a[k].append(x)
        # else keep the first
    return a


def merge_summaries(summaries):
    out = {
        "evaluations": 0,
        "events": Counter(),
        "cells": Counter(),
        "reach": Counter(),
        "fingerprints": set(),
        "samples": [],
        "violations": {},
        "inconclusive": [],
        "notes": {},
        "timed_out": False,
        "exhaustive": None,
        "shard_wall_s": [],
    }
    for s in summaries:
        out["evaluations"] += s["evaluations"]
        out["events"].update(s["events"])
        out["cells"].update(s["cells"])
        out["reach"].update(s["reach"])
        out["fingerprints"].update(s["fingerprints"])
        for x in s["samples"]:
            if len(out["samples"]) < MAX_SAMPLES * 2 and x not in out["samples"]:
                out["samples"].append(x)
        for ident, ent in s["violations"].items():
            dst = out["violations"].get(ident)
            if dst is None:
                out["violations"][ident] = dict(ent, witnesses=list(ent["witnesses"]))
            else:
                dst["count"] += ent["count"]
                for w in ent["witnesses"]:
                    if len(dst["witnesses"]) < MAX_VIOLATION_WITNESSES_PER_KEY:
                        dst["witnesses"].append(w)
        for r in s["inconclusive"]:
            if r not in out["inconclusive"]:
                out["inconclusive"].append(r)
        merge_notes(out["notes"], s["notes"])
        out["timed_out"] = out["timed_out"] or s["timed_out"]
        if s.get("exhaustive") is not None:
            out["exhaustive"] = s["exhaustive"] if out["exhaustive"] is None else (out["exhaustive"] and s["exhaustive"])
        out["shard_wall_s"].append(s.get("wall_s"))
    return out


# ---- known findings -----------------------------------------------------------------------------
def load_known_findings(prop):
    """-> {key: entry} for entries of this property with status 'known'. Never written at run time."""
    try:
        with open(KNOWN_FINDINGS_FILE) as f:
            data = json.load(f)
    except FileNotFoundError:
        return {}
    out = {}
    for ent in data.get("findings", []):
        if ent.get("property") == prop and ent.get("status") == "known":
            out[ent["key"]] = ent
    return out


def run_cases(mod, ctx):
    """Drive generate/execute of one shard. An exception escaping execute() is reported, never swallowed."""
    if hasattr(mod, "setup"):
        mod.setup(ctx)
    try:
        for case in mod.generate(ctx):
            if ctx.out_of_time():
                break
            ctx.current_case = case
            try:
                mod.execute(ctx, case)
            except Exception as e:  # noqa: BLE001 - witness it
                ctx.violation(
                    None,
                    "unexpected %s escaped the harness" % type(e).__name__,
                    detail={"exception": repr(e)[:500], "traceback": traceback.format_exc()[-3000:]},
                    case=case,
                )
        ctx.current_case = None
        if hasattr(mod, "finish"):
            mod.finish(ctx)
    finally:
        if hasattr(mod, "teardown"):
            mod.teardown(ctx)
