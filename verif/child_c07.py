"""Child interpreter of C07 (run as `python -m verif.child_c07`, job as JSON on stdin, outcomes as JSON on stdout).

mode "helpers": evaluate (record index, expression) pairs on the C07 record pool in this interpreter - started by the
                parent with a particular PYTHONHASHSEED, so hash-order dependence of an engine becomes visible.
mode "cold":    import only flow.record.selector and RecordDescriptor, define a record type with plain fields, and
                evaluate the expressions with one engine first and the other afterwards, before anything else touched
                the field type modules (a record type with a net.* field, the other engine ...).

Outcome of one evaluation: ["V", truth value] or ["E", exception class name].
"""
from __future__ import annotations

import json
import os
import sys


def outcome(cls, expr, rec):
    try:
        return ["V", bool(cls(expr).match(rec))]
    except Exception as e:  # noqa: BLE001
        return ["E", type(e).__name__]


def main():
    job = json.load(sys.stdin)
    repo = os.environ.get("VERIF_REPO", "/repo")
    if os.path.realpath(repo) != "/repo":
        sys.path.insert(0, repo)   # scratch copy of a mutant run
    import warnings

    warnings.simplefilter("ignore")
    out = {"hashseed": os.environ.get("PYTHONHASHSEED"), "results": []}
    if job["mode"] == "cold":
        from flow.record import RecordDescriptor
        from flow.record.selector import CompiledSelector, Selector

        out["net_modules_before"] = sorted(m for m in sys.modules if m.startswith("flow.record.fieldtypes.net."))
        rec = RecordDescriptor("cold/plain", [("varint", "v"), ("string", "s")])(v=80, s="10.1.2.3")
        engines = {"interpreted": Selector, "compiled": CompiledSelector}
        for engine in job["order"]:
            for expr in job["exprs"]:
                out["results"].append([engine, expr, outcome(engines[engine], expr, rec)])
    else:
        import random

        from flow.record.selector import CompiledSelector, Selector

        from verif import selgen

        pool = selgen.record_pool(random.Random(job["pool"]), grouped=True, special=True)
        for ri, expr in job["cases"]:
            rec = pool[ri]
            out["results"].append([ri, expr, outcome(Selector, expr, rec), outcome(CompiledSelector, expr, rec)])
    json.dump(out, sys.stdout)


if __name__ == "__main__":
    main()
