"""Hand-written value literals for the wire-format checks: (field type, constructor input, expected observation).

The expected observation is written out by hand from the format's documentation and the standard library's meaning of the
input - it is NOT produced by the library under test - so a change that alters what a constructor makes of an input AND
what the reader makes of the corresponding wire value in the same way (a normalisation that leaks into the stream in both
directions) still shows.  `src` is evaluated with the names below; `ref` says whether the reference encoder can express the
value (not so for the value classes owned by the C01/C02 known findings)."""
from __future__ import annotations

import datetime as dt

UTC = dt.timezone.utc


def _ns():
    from flow.record.fieldtypes import command as fcommand
    from flow.record.fieldtypes import path as fpath

    return {"dt": dt, "UTC": UTC, "tz": lambda h, m=0: dt.timezone(dt.timedelta(hours=h, minutes=m)), "posix": fpath.from_posix, "win": fpath.from_windows,
            "pcmd": fcommand.from_posix, "wcmd": fcommand.from_windows}


def evaluate(src):
    return eval(src, _ns())  # noqa: S307 - our own literals


def S(cls, text):
    return ["str", cls, text]


def I(cls, n):  # noqa: E743
    return ["int", cls, n]


def U(cls, n):
    return ["int", cls, n, n]


def DT(y, mo, d, h=0, mi=0, s=0, us=0, off_s=0):
    return ["dt", y, mo, d, h, mi, s, us, off_s * 10**6]


def P(fl, text):
    return ["path", fl, text]


def CMD(fl, exe, args):
    return ["cmd", fl, P(fl, exe), [S("str", a) for a in args]]


def IP(ver, n):
    return ["ip", ver, n, None]


V4 = lambda a, b, c, d: (a << 24) | (b << 16) | (c << 8) | d  # noqa: E731

# (field type, src, expected observation of the field, reference-encodable)
LITERALS = [
    ("string", "'h\\u00e9llo \\U0001f600'", S("string", "h\u00e9llo \U0001f600"), True),
    ("string", "b'a\\xffb'", S("string", "a\udcffb"), True),
    ("string", "''", S("string", ""), True),
    ("wstring", "'w\\x00ide'", S("string", "w\x00ide"), True),
    ("bytes", "b'\\x00\\xff\\n'", ["bytes", "00ff0a"], True),
    ("bytes", "b''", ["bytes", ""], True),
    ("varint", "2**70", I("varint", 2**70), True),
    ("varint", "-(2**64)", I("varint", -(2**64)), True),
    ("varint", "2**64 - 1", I("varint", 2**64 - 1), True),
    ("varint", "-(2**63)", I("varint", -(2**63)), True),
    ("varint", "0", I("varint", 0), True),
    ("uint16", "65535", U("uint16", 65535), True),
    ("uint16", "0", U("uint16", 0), True),
    ("uint32", "4294967295", U("uint32", 4294967295), True),
    ("net.tcp.Port", "443", U("port", 443), True),
    ("net.udp.Port", "65535", U("port", 65535), True),
    ("filesize", "2**40", I("filesize", 2**40), True),
    ("unix_file_mode", "0o4755", I("unix_file_mode", 0o4755), True),
    ("float", "1.5", ["float", "3ff8000000000000"], True),
    ("float", "-0.0", ["float", "8000000000000000"], True),
    ("float", "float('inf')", ["float", "7ff0000000000000"], True),
    ("float", "5e-324", ["float", "0000000000000001"], True),
    ("float", "3", ["float", "4008000000000000"], True),
    ("boolean", "True", ["boolean", True, 1], True),
    ("boolean", "0", ["boolean", False, 0], True),
    ("datetime", "dt.datetime(2024, 1, 2, 3, 4, 5, 6)", DT(2024, 1, 2, 3, 4, 5, 6), True),
    ("datetime", "dt.datetime(2024, 1, 2, 3, 4, 5, 6, tzinfo=UTC)", DT(2024, 1, 2, 3, 4, 5, 6), True),
    ("datetime", "dt.datetime(2024, 6, 30, 23, 59, 59, 999999, tzinfo=tz(5, 30))", DT(2024, 6, 30, 23, 59, 59, 999999, 19800), True),
    ("datetime", "dt.datetime(1999, 12, 31, 12, 0, 0, tzinfo=tz(-8))", DT(1999, 12, 31, 12, 0, 0, 0, -28800), True),
    ("datetime", "'2019-09-26T07:58:30.996+0200'", DT(2019, 9, 26, 7, 58, 30, 996000, 7200), True),
    ("datetime", "'2023-01-10T16:12:01Z'", DT(2023, 1, 10, 16, 12, 1), True),
    ("datetime", "1700000000", DT(2023, 11, 14, 22, 13, 20), True),
    ("datetime", "0", DT(1970, 1, 1), True),
    ("datetime", "dt.datetime(1, 1, 1, tzinfo=UTC)", DT(1, 1, 1), True),
    ("datetime", "dt.datetime(9999, 12, 31, 23, 59, 59, 999999, tzinfo=UTC)", DT(9999, 12, 31, 23, 59, 59, 999999), True),
    ("path", "posix('/a/b c/d.txt')", P("posix", "/a/b c/d.txt"), True),
    ("path", "win('c:\\\\x\\\\y z.txt')", P("win", "c:\\x\\y z.txt"), True),
    ("path", "posix('rel/\\udcff')", P("posix", "rel/\udcff"), True),
    ("path", "win('\\\\\\\\srv\\\\share\\\\f')", P("win", "\\\\srv\\share\\f"), True),
    ("command", "pcmd(\"a 'b c' d\")", CMD("posix", "a", ["b c", "d"]), True),
    ("command", "wcmd('x.exe /q \"r r\"')", CMD("win", "x.exe", ['/q "r r"']), True),
    ("command", "wcmd('\"C:\\\\Program Files\\\\a b.exe\" -k')", CMD("win", "C:\\Program Files\\a b.exe", ["-k"]), True),
    ("command", "pcmd(\"'/opt/my tool/run' --x\")", CMD("posix", "/opt/my tool/run", ["--x"]), True),
    ("digest", "('d41d8cd98f00b204e9800998ecf8427e', None, None)", ["digest", "d41d8cd98f00b204e9800998ecf8427e", None, None], True),
    ("digest", "('D41D8CD98F00B204E9800998ECF8427E', 'da39a3ee5e6b4b0d3255bfef95601890afd80709', 'e3b0c44298fc1c149afbf4c8996fb92427ae41e4649b934ca495991b7852b855')",
     ["digest", "d41d8cd98f00b204e9800998ecf8427e", "da39a3ee5e6b4b0d3255bfef95601890afd80709", "e3b0c44298fc1c149afbf4c8996fb92427ae41e4649b934ca495991b7852b855"], True),
    ("net.ipaddress", "'1.2.3.4'", IP(4, V4(1, 2, 3, 4)), True),
    ("net.ipaddress", "'255.255.255.255'", IP(4, 2**32 - 1), True),
    ("net.ipaddress", "'0.0.0.0'", IP(4, 0), True),
    ("net.ipaddress", "'::ffff:1.2.3.4'", IP(6, (0xFFFF << 32) | V4(1, 2, 3, 4)), True),  # IPv4-mapped stays IPv6
    ("net.ipaddress", "'::ffff:192.0.2.10'", IP(6, 0xFFFFC000020A), True),
    ("net.ipaddress", "'64:ff9b::192.0.2.33'", IP(6, (0x0064FF9B << 96) | V4(192, 0, 2, 33)), True),
    ("net.ipaddress", "'::1:0:0'", IP(6, 2**32), True),
    ("net.ipaddress", "'2001:db8::1'", IP(6, (0x20010DB8 << 96) | 1), True),
    ("net.ipaddress", "'ffff:ffff:ffff:ffff:ffff:ffff:ffff:ffff'", IP(6, 2**128 - 1), True),
    ("net.ipaddress", "281470698652420", IP(6, 281470698652420), True),
    ("net.IPAddress", "'10.0.0.1'", IP(4, V4(10, 0, 0, 1)), True),
    ("net.ipnetwork", "'10.0.0.0/8'", ["net", 4, "10.0.0.0/8"], True),
    ("net.ipnetwork", "'1.2.3.4/32'", ["net", 4, "1.2.3.4/32"], True),
    ("net.ipnetwork", "'1.2.3.4'", ["net", 4, "1.2.3.4/32"], True),
    ("net.ipnetwork", "'::1/128'", ["net", 6, "::1/128"], True),
    ("net.ipnetwork", "'::1'", ["net", 6, "::1/128"], True),
    ("net.ipnetwork", "'2001:0db8:0000::/32'", ["net", 6, "2001:db8::/32"], True),
    ("net.ipnetwork", "'0.0.0.0/0'", ["net", 4, "0.0.0.0/0"], True),
    ("net.ipnetwork", "'192.168.1.0/255.255.255.0'", ["net", 4, "192.168.1.0/24"], True),
    ("net.ipnetwork", "'::ffff:0:0/96'", ["net", 6, "::ffff:0:0/96"], True),
    ("net.IPNetwork", "'172.16.0.0/12'", ["net", 4, "172.16.0.0/12"], True),
    ("net.ipv4.Address", "'1.2.3.4'", ["ipv4addr", V4(1, 2, 3, 4)], True),
    ("uri", "'http://user:pw@example.com:8080/p;x?q=1#f'", S("uri", "http://user:pw@example.com:8080/p;x?q=1#f"), True),
    ("stringlist", "['a', 'b c']", ["list", "stringlist", [S("str", "a"), S("str", "b c")]], True),
    ("dictlist", "[{'a': 1, 'b': 'x'}]", ["list", "dictlist", [["dict", [[S("str", "a"), I("int", 1)], [S("str", "b"), S("str", "x")]]]]], True),
    ("string[]", "['a', b'\\xff', '']", ["list", "string[]", [S("string", "a"), S("string", "\udcff"), S("string", "")]], True),
    ("varint[]", "[1, 2**64, -1]", ["list", "varint[]", [I("varint", 1), I("varint", 2**64), I("varint", -1)]], True),
    ("net.ipaddress[]", "['::ffff:10.0.0.1', '10.0.0.1']", ["list", "net.ipaddress[]", [IP(6, (0xFFFF << 32) | V4(10, 0, 0, 1)), IP(4, V4(10, 0, 0, 1))]], True),
    ("net.ipnetwork[]", "['10.1.2.3', 'fe80::/10']", ["list", "net.ipnetwork[]", [["net", 4, "10.1.2.3/32"], ["net", 6, "fe80::/10"]]], True),
    ("datetime[]", "[dt.datetime(2020, 2, 29, 1, 2, 3), '2020-02-29T01:02:03+01:00']", ["list", "datetime[]", [DT(2020, 2, 29, 1, 2, 3), DT(2020, 2, 29, 1, 2, 3, 0, 3600)]], True),
    ("path[]", "[posix('/x'), win('d:\\\\y')]", ["list", "path[]", [P("posix", "/x"), P("win", "d:\\y")]], True),
    ("command[]", "[pcmd('ls -l'), wcmd('dir /s')]", ["list", "command[]", [CMD("posix", "ls", ["-l"]), CMD("win", "dir", ["/s"])]], True),
    ("digest[]", "[('d41d8cd98f00b204e9800998ecf8427e', None, None)]", ["list", "digest[]", [["digest", "d41d8cd98f00b204e9800998ecf8427e", None, None]]], True),
    ("boolean[]", "[True, 0, 1]", ["list", "boolean[]", [["boolean", True, 1], ["boolean", False, 0], ["boolean", True, 1]]], True),
    ("bytes[]", "[b'', b'\\x80']", ["list", "bytes[]", [["bytes", ""], ["bytes", "80"]]], True),
    ("float[]", "[1.5, float('-inf')]", ["list", "float[]", [["float", "3ff8000000000000"], ["float", "fff0000000000000"]]], True),
    ("dynamic", "5", I("varint", 5), True),
    ("dynamic", "'text'", S("string", "text"), True),
    ("dynamic", "b'\\x01'", ["bytes", "01"], True),
]
