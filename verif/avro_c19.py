"""Independent model of the Avro mapping of flow.record (properties C19, used by C11 for its Avro container cells).

Nothing here imports flow.record.adapter.avro: the table of mapped types and their Avro ranges is written down from the
property statement / DESIGN C19, so a change of AVRO_TYPE_MAP in the tree under test is *observed*, never followed.

* mappability of a record (per slot, reserved slots included) -> MAPPABLE / UNMAPPABLE(reason, index of first bad slot)
* comparison of a written record with what a reader produced (floats after rounding to single precision, timestamps as
  UTC instants to the microsecond, everything else by canonical observation `observe.oval`)
* comparison of a written record with the raw dictionary a standard Avro reader (fastavro) yields
* a seeded generator of descriptors / values over the mapped types, biased to the boundaries of the Avro types
"""
from __future__ import annotations

import datetime as _dt
import math
import random
import struct

from . import gen, observe

UTC = _dt.timezone.utc
EPOCH = _dt.datetime(1970, 1, 1, tzinfo=UTC)

# field type -> Avro primitive the property expects it to be representable in (digest: see DESIGN C19 notes)
INT_TYPES = ("uint16", "uint32")  # Avro int: 32-bit signed
LONG_TYPES = ("filesize", "unix_file_mode", "varint")  # Avro long: 64-bit signed
TEXT_TYPES = ("string", "wstring", "uri")
MAPPED_TYPES = ("boolean", "datetime", "filesize", "uint16", "uint32", "float", "string", "unix_file_mode", "varint", "wstring",
                "uri", "digest", "bytes")
MAPPED_NO_DIGEST = tuple(t for t in MAPPED_TYPES if t != "digest")
RESERVED = (("string", "_source"), ("string", "_classification"), ("datetime", "_generated"), ("varint", "_version"))
UNMAPPED_TYPES = ("net.ipaddress", "path", "string[]", "command", "dynamic", "stringlist", "dictlist", "net.ipnetwork",
                  "net.tcp.Port", "varint[]", "record", "datetime[]", "net.ipv4.Address", "bytes[]")

I32 = (-(2**31), 2**31 - 1)
I64 = (-(2**63), 2**63 - 1)


def micros(v: _dt.datetime) -> int:
    """UTC instant of a datetime in microseconds since the epoch (exact integer arithmetic; a naive value is read as UTC,
    the convention of flow.record's datetime field)."""
    if v.utcoffset() is None:
        v = v.replace(tzinfo=UTC)
    d = v - EPOCH
    return (d.days * 86400 + d.seconds) * 10**6 + d.microseconds


def single(x: float):
    """The value rounded to IEEE single precision as 4 bytes, 'nan' for any NaN, None when outside the single range."""
    x = float.__float__(x)
    if x != x:
        return "nan"
    try:
        return struct.pack(">f", x)
    except OverflowError:
        return None


def has_surrogate(s: str) -> bool:
    return any(0xD800 <= ord(c) <= 0xDFFF for c in str.__str__(s))


def all_slots(desc):
    """[(type name, slot name)] of a descriptor in slot order, reserved fields included."""
    return effective_fields(desc) + list(RESERVED)


def effective_fields(desc):
    """[(type, name)] of the record's own slots: a field name declared more than once (RecordDescriptor.extend() with an
    existing name, a field rewriter re-typing a field) keeps the position of its first declaration and the type of its LAST
    one - that is the type the record's slot really has."""
    last, order = {}, []
    for t, n in desc.get_field_tuples():
        t, n = str(t), str(n)
        if n not in last:
            order.append(n)
        last[n] = t
    return [(last[n], n) for n in order]


def slot_problem(ftype, v):
    """None when the Avro mapping must be able to hold the value `v` of declared type `ftype`, else a reason string."""
    import flow.record.fieldtypes as ft

    if ftype not in MAPPED_TYPES:
        return "unmapped-type"
    if v is None:
        return None
    if ftype == "digest":
        return "digest"  # in the type map, but its packed form (a 3-tuple) is not Avro bytes: a refusal is allowed
    if ftype in INT_TYPES:
        return None if I32[0] <= int(v) <= I32[1] else "int-range"
    if ftype in LONG_TYPES:
        return None if I64[0] <= int(v) <= I64[1] else "long-range"
    if ftype in TEXT_TYPES:
        return "surrogate-text" if has_surrogate(v) else None
    if ftype == "float":
        return None if single(v) is not None else "float-range"
    if ftype == "datetime":
        try:
            m = micros(v)
            EPOCH + _dt.timedelta(microseconds=m)  # the instant must be a representable UTC datetime
        except OverflowError:
            return "datetime-range"
        return None
    if ftype in ("boolean", "bytes"):
        return None
    return "unmapped-type"


def is_grouped(rec):
    import flow.record.base as base

    return isinstance(rec, base.GroupedRecord)


def compare_slots(rec):
    """Slots the comparison looks at: every slot of a plain record; for a grouped record the flat fields of its descriptor
    (what 'stored faithfully' can mean for it: the same flat values under the group's flat type)."""
    if is_grouped(rec):
        # "If two Records have the same fieldname, the first one will prevail" (GroupedRecord's documented rule), which
        # covers the reserved fields every member carries
        return effective_fields(rec._desc) + list(RESERVED)
    return all_slots(rec._desc)


def slot_value(rec, name):
    """Value of a slot; for a grouped record the flat value = that of the first member declaring the field (read from the
    member itself: the group's own attributes 'name', 'records', ... shadow member fields of those names, C15's finding)."""
    if is_grouped(rec):
        for m in rec.records:
            if name in m.__slots__:
                return getattr(m, name)
        raise AttributeError(name)
    return getattr(rec, name)


def record_problem(rec):
    """-> None (mappable) or (reason, index of the first slot that cannot be mapped, in slot order)."""
    if is_grouped(rec):
        return ("grouped", None)
    for i, (t, n) in enumerate(all_slots(rec._desc)):
        why = slot_problem(t, getattr(rec, n))
        if why:
            return (why, i)
    return None


def descriptor_problem(desc):
    for t, _ in desc.get_field_tuples():
        if str(t) not in MAPPED_TYPES:
            return "unmapped-type"
    return None


# ---- comparison: written record vs record produced by a flow.record reader --------------------------------------
def value_equal(ftype, w, r):
    """Equality the property demands for one slot: floats to single precision, timestamps as UTC instants."""
    import flow.record.fieldtypes as ft

    if ftype == "digest":
        # None is by definition the empty digest (C01)
        ow = observe.oval(w) if w is not None else ["digest", None, None, None]
        orr = observe.oval(r) if r is not None else ["digest", None, None, None]
        return ow == orr
    if w is None or r is None:
        return w is None and r is None
    if ftype == "float":
        return isinstance(r, float) and isinstance(r, ft.float) and single(w) == single(r)
    if ftype == "datetime":
        return isinstance(r, _dt.datetime) and isinstance(r, ft.datetime) and micros(w) == micros(r)
    return observe.oval(w) == observe.oval(r)


def record_diffs(written, read):
    """List of human-readable differences between a written record and the record a reader returned ([] = same type
    name, same field list, same values)."""
    dw, dr = observe.desc_obs(written._desc), observe.desc_obs(read._desc)
    if dw[0] != dr[0]:
        return ["type name %r != %r" % (dw[0], dr[0])]
    if dw[1] != dr[1]:
        return ["field list %r != %r" % (dw[1], dr[1])]
    out = []
    if not is_grouped(written) and tuple(written.__slots__) != tuple(read.__slots__):
        return ["slots %r != %r" % (written.__slots__, read.__slots__)]
    for t, n in compare_slots(written):
        w, r = slot_value(written, n), getattr(read, n)
        if not value_equal(t, w, r):
            out.append("%s (%s): written %s, read %s" % (n, t, _show(t, w), _show(t, r)))
    return out


def _show(t, v):
    if isinstance(v, _dt.datetime):
        try:
            return "%r = instant %d us" % (v, micros(v))
        except Exception:
            return repr(v)
    if isinstance(v, float) and t == "float":
        s = single(v)
        return "%r (single %s)" % (float.__float__(v), s.hex() if isinstance(s, bytes) else s)
    s = repr(observe.oval(v))
    return s if len(s) < 200 else s[:200] + "..."


# ---- comparison: written record vs raw dictionary of a standard Avro reader ---------------------------------------
def raw_value_equal(ftype, w, raw):
    import flow.record.fieldtypes as ft

    if w is None:
        return raw is None
    if raw is None:
        return False
    if ftype == "boolean":
        return type(raw) is bool and raw == bool(w.value if isinstance(w, ft.boolean) else w)
    if ftype in INT_TYPES or ftype in LONG_TYPES:
        return type(raw) is int and raw == int(w)
    if ftype == "float":
        return type(raw) is float and single(w) == single(raw)
    if ftype in TEXT_TYPES:
        return type(raw) is str and raw == str.__str__(w)
    if ftype == "bytes":
        return type(raw) is bytes and raw == bytes(w)
    if ftype == "datetime":
        if isinstance(raw, _dt.datetime):
            return micros(raw) == micros(w)
        return type(raw) is int and raw == micros(w)  # a reader that does not apply the logical type sees the long
    if ftype == "digest":
        return True  # no raw form is defined by the property for a digest; the AvroReader comparison decides
    return False


def raw_diffs(written, raw):
    if not isinstance(raw, dict):
        return ["raw datum is %s, not a record" % type(raw).__name__]
    slots = compare_slots(written)
    out = []
    if is_grouped(written):
        missing = [n for _, n in slots if n not in raw]
        if missing:
            return ["raw record lacks the flat fields %r" % missing]
    elif sorted(raw.keys()) != sorted(n for _, n in slots):
        out.append("raw record has fields %r, expected %r" % (sorted(raw.keys()), sorted(n for _, n in slots)))
        return out
    for t, n in slots:
        if not raw_value_equal(t, slot_value(written, n), raw[n]):
            out.append("%s (%s): written %s, raw %r" % (n, t, _show(t, slot_value(written, n)), raw[n] if not isinstance(raw[n], (bytes, str)) or len(raw[n]) < 80 else raw[n][:80]))
    return out


# ---- generator ------------------------------------------------------------------------------------------------------
GOOD_CLASSES = ("none", "empty", "boundary", "random", "hostile")
BAD_CLASSES = {  # value classes the Avro mapping cannot represent, per type
    "uint32": ("out_of_range",), "varint": ("out_of_range",), "filesize": ("out_of_range",), "unix_file_mode": ("out_of_range",),
    "string": ("surrogate",), "wstring": ("surrogate",), "uri": ("surrogate",), "digest": ("digest",),
}
_F32_MAX = 3.4028234663852886e38
_F32_TINY = 1.401298464324817e-45


def classes_for(ftype):
    """Value classes of the coverage matrix for one mapped type (mappable ones, then unmappable ones)."""
    if ftype == "digest":
        return ("none", "digest")
    if ftype == "boolean":
        return ("none", "empty", "random")
    good = GOOD_CLASSES if ftype in ("string", "wstring", "bytes", "float", "datetime") else ("none", "empty", "boundary", "random")
    return tuple(good) + BAD_CLASSES.get(ftype, ())


def all_cells():
    return [(t, vc) for t in MAPPED_TYPES for vc in classes_for(t)]


def _dt_pool():
    z = gen._zone("Europe/Amsterdam") or UTC
    kath = gen._zone("Asia/Kathmandu") or UTC
    D = _dt.datetime
    return [
        D(1970, 1, 1, 0, 0, 0, 1, tzinfo=UTC), D(1970, 1, 1, 0, 0, 1, tzinfo=UTC), D(1970, 1, 1, 0, 0, 0, 999999, tzinfo=UTC),
        D(1970, 1, 1, 1, 11, 34, 967295, tzinfo=UTC), D(1970, 1, 1, 1, 11, 34, 967296, tzinfo=UTC), D(1970, 1, 1, 1, 11, 34, 967297, tzinfo=UTC),
        D(1970, 1, 1, 1, 11, 35), D(1970, 1, 1, 0, 16, 40), D(1970, 1, 1, 5, 45, tzinfo=kath), D(1970, 1, 1, 1, 0, tzinfo=z),
        D(1969, 12, 31, 23, 59, 59, 999999), D(1969, 12, 31, 23, 59, 59, tzinfo=UTC), D(1969, 12, 31, 22, 48, 25, 32704, tzinfo=UTC),
        D(1901, 12, 13, 20, 45, 51), D(1900, 1, 1, 12, 0, tzinfo=z), D(1, 1, 1, 0, 0, 0, tzinfo=UTC), D(1, 1, 1, 0, 0, 0, 1),
        D(1, 1, 2, 0, 0, 0, tzinfo=_dt.timezone(_dt.timedelta(hours=14))), D(9999, 12, 31, 23, 59, 59, 999999, tzinfo=UTC),
        D(9999, 12, 31, 23, 59, 59, 999998), D(9999, 12, 30, 0, 0, 0, tzinfo=_dt.timezone(_dt.timedelta(hours=-12))),
        D(2038, 1, 19, 3, 14, 8), D(2106, 2, 7, 6, 28, 16), D(2000, 2, 29, 12, 0, 0, 500000),
        D(2023, 10, 29, 2, 30, tzinfo=z, fold=0), D(2023, 10, 29, 2, 30, tzinfo=z, fold=1), D(2023, 3, 26, 2, 30, tzinfo=z),
        D(2020, 1, 1, 12, 0, tzinfo=_dt.timezone(_dt.timedelta(hours=2))), D(1985, 12, 31, 23, 59, 59, 5, tzinfo=kath),
    ]


def make_value(rng, ftype, vc, thorough=False):
    """Plain constructor input for a field of `ftype` in value class `vc`."""
    if vc == "none":
        return None
    if ftype == "boolean":
        return False if vc == "empty" else rng.choice([True, False, 0, 1])
    if ftype == "uint16":
        return {"empty": 0, "boundary": rng.choice([1, 255, 256, 32767, 32768, 65534, 65535])}.get(vc, rng.randint(0, 65535))
    if ftype == "uint32":
        if vc == "out_of_range":
            return rng.choice([2**31, 2**31 + 1, 2**32 - 1, rng.randint(2**31, 2**32 - 1)])
        return {"empty": 0, "boundary": rng.choice([1, 65535, 65536, 2**31 - 2, 2**31 - 1])}.get(vc, rng.randint(0, 2**31 - 1))
    if ftype in LONG_TYPES:
        if vc == "out_of_range":
            return rng.choice([2**63, -(2**63) - 1, 2**63 + 1, 2**64 - 1, 2**64, -(2**64), 10**40, -(10**40)])
        if vc == "empty":
            return 0
        if vc == "boundary":
            return rng.choice([1, -1, 2**31 - 1, 2**31, 2**31 + 1, -(2**31), -(2**31) - 1, 2**32 - 1, 2**32, 2**53 + 1, 2**63 - 1, 2**63 - 2,
                               -(2**63), -(2**63) + 1])
        return rng.choice([rng.randint(-1000, 1000), rng.randint(-(2**40), 2**40), rng.randint(-(2**63), 2**63 - 1)])
    if ftype == "float":
        if vc == "empty":
            return 0.0
        if vc == "boundary":
            return rng.choice([-0.0, 1.0, -1.0, 0.1, 1.5, _F32_MAX, -_F32_MAX, _F32_TINY, -_F32_TINY, 5e-324, 1.1754943508222875e-38, 16777217.0,
                               1e38, 3.4e38, 1.0000000596046448, 1.00000006, 2.2250738585072014e-308])
        if vc == "hostile":
            return rng.choice([float("inf"), float("-inf"), float("nan"), gen._f("7ff8000000000001"), gen._f("fff8000000000000")])
        return rng.choice([rng.uniform(-1e6, 1e6), rng.random(), rng.uniform(-1, 1) * 10 ** rng.randint(-44, 37), float(rng.randint(-(2**24), 2**24))])
    if ftype in ("string", "wstring"):
        if vc == "surrogate":
            return rng.choice(["\udc80", "pre\udcfepost", "\udcff\udc80", b"\xff\xfeabc", b"caf\xe9", "\ud800", "a\udfffb", "tail\udcc3"])
        if vc == "hostile":
            return rng.choice(["\x00", "a\x00b", "\ufeffbom", "line1\nline2", "quote\"'`", "\\x00", "\x7f\x1b[0m", "%s{}{0}", "None", "\U0010ffff", "😀🎉𝔘",
                               "[\"x\", [[\"string\", \"y\"]]]", "퟿"])
        v = gen.text_value(rng, vc if vc in ("empty", "boundary", "random") else "random", thorough)
        return v
    if ftype == "uri":
        if vc == "surrogate":
            return rng.choice(["x\udcffy", "http://h/\udc80"])
        if vc == "empty":
            return ""
        return rng.choice([u for u in gen.URIS if not has_surrogate(u)])
    if ftype == "bytes":
        return gen.bytes_value(rng, vc if vc != "extreme" else "random", thorough)
    if ftype == "datetime":
        if vc == "empty":
            return EPOCH
        if vc == "boundary":
            return rng.choice(_dt_pool())
        if vc == "hostile":
            return rng.choice(["2023-01-10T16:12:01Z", "2019-09-26T07:58:30.996+0200", "2011-11-04 00:05:23+04:00", 0, 1, -1, 4294967295, 4294967296,
                               1700000000, 1700000000.5, -86400.25, b"2023-12-31T13:37:01.123456Z"])
        return gen.datetime_value(rng, "random")
    if ftype == "digest":
        if vc == "digest":
            return rng.choice([(None, None, None), ("d41d8cd98f00b204e9800998ecf8427e", None, None), gen.digest_value(rng, "random")])
        return None
    raise KeyError(ftype)


def make_descriptor(rng, must=(), nfields=None, digest_p=0.04, name=None, wide=False):
    from flow.record import RecordDescriptor

    n = nfields if nfields is not None else rng.choice([0, 1, 1, 2, 2, 3, 3, 4, 6, 9, 13] + ([25, 60] if wide else []))
    types = list(must)
    while len(types) < n:
        types.append("digest" if rng.random() < digest_p else rng.choice(MAPPED_NO_DIGEST))
    rng.shuffle(types)
    names = gen.unique_names(rng, len(types), allow_keyword=rng.random() < 0.15)
    return RecordDescriptor(name or gen.rand_typename(rng), list(zip(types, names)))


def make_record(rng, desc, bad=False, focus=None, thorough=False):
    """A record of `desc`.  bad=False: every field gets a value of a mappable class (a 'digest' field stays unset);
    bad=True: exactly one field that has an unmappable class gets such a value (when the descriptor has none, _source gets
    text with a surrogate escape).  focus = (field name, value class)."""
    kwargs = {}
    fields = effective_fields(desc)
    bad_field = None
    if bad:
        cands = [(t, n) for t, n in fields if t in BAD_CLASSES and not (focus and focus[0] == n)]
        if cands:
            bad_field = rng.choice(cands)
    for t, n in fields:
        if focus and focus[0] == n:
            vc = focus[1]
        elif bad_field and bad_field[1] == n:
            vc = rng.choice(BAD_CLASSES[t])
        else:
            good = [c for c in classes_for(t) if c not in BAD_CLASSES.get(t, ())]
            vc = rng.choice(good) if rng.random() < 0.85 else "none"
        if t == "digest" and vc == "none":
            continue  # leave the slot unset (passing None builds an empty digest object, which is refused today)
        kwargs[n] = make_value(rng, t, vc, thorough)
    r = rng.random()
    if bad and not bad_field and not (focus and focus[1] in sum(BAD_CLASSES.values(), ())):
        kwargs["_source"] = "s\udcff"
    elif r < 0.3:
        kwargs["_source"] = rng.choice(["src", "", "/evidence/ünï", "a\x00b"])
    if rng.random() < 0.3:
        kwargs["_classification"] = rng.choice(["TLP:RED", "", "c"])
    if rng.random() < 0.3:
        kwargs["_generated"] = rng.choice(_dt_pool()) if rng.random() < 0.5 else gen.datetime_value(rng, "random")
    return desc.recordType(**kwargs)


def variant_descriptor(rng, desc, kind):
    """A second record type derived from `desc` (what 'Mixed record types' must refuse)."""
    from flow.record import RecordDescriptor

    fields = [(str(t), str(n)) for t, n in desc.get_field_tuples()]
    name = str(desc.name)
    if kind == "other-name" or not fields:
        return RecordDescriptor(name + "/other" if rng.random() < 0.5 else "zz/" + name, fields)
    i = rng.randrange(len(fields))
    t, n = fields[i]
    if kind == "renamed-field":
        fields[i] = (t, n + "_2")
    elif kind == "extra-field":
        fields.append((rng.choice(MAPPED_NO_DIGEST), "extra_f"))
    elif kind == "dropped-field":
        del fields[i]
    elif kind == "same-avro-type":
        # another flow type with the same Avro schema type: the schemas coincide, the descriptors do not
        swap = {"string": "wstring", "wstring": "uri", "uri": "string", "varint": "filesize", "filesize": "unix_file_mode", "unix_file_mode": "varint",
                "uint16": "uint32", "uint32": "uint16"}
        js = [j for j, (tt, _) in enumerate(fields) if tt in swap]
        if not js:
            fields.append(("string", "extra_f"))
        else:
            j = rng.choice(js)
            fields[j] = (swap[fields[j][0]], fields[j][1])
    elif kind == "reordered":
        if len(fields) < 2:
            fields.append(("string", "extra_f"))
        else:
            fields = fields[1:] + fields[:1]
    seen, uniq = set(), []
    for tt, nn in fields:  # keep field names unique whatever the random names were
        while nn in seen:
            nn += "_u"
        seen.add(nn)
        uniq.append((tt, nn))
    return RecordDescriptor(name, uniq)


def make_grouped(rng, desc, n_members, same_name, thorough=False):
    """GroupedRecord whose first member is a record of `desc` (all values mappable); further members come from other
    descriptors over the mapped types that SHARE one or two (type, field) pairs with `desc` - with values of their own - next to
    fields of their own; every member carries distinct _source / _classification / _generated.  The grouped view's rule is
    'the first member prevails' for every shared name.  same_name: the group is named like `desc` (with one member its flat
    descriptor then EQUALS `desc`, so a 'second record type' test does not see it)."""
    from flow.record import GroupedRecord, RecordDescriptor

    base_fields = [(str(t), str(n)) for t, n in desc.get_field_tuples() if str(t) != "digest"]
    members = [make_record(rng, desc, bad=False, thorough=thorough)]
    for i in range(1, n_members):
        fields = [(rng.choice(MAPPED_NO_DIGEST), "g%d_f%d" % (i, j)) for j in range(rng.choice([1, 2, 3]))]
        if base_fields:
            for t, n in rng.sample(base_fields, min(len(base_fields), rng.choice([1, 2]))):
                fields.insert(rng.randint(0, len(fields)), (t, n))
        d = RecordDescriptor(gen.rand_typename(rng), fields)
        for _ in range(4):  # the shared fields should hold values that differ from the first member's
            m = make_record(rng, d, bad=False, thorough=thorough)
            if all(observe.oval(getattr(m, n)) != observe.oval(getattr(members[0], n)) for t, n in fields if (t, n) in base_fields):
                break
        members.append(m)
    for i, m in enumerate(members):
        m._source = "member-%d-source" % i
        m._classification = "CLASS-%d" % i
        m._generated = _dt.datetime(2001 + i, 2, 3, 4, 5, 6, 700 + i, tzinfo=UTC)
    return GroupedRecord(str(desc.name) if same_name else gen.rand_typename(rng), members)


def coincident_pair(rng, name=None):
    """Two DIFFERENT descriptors over mapped types with the same name and the same 32-bit identifier hash.  The hash input is
    name + (fieldname + fieldtype)..., so [(T1, x), (T2, T3 + y)] and [(T3, x + T1), (T2, y)] both give x T1 T3 y T2."""
    from flow.record import RecordDescriptor

    name = name or gen.rand_typename(rng)
    while True:
        t1, t2, t3 = (rng.choice(MAPPED_NO_DIGEST) for _ in range(3))
        x, y = gen.unique_names(rng, 2)
        extra = [(rng.choice(MAPPED_NO_DIGEST), "tail%d" % i) for i in range(rng.choice([0, 0, 1, 3]))]
        fa = [(t1, x), (t2, t3 + y)] + extra
        fb = [(t3, x + t1), (t2, y)] + extra
        if rng.random() < 0.25:  # the shape of workload.coincident_pairs() 'co/three': two fields vs one
            fa, fb = [(t1, x), (t2, y)] + extra, [(t2, x + t1 + y)] + extra
        a, b = RecordDescriptor(name, fa), RecordDescriptor(name, fb)
        if a.identifier == b.identifier and a.get_field_tuples() != b.get_field_tuples():
            return a, b


def same_name_pair(rng):
    """Two descriptors with the same name, different fields and different hashes."""
    from flow.record import RecordDescriptor

    while True:
        a = make_descriptor(rng, digest_p=0.0)
        b = make_descriptor(rng, digest_p=0.0, name=str(a.name))
        if rng.random() < 0.5:  # same field names, other types
            fb = [(rng.choice(MAPPED_NO_DIGEST), str(n)) for _, n in a.get_field_tuples()]
            b = RecordDescriptor(str(a.name), fb)
        if a.get_field_tuples() != b.get_field_tuples() and a.identifier != b.identifier:
            return a, b


VARIANT_KINDS = ("other-name", "renamed-field", "extra-field", "dropped-field", "same-avro-type", "reordered")


def clean_sequence(seed, n_records=None, thorough=False, big=False):
    """One descriptor over the mapped types + a list of records that the Avro mapping must accept (used by C11)."""
    rng = random.Random(seed)
    desc = make_descriptor(rng, digest_p=0.0)
    n = n_records if n_records is not None else rng.choice([1, 2, 3, 5, 8, 13, 21, 40])
    recs = []
    for _ in range(n):
        r = make_record(rng, desc, bad=False, thorough=thorough)
        if record_problem(r) is None:
            recs.append(r)
    return desc, recs


def field_retyped_pair(rng):
    """Two descriptors (different names) sharing FIELD NAMES with different types: a datetime in one, an integer / float type
    in the other - what a reader remembering 'this field name is a datetime' across files would convert."""
    from flow.record import RecordDescriptor

    names = gen.unique_names(rng, 3)
    other = [rng.choice(("varint", "float", "filesize", "unix_file_mode")) for _ in names]
    a = RecordDescriptor(gen.rand_typename(rng), [("datetime", names[0]), ("string", names[1]), (other[2], names[2])])
    b = RecordDescriptor(gen.rand_typename(rng), [(other[0], names[0]), (other[1], names[1]), ("datetime", names[2])])
    return a, b


def field_retyped_records(rng, desc):
    """Records for field_retyped_pair: numeric fields hold values above 2**32 (exactly representable in single precision)."""
    out = []
    for i in range(rng.choice([1, 3, 8])):
        kw = {}
        for t, n in desc.get_field_tuples():
            t, n = str(t), str(n)
            if t == "datetime":
                kw[n] = rng.choice(_dt_pool())
            elif t == "float":
                kw[n] = float(2 ** rng.randint(33, 60))
            elif t == "string":
                kw[n] = "s%d" % i
            else:
                kw[n] = 2**32 + 1 + rng.randint(0, 2**40)
        out.append(desc.recordType(**kw))
    return [r for r in out if record_problem(r) is None]


# ---- reader usage histories ---------------------------------------------------------------------------------------------------
USAGE_PATTERNS = ("peek-then-loop", "islice-batches", "break-then-resume", "exception-then-resume", "two-peeks")


def usage_read(rd, pattern, rng, n_hint):
    """Consume the reader `rd` completely, but not in one plain loop: iterations are abandoned half way and the SAME reader
    is iterated again.  -> every record obtained, in the order obtained."""
    from itertools import islice

    out = []
    k = rng.choice([1, 2, 3, 7]) if n_hint < 50 else rng.choice([1, 7, 39, 100, 333])
    if pattern == "peek-then-loop":
        first = next(iter(rd), None)
        if first is not None:
            out.append(first)
        out.extend(rd)
    elif pattern == "two-peeks":
        for _ in range(2):
            x = next(iter(rd), None)
            if x is not None:
                out.append(x)
        out.extend(rd)
    elif pattern == "islice-batches":
        while True:
            batch = list(islice(rd, k))
            if not batch:
                break
            out.extend(batch)
            if len(out) > 3 * n_hint + 10:
                break  # a reader that starts over on every iteration would never end: the caller sees the surplus
    elif pattern == "break-then-resume":
        for r in rd:
            out.append(r)
            if len(out) == k:
                break
        for r in rd:
            out.append(r)
            if len(out) == 3 * k:
                break
        out.extend(rd)
    else:
        try:
            for r in rd:
                out.append(r)
                if len(out) == k:
                    raise KeyError("handled by the caller")
        except KeyError:
            pass
        out.extend(rd)
    return out
