"""./check <ID> [--tier quick|thorough] [--seed N] [--replay FILE]   (see DESIGN.md section 2)"""
from __future__ import annotations

import argparse
import importlib
import json
import os
import shutil
import subprocess
import sys
import tempfile
import time

REPO = os.environ.get("VERIF_REPO", "/repo")
if os.path.realpath(REPO) != "/repo" or os.environ.get("VERIF_FORCE_PATH"):
    sys.path.insert(0, REPO)  # scratch copy for the mutant self-test; overrides the editable install

from verif import core  # noqa: E402


def load_check(prop):
    return importlib.import_module("verif.checks." + prop.lower())


def shard_main(args):
    mod = load_check(args.prop)
    budget = getattr(mod, "BUDGET_S", {}).get(args.tier, 240 if args.tier == "quick" else 1500)
    ctx = core.Ctx(args.prop, args.tier, args.seed, args.shard, args.nshards, budget_s=budget)
    core.run_cases(mod, ctx)
    s = ctx.summary()
    with open(args.out, "w") as f:
        json.dump(s, f)
    return 0


def run_all_shards(args, mod):
    """Run every shard (in-process when there is only one) and merge."""
    nshards = getattr(mod, "SHARDS", {}).get(args.tier, 1 if args.tier == "quick" else 16)
    budget = getattr(mod, "BUDGET_S", {}).get(args.tier, 240 if args.tier == "quick" else 1500)
    if nshards <= 1:
        ctx = core.Ctx(args.prop, args.tier, args.seed, 0, 1, budget_s=budget)
        core.run_cases(mod, ctx)
        return core.merge_summaries([ctx.summary()]), []
    tmp = tempfile.mkdtemp(prefix="frv-%s-" % args.prop, dir=os.environ.get("VERIF_TMP", "/var/tmp"))
    procs = []
    broken = []
    try:
        for i in range(nshards):
            out = os.path.join(tmp, "shard%d.json" % i)
            cmd = [sys.executable, "-W", "ignore", "-m", "verif.cli", args.prop, "--tier", args.tier, "--seed",
                   str(args.seed), "--shard", str(i), "--nshards", str(nshards), "--out", out]
            log = open(os.path.join(tmp, "shard%d.log" % i), "w")
            # shard scratch space lives under the parent's directory, so a shard killed by the watchdog (which never
            # runs its teardown) cannot leave anything behind
            env = dict(os.environ, VERIF_TMP=tmp)
            procs.append((i, out, log, subprocess.Popen(cmd, stdout=log, stderr=subprocess.STDOUT, env=env)))
        summaries = []
        deadline = time.monotonic() + budget + 120
        for i, out, log, p in procs:
            try:
                p.wait(timeout=max(1, deadline - time.monotonic()))
            except subprocess.TimeoutExpired:
                p.kill()
                p.wait()
                broken.append("shard %d exceeded the wall-clock watchdog" % i)
                continue
            finally:
                log.close()
            if p.returncode != 0 or not os.path.exists(out):
                tail = open(os.path.join(tmp, "shard%d.log" % i)).read()[-2000:]
                broken.append("shard %d exited with %s: %s" % (i, p.returncode, tail))
                continue
            with open(out) as f:
                summaries.append(json.load(f))
        return core.merge_summaries(summaries), broken
    finally:
        shutil.rmtree(tmp, ignore_errors=True)


def decide_and_report(args, mod, merged, broken, wall):
    known = core.load_known_findings(args.prop)
    known_hits, unlisted = [], []
    for ident, ent in sorted(merged["violations"].items()):
        if ent["key"] and ent["key"] in known:
            known_hits.append(ent)
        else:
            unlisted.append(ent)

    for ent in known_hits:
        print("KNOWN-FINDING: property=%s %s: %s (%d cases)" % (args.prop, ent["key"], known[ent["key"]]["what"], ent["count"]))

    os.makedirs(core.REPLAY_DIR, exist_ok=True)
    for ent in unlisted[:20]:
        w = ent["witnesses"][0] if ent["witnesses"] else {}
        name = "%s-%016x.json" % (args.prop, core.fp64(ent["key"], ent["msg"]))
        path = os.path.join(core.REPLAY_DIR, name)
        with open(path, "w") as f:
            json.dump({"property": args.prop, "tier": args.tier, "seed": args.seed, "key": ent["key"], "msg": ent["msg"],
                       "count": ent["count"], "case": w.get("case"), "detail": w.get("detail"),
                       "more_witnesses": ent["witnesses"][1:]}, f, indent=1)
        print("--- witness (%s, %d cases): %s" % (ent["key"] or "unclassified", ent["count"], ent["msg"]))
        print(json.dumps(w.get("detail"), indent=1, default=str)[:3000])
        print("VIOLATION property=%s replay=%s" % (args.prop, path))

    reasons = list(merged["inconclusive"]) + broken
    if hasattr(mod, "post_merge"):
        # requirements that only make sense over all shards together (e.g. the coverage matrix is completely hit)
        reasons += list(mod.post_merge(merged, args) or [])
    if merged["timed_out"]:
        merged["notes"]["watchdog_fired"] = True
        if getattr(mod, "TIMEOUT_IS_INCONCLUSIVE", False):
            reasons.append("wall-clock watchdog fired before the workload finished")
    n_nontrivial = len(merged["fingerprints"])
    if merged["evaluations"] < 1 or n_nontrivial < 2:
        reasons.append("too few non-trivial cases (%d evaluations, %d distinct)" % (merged["evaluations"], n_nontrivial))

    coverage = {
        "evaluations": int(merged["evaluations"]),
        "distinct_nontrivial": int(n_nontrivial),
        "rule": getattr(mod, "RULE", ""),
        "samples": merged["samples"] or ["<none>"],
        "events": dict(sorted(merged["events"].items())),
        "cells": dict(sorted(merged["cells"].items())),
        "cells_hit": len(merged["cells"]),
        "reach": dict(sorted(merged["reach"].items())),
        "known_finding_cases": {e["key"]: e["count"] for e in known_hits},
        "violation_cases": {(e["key"] or e["msg"][:60]): e["count"] for e in unlisted},
        "inconclusive_reasons": reasons,
        "shard_wall_s": merged.get("shard_wall_s"),
        "tested_tree": REPO,
    }
    if merged["exhaustive"] is not None:
        coverage["exhaustive"] = bool(merged["exhaustive"])
    coverage.update(merged["notes"])
    verdict = "violated" if unlisted else ("inconclusive" if reasons else "held")
    coverage["verdict"] = verdict
    evidence = {
        "property_id": args.prop,
        "tier": args.tier,
        "seed": int(args.seed),
        "level": getattr(mod, "LEVEL", "exploration"),
        "coverage": coverage,
        "assumptions": list(getattr(mod, "ASSUMPTIONS", [])),
        "wall_s": round(wall, 2),
        "violations": len(unlisted),
    }
    if not args.no_evidence:
        os.makedirs(core.EVIDENCE_DIR, exist_ok=True)
        with open(os.path.join(core.EVIDENCE_DIR, args.prop + ".json"), "w") as f:
            json.dump(evidence, f, indent=1, sort_keys=False, default=str)
            f.write("\n")

    print("%s %s tier=%s seed=%d: %s; %d evaluations, %d distinct non-trivial, %d known-finding mechanisms, %d unlisted violations, %.1fs"
          % (args.prop, getattr(mod, "TITLE", ""), args.tier, args.seed, verdict, merged["evaluations"], n_nontrivial,
             len(known_hits), len(unlisted), wall))
    if unlisted:
        return 1
    if reasons:
        for r in reasons:
            print("INCONCLUSIVE property=%s %s" % (args.prop, r))
        return 2
    return 0


def replay_main(args):
    mod = load_check(args.prop)
    with open(args.replay) as f:
        rep = json.load(f)
    ctx = core.Ctx(args.prop, rep.get("tier", "quick"), rep.get("seed", 0), 0, 1, replaying=True)
    if hasattr(mod, "setup"):
        mod.setup(ctx)
    ctx.current_case = rep["case"]
    try:
        mod.execute(ctx, rep["case"])
    finally:
        if hasattr(mod, "teardown"):
            mod.teardown(ctx)
    known = core.load_known_findings(args.prop)
    rc = 0
    for ident, ent in ctx.violations.items():
        tag = "KNOWN-FINDING" if ent["key"] in known else "VIOLATION"
        print("%s %s: %s" % (tag, ent["key"] or "unclassified", ent["msg"]))
        print(json.dumps(ent["witnesses"][0]["detail"], indent=1, default=str)[:6000])
        if tag == "VIOLATION":
            print("VIOLATION property=%s replay=%s" % (args.prop, os.path.abspath(args.replay)))
            rc = 1
    if not ctx.violations:
        print("replay: the case holds on this tree")
    return rc


def main(argv=None):
    ap = argparse.ArgumentParser(prog="check")
    ap.add_argument("prop")
    ap.add_argument("--tier", default=os.environ.get("VERIF_TIER") or "quick", choices=("quick", "thorough"))
    ap.add_argument("--seed", type=int, default=int(os.environ.get("VERIF_SEED") or 0))
    ap.add_argument("--replay")
    ap.add_argument("--shard", type=int)
    ap.add_argument("--nshards", type=int, default=1)
    ap.add_argument("--out")
    ap.add_argument("--no-evidence", action="store_true", default=bool(os.environ.get("VERIF_NO_EVIDENCE")))
    args = ap.parse_args(argv)
    args.prop = args.prop.upper()
    if args.replay:
        return replay_main(args)
    if args.shard is not None:
        return shard_main(args)
    t0 = time.monotonic()
    mod = load_check(args.prop)
    merged, broken = run_all_shards(args, mod)
    return decide_and_report(args, mod, merged, broken, time.monotonic() - t0)


if __name__ == "__main__":
    sys.exit(main())
