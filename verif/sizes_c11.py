"""Size-boundary sources and copy pipelines for C11 (helper module of verif/checks/c11.py):

* frame-size  a single record whose serialized frame (record stream) / field payload (Avro) is just below, at, above
              2**16, 2**20, 2**24 bytes, between two small records, through every codec and route
* total-size  many small records + one filler so that the UNCOMPRESSED file is exactly T-1 / T / T+1 bytes for T in
              multiples of io.DEFAULT_BUFFER_SIZE, 2**16, 2**17, 2**20; the same records through every codec
* merge       copy pipelines reader -> writer with TWO sources holding the same record type (each source defines the type
              itself) and the descriptor re-created equal in between, into one output per codec x container
"""
from __future__ import annotations

import hashlib
import io
import math
import os
import random
import struct

from . import observe

FRAME_TARGETS_SMALL = (2**16 - 1, 2**16, 2**16 + 1, 2**20 - 1, 2**20, 2**20 + 1)
FRAME_TARGETS_16M = (2**24 - 4096, 2**24 - 1, 2**24, 2**24 + 58)
TOTAL_TARGETS = (io.DEFAULT_BUFFER_SIZE, 2 * io.DEFAULT_BUFFER_SIZE, 3 * io.DEFAULT_BUFFER_SIZE, 2**16, 2**17, 2**20)
ROUTES = ("ext", "neutral", "buffered", "bytesio", "raw")


def _c11():
    from .checks import c11

    return c11


def _digest(v):
    if v is None:
        return None
    b = bytes(v) if isinstance(v, (bytes, bytearray)) else str.__str__(v).encode("utf-8", "surrogateescape")
    return [len(b), hashlib.sha256(b).hexdigest()]


def _frames(data):
    """Lengths of the frames of a plain record stream (4-byte big-endian prefix each)."""
    out, pos = [], 0
    while pos + 4 <= len(data):
        (n,) = struct.unpack(">I", data[pos:pos + 4])
        out.append(n)
        pos += 4 + n
    return out


def _payload(kind, n, salt):
    unit = (b"%08d-" % salt) + bytes(range(32, 127))
    b = (unit * (n // len(unit) + 1))[:n]
    return b if kind == "bytes" else b.decode("ascii")


def sized_record(desc, kind, target, salt):
    """A record of `desc` (fields: payload, n) whose record-stream frame is exactly `target` bytes long."""
    from flow.record import RecordStreamWriter

    p = max(1, target - 120)
    for _ in range(6):
        rec = desc.recordType(payload=_payload(kind, p, salt), n=salt)
        buf = io.BytesIO()
        w = RecordStreamWriter(buf)
        w.write(rec)
        w.flush()
        frames = _frames(buf.getvalue())
        w.fp = None
        got = frames[-1]
        if got == target:
            return rec, got
        p += target - got
    return rec, got


def _read_routes(ctx, c, container, codec, path, url, raw, routes):
    from flow.record import RecordReader

    for route in routes:
        if route == "ext":
            yield route, c.drain(lambda: RecordReader(url))
        elif route == "neutral":
            import shutil

            neutral = c.tmp_name(ctx, "neutral", ".bin")
            shutil.copyfile(path, neutral)
            try:
                yield route, c.drain(lambda: RecordReader(neutral if container == "stream" else "avro://" + neutral))
            finally:
                c._rm(neutral)
        elif route == "buffered":
            with open(path, "rb") as f:
                yield route, c.drain(lambda: RecordReader(fileobj=f))
        elif route == "bytesio":
            yield route, c.drain(lambda: RecordReader(fileobj=io.BytesIO(raw)))
        else:
            yield route, c.drain(lambda: RecordReader(fileobj=c.MinimalRaw(raw)))


def execute_frame_size(ctx, case):
    from flow.record import RecordDescriptor, RecordWriter

    c = _c11()
    codec, container, kind, target = case["codec"], case["container"], case["field"], case["target"]
    desc = RecordDescriptor("size/%s" % kind, [(kind, "payload"), ("varint", "n")])
    ctx.ev()
    if container == "stream":
        big, got_len = sized_record(desc, kind, target, case["s"] % 10**8)
    else:
        big, got_len = desc.recordType(payload=_payload(kind, target, case["s"] % 10**8), n=case["s"] % 10**8), target
    records = [desc.recordType(payload=_payload(kind, 3, 1), n=1), big, desc.recordType(payload=_payload(kind, 5, 2), n=2)]
    want = [[int(r.n), _digest(r.payload)] for r in records]
    path, url = c.cell_path(ctx, codec, container, "fs")
    detail = {"codec": codec, "container": container, "field": kind, "target": target, "frame_or_payload_bytes": got_len}
    what = "a record of about 2**%d bytes" % round(math.log2(target))
    try:
        w = RecordWriter(url)
        try:
            for r in records:
                w.write(r)
        finally:
            w.flush()
            w.close()
    except Exception as e:  # noqa: BLE001
        ctx.violation(None, "%s: writing raised %s" % (what, type(e).__name__), detail=dict(detail, exception=repr(e)[:300]))
        c._rm(path)
        return
    with open(path, "rb") as f:
        raw = f.read()
    detail["file_bytes"] = len(raw)
    if container == "stream" and got_len != target:
        ctx.event("frame_size_not_exact")
    ok = True
    if codec != "none":
        try:
            payload = c.independent_decompress(codec, raw)
            if container == "stream" and target not in _frames(payload) and got_len == target:
                ctx.violation(None, "%s: the written stream does not contain a frame of the intended length" % what, detail=detail)
            ctx.event("independent_decompress_ok:" + codec)
        except Exception as e:  # noqa: BLE001
            ctx.violation(None, "%s: an independent decompressor rejects the file" % what, detail=dict(detail, exception=repr(e)[:300]))
            ok = False
    routes = case.get("routes") or ROUTES
    for route, (rd, got, err) in _read_routes(ctx, c, container, codec, path, url, raw, routes):
        d = dict(detail, naming=route)
        ctx.event("frame_size_reads:" + route)
        if err is not None:
            ctx.violation(None, "%s via %s: reading raised %s" % (what, route, type(err).__name__),
                          detail=dict(d, exception=repr(err)[:300], records_before_error=len(got)))
            ok = False
            continue
        if not c.reader_class_ok(rd, container):
            ctx.violation(None, "%s via %s: RecordReader returned %s" % (what, route, type(rd).__name__), detail=d)
            ok = False
        have = []
        for r in got:
            try:
                have.append([int(r.n), _digest(r.payload)])
            except Exception as e:  # noqa: BLE001
                have.append(["?", repr(e)[:80]])
        if have != want or [observe.desc_obs(r._desc) for r in got] != [observe.desc_obs(desc)] * len(got):
            ctx.violation(None, "%s via %s: the records read differ from those written" % (what, route), detail=dict(d, written=want, read=have[:5]))
            ok = False
        ctx.event("records_read", len(got))
    c._rm(path)
    if ok:
        ctx.cell("frame-size", codec, container, kind, target)
    ctx.nontrivial("frame-size", codec, container, kind, target)
    ctx.sample({"case": case, "file_bytes": len(raw), "frame": got_len}, kind="frame-size:%d" % target.bit_length())


def execute_total_size(ctx, case):
    """Uncompressed plain stream of EXACTLY target+delta bytes made of many small records; the same records through `codec`."""
    from flow.record import RecordDescriptor, RecordStreamWriter, RecordWriter

    c = _c11()
    codec, target, delta = case["codec"], case["target"], case["delta"]
    rng = random.Random(case["s"])
    desc = RecordDescriptor("size/total", [("string", "t"), ("varint", "k")])
    ctx.ev()
    goal = target + delta

    def stream_bytes(recs):
        buf = io.BytesIO()
        w = RecordStreamWriter(buf)
        for r in recs:
            w.write(r)
        w.flush()
        data = buf.getvalue()
        w.fp = None
        return data

    r0 = desc.recordType(t="first", k=0)
    base = len(stream_bytes([r0]))

    def frame_len(r):
        return len(stream_bytes([r0, r])) - base

    recs, total = [r0], base
    longest = 30 if goal < 2**17 else 1500
    while True:
        r = desc.recordType(t="v%d-%s" % (len(recs), "y" * rng.randint(0, longest)), k=len(recs))
        f = frame_len(r)
        if total + f > goal - 200:
            break
        recs.append(r)
        total += f
    fill, exact, cand = max(0, goal - total - 60), False, recs
    for _ in range(8):
        filler = desc.recordType(t="f" * max(0, fill), k=-1)
        n = total + frame_len(filler)
        if n == goal:
            cand, exact = recs + [filler], True
            break
        fill += goal - n
    if not exact:
        cand = recs + [desc.recordType(t="f" * max(0, fill), k=-1)]
    exact = exact and len(stream_bytes(cand)) == goal
    records = cand
    before = [observe.normalise(observe.obs(r)) for r in records]
    path, url = c.cell_path(ctx, codec, "stream", "ts")
    w = RecordWriter(url)
    try:
        for r in records:
            w.write(r)
    finally:
        w.flush()
        w.close()
    with open(path, "rb") as f:
        raw = f.read()
    detail = {"codec": codec, "uncompressed_target": goal, "exact": exact, "records": len(records), "file_bytes": len(raw)}
    ctx.event("total_size_exact" if exact else "total_size_not_exact")
    if codec == "none" and exact and len(raw) != goal:
        ctx.event("total_size_plain_file_differs_from_model")
    ok = True
    what = "file whose uncompressed size is a buffer-size boundary %+d" % delta
    for route, (rd, got, err) in _read_routes(ctx, c, "stream", codec, path, url, raw, ROUTES):
        d = dict(detail, naming=route)
        if err is not None:
            ctx.violation(None, "%s via %s: reading raised %s" % (what, route, type(err).__name__), detail=dict(d, exception=repr(err)[:300], records_before_error=len(got)))
            ok = False
        elif not c.compare(ctx, "stream", records, before, got, "%s via %s" % (what, route), d):
            ok = False
        ctx.event("total_size_reads")
    c._rm(path)
    if ok:
        ctx.cell("total-size", codec, target, delta)
    ctx.nontrivial("total-size", codec, target, delta)


def execute_merge(ctx, case):
    """reader -> writer copy pipeline with two sources of ONE record type (each source defines it itself) and an equal
    descriptor re-created in between; every record of both sources must be in the output."""
    import gc

    from flow.record import RecordDescriptor, RecordReader, RecordWriter

    c = _c11()
    codec, container = case["codec"], case["container"]
    rng = random.Random(case["s"])
    name = "merge/common%x" % (case["s"] & 0xFFFF)
    fields = [("string", "x"), ("varint", "k"), ("datetime", "ts")]
    ctx.ev()
    sources, expected = [], []
    for i in range(2):
        d = RecordDescriptor(name, list(fields))
        src = c.tmp_name(ctx, "merge-src", ".records" + rng.choice(["", ".gz", ".zst"]))
        w = RecordWriter(src)
        try:
            for j in range(rng.choice([1, 3, 20])):
                w.write(d.recordType(x="s%d-%d" % (i, j), k=j, ts="2020-01-02T03:04:05.%06dZ" % (i * 1000 + j)))
                expected.append(("s%d-%d" % (i, j), j))
        finally:
            w.flush()
            w.close()
        sources.append(src)
        del d
    gc.collect()
    path, url = c.cell_path(ctx, codec, container, "merged")
    detail = {"codec": codec, "container": container, "sources": [os.path.basename(s_) for s_ in sources], "records": len(expected)}
    what = "copy pipeline with two sources of one record type"
    try:
        out = RecordWriter(url)
        try:
            for i, src in enumerate(sources):
                rd = RecordReader(src)
                for r in rd:
                    out.write(r)
                rd.close()
                if i == 0:
                    # the same type defined once more by the program itself: an equal, not identical descriptor
                    d2 = RecordDescriptor(name, [(t, n) for t, n in fields])
                    out.write(d2.recordType(x="mid", k=-1, ts="2021-01-01T00:00:00Z"))
                    expected.insert(len([e for e in expected if e[0].startswith("s0-")]), ("mid", -1))
        finally:
            out.flush()
            out.close()
    except Exception as e:  # noqa: BLE001
        ctx.violation(None, "%s: writing raised %s" % (what, type(e).__name__), detail=dict(detail, exception=repr(e)[:300]))
        for s_ in sources + [path]:
            c._rm(s_)
        return
    rd, got, err = c.drain(lambda: RecordReader(url))
    have = [(str.__str__(r.x), int(r.k)) for r in got] if err is None else None
    if err is not None:
        ctx.violation(None, "%s: reading the output raised %s" % (what, type(err).__name__), detail=dict(detail, exception=repr(err)[:300]))
    elif have != expected:
        ctx.violation(None, "%s: the output does not hold every record of both sources in order" % what, detail=dict(detail, read=len(have), first=have[:4]))
    else:
        ctx.cell("merge", codec, container)
    for s_ in sources + [path]:
        c._rm(s_)
    ctx.event("merge_pipelines")
    ctx.nontrivial("merge", codec, container, case["s"])
