"""Independent msgpack subset codec that keeps the wire kind visible (shares no code with msgpack / flow.record).

Decoded model:  None, bool, int, float (F32 marks float32), Str(raw utf-8 bytes), Bin(bytes), list, Map(list of pairs),
Ext(code, data).
"""
from __future__ import annotations

import struct


class MsgpackError(ValueError):
    pass


class Truncated(MsgpackError):
    pass


class Ext:
    __slots__ = ("code", "data")

    def __init__(self, code, data):
        self.code = code
        self.data = bytes(data)

    def __repr__(self):
        return "Ext(%d,%r)" % (self.code, self.data)

    def __eq__(self, o):
        return isinstance(o, Ext) and (self.code, self.data) == (o.code, o.data)

    def __hash__(self):
        return hash((self.code, self.data))


class Str:
    """msgpack str family; keeps the raw bytes (may be invalid utf-8 = surrogate-escaped text)."""

    __slots__ = ("raw",)

    def __init__(self, raw):
        self.raw = bytes(raw)

    @classmethod
    def of(cls, text: str):
        return cls(text.encode("utf-8", "surrogateescape"))

    @property
    def text(self):
        return self.raw.decode("utf-8", "surrogateescape")

    def __repr__(self):
        return "Str(%r)" % (self.raw,)

    def __eq__(self, o):
        return isinstance(o, Str) and self.raw == o.raw

    def __hash__(self):
        return hash(self.raw)


class Bin(bytes):
    def __repr__(self):
        return "Bin(%s)" % bytes.__repr__(self)


class F32(float):
    pass


class Map(list):
    """list of (key, value) pairs, order preserved."""

    def get(self, key, default=None):
        for k, v in self:
            if k == key:
                return v
        return default


# ---- decoder --------------------------------------------------------------------------------------
def _need(b, i, n):
    if i + n > len(b):
        raise Truncated("need %d bytes at %d, have %d" % (n, i, len(b) - i))


def _uint(b, i, w):
    _need(b, i, w)
    return int.from_bytes(b[i : i + w], "big"), i + w


def unpack_at(b, i=0, depth=0):
    if depth > 200:
        raise MsgpackError("nesting too deep")
    _need(b, i, 1)
    t = b[i]
    i += 1
    if t <= 0x7F:
        return t, i
    if t >= 0xE0:
        return t - 256, i
    if 0x80 <= t <= 0x8F:
        return _map(b, i, t & 0xF, depth)
    if 0x90 <= t <= 0x9F:
        return _arr(b, i, t & 0xF, depth)
    if 0xA0 <= t <= 0xBF:
        n = t & 0x1F
        _need(b, i, n)
        return Str(b[i : i + n]), i + n
    if t == 0xC0:
        return None, i
    if t == 0xC1:
        raise MsgpackError("reserved type byte 0xc1")
    if t == 0xC2:
        return False, i
    if t == 0xC3:
        return True, i
    if t in (0xC4, 0xC5, 0xC6):
        n, i = _uint(b, i, 1 << (t - 0xC4))
        _need(b, i, n)
        return Bin(b[i : i + n]), i + n
    if t in (0xC7, 0xC8, 0xC9):
        n, i = _uint(b, i, 1 << (t - 0xC7))
        _need(b, i, 1 + n)
        code = struct.unpack("b", b[i : i + 1])[0]
        return Ext(code, b[i + 1 : i + 1 + n]), i + 1 + n
    if t == 0xCA:
        _need(b, i, 4)
        return F32(struct.unpack(">f", b[i : i + 4])[0]), i + 4
    if t == 0xCB:
        _need(b, i, 8)
        return struct.unpack(">d", b[i : i + 8])[0], i + 8
    if t in (0xCC, 0xCD, 0xCE, 0xCF):
        w = 1 << (t - 0xCC)
        return _uint(b, i, w)
    if t in (0xD0, 0xD1, 0xD2, 0xD3):
        w = 1 << (t - 0xD0)
        _need(b, i, w)
        return int.from_bytes(b[i : i + w], "big", signed=True), i + w
    if t in (0xD4, 0xD5, 0xD6, 0xD7, 0xD8):
        n = 1 << (t - 0xD4)
        _need(b, i, 1 + n)
        code = struct.unpack("b", b[i : i + 1])[0]
        return Ext(code, b[i + 1 : i + 1 + n]), i + 1 + n
    if t in (0xD9, 0xDA, 0xDB):
        n, i = _uint(b, i, 1 << (t - 0xD9))
        _need(b, i, n)
        return Str(b[i : i + n]), i + n
    if t in (0xDC, 0xDD):
        n, i = _uint(b, i, 2 << (t - 0xDC))
        return _arr(b, i, n, depth)
    if t in (0xDE, 0xDF):
        n, i = _uint(b, i, 2 << (t - 0xDE))
        return _map(b, i, n, depth)
    raise MsgpackError("bad type byte %#x" % t)


def _arr(b, i, n, depth):
    out = []
    for _ in range(n):
        v, i = unpack_at(b, i, depth + 1)
        out.append(v)
    return out, i


def _map(b, i, n, depth):
    out = Map()
    for _ in range(n):
        k, i = unpack_at(b, i, depth + 1)
        v, i = unpack_at(b, i, depth + 1)
        out.append((k, v))
    return out, i


def unpack_one(b):
    """Exactly one value occupying all of b."""
    v, i = unpack_at(b, 0)
    if i != len(b):
        raise MsgpackError("%d trailing bytes after the value" % (len(b) - i))
    return v


# ---- encoder --------------------------------------------------------------------------------------
class Packer:
    """Encoder. With rng and nonminimal=True a wider (still valid) length / integer class is chosen at random."""

    def __init__(self, rng=None, nonminimal=False):
        self.rng = rng
        self.nonminimal = nonminimal and rng is not None

    def _widen(self, k, kmax):
        if self.nonminimal and k < kmax and self.rng.random() < 0.5:
            return self.rng.randint(k, kmax)
        return k

    def pack(self, v) -> bytes:
        if v is None:
            return b"\xc0"
        if v is True:
            return b"\xc3"
        if v is False:
            return b"\xc2"
        if isinstance(v, int):
            return self._int(v)
        if isinstance(v, F32):
            return b"\xca" + struct.pack(">f", v)
        if isinstance(v, float):
            return b"\xcb" + struct.pack(">d", v)
        if isinstance(v, Str):
            return self._str(v.raw)
        if isinstance(v, str):
            return self._str(v.encode("utf-8", "surrogateescape"))
        if isinstance(v, (Bin, bytes, bytearray)):
            return self._bin(bytes(v))
        if isinstance(v, Ext):
            return self._ext(v.code, v.data)
        if isinstance(v, Map):
            return self._maphdr(len(v)) + b"".join(self.pack(k) + self.pack(x) for k, x in v)
        if isinstance(v, dict):
            return self._maphdr(len(v)) + b"".join(self.pack(k) + self.pack(x) for k, x in v.items())
        if isinstance(v, (list, tuple)):
            return self._arrhdr(len(v)) + b"".join(self.pack(x) for x in v)
        raise MsgpackError("cannot pack %r" % type(v))

    def _int(self, v):
        if v >= 0:
            k = 0 if v <= 0x7F else 1 if v <= 0xFF else 2 if v <= 0xFFFF else 3 if v <= 0xFFFFFFFF else 4
            if v > 0xFFFFFFFFFFFFFFFF:
                raise OverflowError(v)
            k = self._widen(k, 4)
            if k == 0:
                return bytes([v])
            return bytes([0xCC + k - 1]) + v.to_bytes(1 << (k - 1), "big")
        k = 0 if v >= -32 else 1 if v >= -0x80 else 2 if v >= -0x8000 else 3 if v >= -0x80000000 else 4
        if v < -0x8000000000000000:
            raise OverflowError(v)
        k = self._widen(k, 4)
        if k == 0:
            return struct.pack("b", v)
        return bytes([0xD0 + k - 1]) + v.to_bytes(1 << (k - 1), "big", signed=True)

    def _str(self, raw):
        n = len(raw)
        k = 0 if n <= 31 else 1 if n <= 0xFF else 2 if n <= 0xFFFF else 3
        k = self._widen(k, 3)
        if k == 0:
            return bytes([0xA0 | n]) + raw
        return bytes([0xD9 + k - 1]) + n.to_bytes(1 << (k - 1), "big") + raw

    def _bin(self, raw):
        n = len(raw)
        k = 1 if n <= 0xFF else 2 if n <= 0xFFFF else 3
        k = self._widen(k, 3)
        return bytes([0xC4 + k - 1]) + n.to_bytes(1 << (k - 1), "big") + raw

    def _ext(self, code, data):
        n = len(data)
        c = struct.pack("b", code)
        fix = {1: 0xD4, 2: 0xD5, 4: 0xD6, 8: 0xD7, 16: 0xD8}
        if n in fix and not (self.nonminimal and self.rng.random() < 0.5):
            return bytes([fix[n]]) + c + data
        k = 1 if n <= 0xFF else 2 if n <= 0xFFFF else 3
        k = self._widen(k, 3)
        return bytes([0xC7 + k - 1]) + n.to_bytes(1 << (k - 1), "big") + c + data

    def _arrhdr(self, n):
        k = 0 if n <= 15 else 1 if n <= 0xFFFF else 2
        k = self._widen(k, 2)
        if k == 0:
            return bytes([0x90 | n])
        return bytes([0xDC + k - 1]) + n.to_bytes(2 << (k - 1), "big")

    def _maphdr(self, n):
        k = 0 if n <= 15 else 1 if n <= 0xFFFF else 2
        k = self._widen(k, 2)
        if k == 0:
            return bytes([0x80 | n])
        return bytes([0xDE + k - 1]) + n.to_bytes(2 << (k - 1), "big")


def pack(v) -> bytes:
    return Packer().pack(v)
