"""Independent implementation of the published record-stream format (DESIGN 3.3).

Decodes a byte stream into frame events and record observations (the vocabulary of observe.obs) and encodes record
observations back into a stream.  Shares no code with flow.record or the msgpack package; uses only struct, hashlib,
ipaddress and datetime from the standard library.
"""
from __future__ import annotations

import datetime as _dt
import hashlib
import ipaddress as _ip
import struct

from . import refmsgpack as mp
from .observe import f64hex, odt

MAGIC = b"RECORDSTREAM\n"
HEADER_FRAME = struct.pack(">I", 15) + b"\xc4\x0d" + MAGIC
EXT = 14
T_RECORD, T_DESC, T_FIELDTYPE, T_DATETIME, T_VARINT, T_GROUPED = 1, 2, 3, 0x10, 0x11, 0x12
RESERVED = [["string", "_source"], ["string", "_classification"], ["datetime", "_generated"], ["varint", "_version"]]
RESERVED_NAMES = [n for _, n in RESERVED]

INT_TYPES = {"varint": "varint", "filesize": "filesize", "unix_file_mode": "unix_file_mode"}
UINT_TYPES = {"uint16": "uint16", "uint32": "uint32", "net.tcp.Port": "port", "net.udp.Port": "port"}
STR_TYPES = {"string": "string", "wstring": "string", "uri": "uri"}
IP_TYPES = ("net.ipaddress", "net.IPAddress")
NET_TYPES = ("net.ipnetwork", "net.IPNetwork")


class FormatError(ValueError):
    """The byte stream is not a valid instance of the record-stream format."""


def descriptor_hash(name, fields) -> int:
    data = name + "".join(n + t for t, n in fields)
    return int.from_bytes(hashlib.sha256(data.encode("utf-8", "surrogateescape")).digest()[:4], "big")


# ---- framing --------------------------------------------------------------------------------------
def split_frames(data: bytes):
    """-> (frames [(start, end, body)], leftover_offset).  Frames that are completely present, in order."""
    frames = []
    i = 0
    n = len(data)
    while True:
        if i + 4 > n:
            break
        size = struct.unpack(">I", data[i : i + 4])[0]
        if i + 4 + size > n:
            break
        frames.append((i, i + 4 + size, data[i + 4 : i + 4 + size]))
        i += 4 + size
    return frames, i


# ---- value decoding -------------------------------------------------------------------------------
def _text(w, what):
    if isinstance(w, mp.Str):
        return w.text
    if isinstance(w, mp.Bin):  # very old writers typed text as raw bytes
        return bytes(w).decode("utf-8", "surrogateescape")
    raise FormatError("%s: expected text, got %r" % (what, w))


def _intval(w, what, dec):
    if isinstance(w, bool) or not isinstance(w, int):
        w = dec.unext(w)
        if isinstance(w, bool) or not isinstance(w, int):
            raise FormatError("%s: expected integer, got %r" % (what, w))
    return w


def _parse_iso(s):
    try:
        return _dt.datetime.fromisoformat(s)
    except ValueError as e:
        raise FormatError("bad timestamp text %r: %s" % (s, e))


class Decoder:
    def __init__(self):
        self.descs = {}  # identifier key -> [name, fields]
        self.events = []
        self.records = []  # observations of top-level records, in order
        self.frame_kinds = []  # per frame: "HDR" | "DESC" | "REC" | "GREC"
        self.nested_ids = None

    # -- ext envelope
    def unext(self, w):
        """Resolve a nested ext-14 value into its neutral form (timestamp / big integer / record observation)."""
        if not isinstance(w, mp.Ext):
            return w
        if w.code != EXT:
            raise FormatError("extension type %d is not part of the format" % w.code)
        inner = mp.unpack_one(w.data)
        if not (isinstance(inner, list) and len(inner) == 2 and isinstance(inner[0], int)):
            raise FormatError("ext payload is not [sub-type, payload]: %r" % (inner,))
        sub, payload = inner
        if sub == T_DATETIME:
            return self._datetime(payload)
        if sub == T_VARINT:
            if not (isinstance(payload, list) and len(payload) == 2 and isinstance(payload[1], (mp.Bin, mp.Str))):
                raise FormatError("bad big integer payload %r" % (payload,))
            raw = bytes(payload[1]) if isinstance(payload[1], mp.Bin) else payload[1].raw
            v = int.from_bytes(raw, "big")
            return -v if payload[0] else v
        if sub == T_RECORD:
            return self._record(payload)
        if sub == T_GROUPED:
            return self._grouped(payload)
        raise FormatError("ext sub-type %#x not allowed here" % sub)

    def _datetime(self, payload):
        if not isinstance(payload, list):
            raise FormatError("bad timestamp payload %r" % (payload,))
        if len(payload) == 1:
            return odt(_parse_iso(_text(payload[0], "timestamp")))
        if len(payload) == 7 and all(isinstance(x, int) and not isinstance(x, bool) for x in payload):
            y, m, d, h, mi, s, us = payload
            try:
                _dt.datetime(y, m, d, h, mi, s, us)
            except ValueError as e:
                raise FormatError("bad timestamp tuple %r: %s" % (payload, e))
            return ["dt", y, m, d, h, mi, s, us, 0]
        raise FormatError("bad timestamp payload %r" % (payload,))

    # -- identifiers
    def _ident_key(self, w):
        if isinstance(w, list) and len(w) == 2 and isinstance(w[1], int):
            return (_text(w[0], "identifier name"), w[1])
        if isinstance(w, (mp.Str, mp.Bin)):
            return _text(w, "identifier")
        raise FormatError("bad descriptor identifier %r" % (w,))

    def _lookup(self, key):
        d = self.descs.get(key)
        if d is None:
            raise FormatError("record refers to descriptor %r that was not defined earlier in the stream" % (key,))
        return d

    # -- records
    def _record(self, payload):
        if not (isinstance(payload, list) and len(payload) == 2 and isinstance(payload[1], list)):
            raise FormatError("bad record payload %r" % (payload,))
        key = self._ident_key(payload[0])
        name, fields = self._lookup(key)
        if self.nested_ids is not None:
            self.nested_ids.append(key)
        return self._record_obs(name, fields, payload[1])

    def _record_obs(self, name, fields, values):
        # a definition may declare one field name more than once: the record then has ONE slot of that name, at the
        # position of the first declaration and of the type of the last one
        eff = {}
        for t, n in fields:
            eff[n] = t  # dict keeps the first position, takes the last type
        allf = [[t, n] for n, t in eff.items()] + RESERVED
        values = list(values)
        expected = len(allf)
        if len(values) > expected:
            # newer writers: extra reserved fields sit between _generated and _version
            values = values[: expected - 1] + [values[-1]]
        slots = []
        for idx, (t, n) in enumerate(allf):
            if idx < len(values):
                slots.append([n, self.value(t, values[idx], "%s.%s" % (name, n))])
            else:
                slots.append([n, self.value(t, None, "%s.%s" % (name, n))])
        # a record without version information is read as the current version
        if slots[-1][1] is None:
            slots[-1][1] = ["int", "varint", 1]
        return ["rec", name, [list(f) for f in fields], slots]

    def _grouped(self, payload):
        if not (isinstance(payload, list) and len(payload) == 2 and isinstance(payload[1], list)):
            raise FormatError("bad grouped payload %r" % (payload,))
        gname = _text(payload[0], "group name")
        members = []
        for m in payload[1]:
            if not (isinstance(m, list) and len(m) == 2 and isinstance(m[1], list)):
                raise FormatError("bad grouped member %r" % (m,))
            key = self._ident_key(m[0])
            name, fields = self._lookup(key)
            if self.nested_ids is not None:
                self.nested_ids.append(key)
            members.append(self._record_obs(name, fields, m[1]))
        return ["grouped", gname, members]

    # -- values by declared type
    def value(self, t, w, what=""):
        if t.endswith("[]"):
            if w is None:
                return ["list", t, []]
            if not isinstance(w, list):
                raise FormatError("%s: list field holds %r" % (what, w))
            return ["list", t, [self.value(t[:-2], x, what) for x in w]]
        if w is None:
            return ["digest", None, None, None] if t == "digest" else None
        if t in STR_TYPES:
            return ["str", STR_TYPES[t], _text(w, what)]
        if t in INT_TYPES:
            return ["int", INT_TYPES[t], _intval(w, what, self)]
        if t in UINT_TYPES:
            n = _intval(w, what, self)
            return ["int", UINT_TYPES[t], n, n]
        if t == "boolean":
            if w is True or w is False or w in (0, 1):
                return ["boolean", bool(w), int(w)]
            raise FormatError("%s: boolean holds %r" % (what, w))
        if t == "float":
            if isinstance(w, bool) or not isinstance(w, (int, float)):
                raise FormatError("%s: float holds %r" % (what, w))
            return ["float", f64hex(float(w))]
        if t == "bytes":
            if isinstance(w, mp.Bin):
                return ["bytes", bytes(w).hex()]
            raise FormatError("%s: bytes holds %r" % (what, w))
        if t == "datetime":
            v = self.unext(w)
            if isinstance(v, list) and v and v[0] == "dt":
                return v
            raise FormatError("%s: datetime holds %r" % (what, w))
        if t == "path":
            if not (isinstance(w, list) and len(w) == 2):
                raise FormatError("%s: path holds %r" % (what, w))
            return ["path", "win" if w[1] == 1 else "posix", _text(w[0], what)]
        if t == "command":
            if not (isinstance(w, list) and len(w) == 2):
                raise FormatError("%s: command holds %r" % (what, w))
            fl = "win" if w[1] == 1 else "posix"
            if w[0] is None:
                return ["cmd", fl, None, None]
            exe, args = w[0]
            return ["cmd", fl, ["path", fl, _text(exe, what)], [["str", "str", _text(a, what)] for a in args]]
        if t == "digest":
            if not (isinstance(w, list) and len(w) == 3):
                raise FormatError("%s: digest holds %r" % (what, w))
            return ["digest"] + [None if not x else bytes(x).hex() for x in w]
        if t in IP_TYPES:
            n = _intval(w, what, self)
            if not 0 <= n < 2**128:
                raise FormatError("%s: address out of range" % what)
            return ["ip", 4 if n < 2**32 else 6, n, None]
        if t in NET_TYPES:
            text = _text(w, what)
            try:
                net = _ip.ip_network(text)
            except ValueError as e:
                raise FormatError("%s: bad network: %s" % (what, e))
            if text != net.compressed:
                # the frozen encoding is the compressed "address/prefixlen" text (a bare address or a netmask spelling
                # names the same network but is not what the format holds)
                raise FormatError("%s: network %r is not in the format's address/prefixlen form %r" % (what, text, net.compressed))
            return ["net", net.version, net.compressed]
        if t == "net.ipv4.Address":
            return ["ipv4addr", _intval(w, what, self)]
        if t == "stringlist":
            if not isinstance(w, list):
                raise FormatError("%s: stringlist holds %r" % (what, w))
            return ["list", "stringlist", [self.generic(x) for x in w]]
        if t == "dictlist":
            if not isinstance(w, list):
                raise FormatError("%s: dictlist holds %r" % (what, w))
            return ["list", "dictlist", [self.generic(x) for x in w]]
        if t == "record":
            v = self.unext(w)
            if isinstance(v, list) and v and v[0] in ("rec", "grouped"):
                return v
            raise FormatError("%s: record field holds %r" % (what, w))
        if t == "dynamic":
            return self.dynamic(w, what)
        raise FormatError("%s: field type %r has no wire form known to the reference" % (what, t))

    def generic(self, w):
        if w is None:
            return None
        if isinstance(w, bool):
            return ["bool", w]
        if isinstance(w, int):
            return ["int", "int", w]
        if isinstance(w, float):
            return ["float", f64hex(float(w))]
        if isinstance(w, mp.Str):
            return ["str", "str", w.text]
        if isinstance(w, mp.Bin):
            return ["bytes", bytes(w).hex()]
        if isinstance(w, mp.Map):
            return ["dict", [[self.generic(k), self.generic(v)] for k, v in w]]
        if isinstance(w, list):
            return ["seq", [self.generic(x) for x in w]]
        if isinstance(w, mp.Ext):
            v = self.unext(w)
            if isinstance(v, int):
                return ["int", "int", v]
            return v
        raise FormatError("unexpected wire value %r" % (w,))

    def dynamic(self, w, what):
        """A dynamic field holds a field-type value chosen by the kind of the wire value."""
        if isinstance(w, bool):
            return ["boolean", w, int(w)]
        if isinstance(w, int):
            return ["int", "varint", w]
        if isinstance(w, mp.Str):
            return ["str", "string", w.text]
        if isinstance(w, mp.Bin):
            return ["bytes", bytes(w).hex()]
        if isinstance(w, list):
            return ["list", "stringlist", [self.generic(x) for x in w]]
        if isinstance(w, mp.Ext):
            v = self.unext(w)
            if isinstance(v, int):
                return ["int", "varint", v]
            return v
        raise FormatError("%s: dynamic field holds %r" % (what, w))

    # -- frames
    def frame(self, body, index):
        try:
            v = mp.unpack_one(body)
        except mp.MsgpackError as e:
            raise FormatError("frame %d is not exactly one msgpack value: %s" % (index, e))
        if isinstance(v, mp.Bin):
            if bytes(v) != MAGIC:
                raise FormatError("frame %d: stray bin value %r" % (index, v))
            self.events.append(["HDR"])
            self.frame_kinds.append("HDR")
            return
        if index == 0:
            raise FormatError("first frame is not the header")
        if not isinstance(v, mp.Ext) or v.code != EXT:
            raise FormatError("frame %d: top-level value is not ext type 14: %r" % (index, v))
        inner = mp.unpack_one(v.data)
        if not (isinstance(inner, list) and len(inner) == 2 and isinstance(inner[0], int)):
            raise FormatError("frame %d: ext payload is not [sub-type, payload]" % index)
        sub, payload = inner
        if sub == T_DESC:
            if not (isinstance(payload, list) and len(payload) == 2 and isinstance(payload[1], list)):
                raise FormatError("frame %d: bad descriptor payload %r" % (index, payload))
            name = _text(payload[0], "descriptor name")
            fields = []
            for f in payload[1]:
                if not (isinstance(f, list) and len(f) == 2):
                    raise FormatError("frame %d: bad field definition %r" % (index, f))
                fields.append([_text(f[0], "field type"), _text(f[1], "field name")])
            h = descriptor_hash(name, fields)
            self.descs[(name, h)] = [name, fields]
            self.descs[name] = [name, fields]
            self.events.append(["DESC", name, fields, h])
            self.frame_kinds.append("DESC")
        elif sub == T_RECORD:
            self.nested_ids = []
            o = self._record(payload)
            ids = self.nested_ids
            self.nested_ids = None
            self.records.append(o)
            self.events.append(["REC", _evkey(ids[0]), [_evkey(k) for k in ids[1:]], o[1], o[2]])
            self.frame_kinds.append("REC")
        elif sub == T_GROUPED:
            self.nested_ids = []
            o = self._grouped(payload)
            ids = self.nested_ids
            self.nested_ids = None
            self.records.append(o)
            self.events.append(["GREC", o[1], [_evkey(k) for k in ids]])
            self.frame_kinds.append("GREC")
        else:
            raise FormatError("frame %d: sub-type %#x is not a top-level frame kind" % (index, sub))


def _evkey(k):
    return list(k) if isinstance(k, tuple) else k


def decode_stream(data: bytes):
    """Strict decode of a complete stream -> Decoder (records, events, frame_kinds).  Raises FormatError."""
    frames, end = split_frames(data)
    if end != len(data):
        raise FormatError("stream ends inside a frame at offset %d of %d" % (end, len(data)))
    if not frames:
        raise FormatError("empty stream (no header frame)")
    if data[: len(HEADER_FRAME)] != HEADER_FRAME:
        raise FormatError("stream does not start with the header frame")
    dec = Decoder()
    for i, (_, _, body) in enumerate(frames):
        dec.frame(body, i)
    return dec


def decode_prefix(data: bytes):
    """Tolerant decode of a possibly cut stream: the records of all frames that are completely present.
    -> (records, frame_ends_of_records, n_complete_frames)."""
    frames, end = split_frames(data)
    dec = Decoder()
    rec_ends = []
    for i, (_, e, body) in enumerate(frames):
        before = len(dec.records)
        dec.frame(body, i)
        if len(dec.records) > before:
            rec_ends.append(e)
    return dec.records, rec_ends, len(frames)


# ---- encoding -------------------------------------------------------------------------------------
def iso_text(o):
    _, y, m, d, h, mi, s, us, off = o
    out = "%04d-%02d-%02dT%02d:%02d:%02d" % (y, m, d, h, mi, s)
    if us:
        out += ".%06d" % us
    sign = "-" if off < 0 else "+"
    a = abs(off)
    hh, rem = divmod(a, 3600 * 10**6)
    mm, rem = divmod(rem, 60 * 10**6)
    ss, uu = divmod(rem, 10**6)
    out += "%s%02d:%02d" % (sign, hh, mm)
    if ss or uu:
        out += ":%02d" % ss
        if uu:
            out += ".%06d" % uu
    return out


class Encoder:
    """Encode record observations into a stream.  Options select the compatibility variants the format allows."""

    def __init__(self, rng=None, nonminimal=False, bare_identifier=False, drop_version=False, extra_reserved=0,
                 utc_as_text=False):
        self.p = mp.Packer(rng, nonminimal)
        self.rng = rng
        self.bare_identifier = bare_identifier
        self.drop_version = drop_version
        self.extra_reserved = extra_reserved
        self.utc_as_text = utc_as_text
        self.emitted = {}  # identifier key -> fields
        self.out = bytearray()
        self.header_written = False

    def _frame(self, value_bytes):
        self.out += struct.pack(">I", len(value_bytes)) + value_bytes

    def header(self):
        self.out += HEADER_FRAME
        self.header_written = True

    def _ext(self, sub, payload):
        return mp.Ext(EXT, self.p.pack([sub, payload]))

    def _ident(self, name, fields):
        if self.bare_identifier:
            return mp.Str.of(name)
        return [mp.Str.of(name), descriptor_hash(name, fields)]

    def _ensure_desc(self, name, fields):
        key = name if self.bare_identifier else (name, descriptor_hash(name, fields))
        if self.emitted.get(key) != fields:
            self.emitted[key] = [list(f) for f in fields]
            payload = [mp.Str.of(name), [[mp.Str.of(t), mp.Str.of(n)] for t, n in fields]]
            self._frame(self.p.pack(self._ext(T_DESC, payload)))

    def _collect_descs(self, o):
        """Descriptor frames of nested / member records must precede the frame that uses them."""
        if o is None:
            return
        if o[0] == "rec":
            for _, v in o[3]:
                self._collect_descs_value(v)
            self._ensure_desc(o[1], o[2])
        elif o[0] == "grouped":
            for m in o[2]:
                self._collect_descs(m)

    def _collect_descs_value(self, v):
        if isinstance(v, list) and v:
            if v[0] in ("rec", "grouped"):
                self._collect_descs(v)
            elif v[0] == "list":
                for x in v[2]:
                    self._collect_descs_value(x)

    def _values(self, o):
        slots = o[3]
        vals = [self.wire(v) for _, v in slots]
        version = vals[-1]
        body = vals[:-1]
        for _ in range(self.extra_reserved):
            body.append(mp.Str.of("future"))
        if not self.drop_version:
            body.append(version)
        return body

    def _record_ext(self, o):
        return self._ext(T_RECORD, [self._ident(o[1], o[2]), self._values(o)])

    def int_wire(self, n):
        if -(2**63) <= n < 2**64:
            return n
        a = abs(n)
        return self._ext(T_VARINT, [n < 0, mp.Bin(a.to_bytes((a.bit_length() + 7) // 8, "big"))])

    def wire(self, v):
        """Observation -> wire model value."""
        if v is None:
            return None
        k = v[0]
        if k == "rec":
            return self._record_ext(v)
        if k == "grouped":
            return self._ext(T_GROUPED, [mp.Str.of(v[1]), [[self._ident(m[1], m[2]), self._values(m)] for m in v[2]]])
        if k == "str":
            return mp.Str.of(v[2])
        if k == "int":
            return self.int_wire(v[2])
        if k in ("boolean", "bool"):
            return bool(v[1])
        if k == "float":
            return struct.unpack(">d", bytes.fromhex(v[1]))[0]
        if k == "bytes":
            return mp.Bin(bytes.fromhex(v[1]))
        if k == "dt":
            if v[8] == 0 and not self.utc_as_text:
                return self._ext(T_DATETIME, list(v[1:8]))
            return self._ext(T_DATETIME, [mp.Str.of(iso_text(v))])
        if k == "path":
            return [mp.Str.of(v[2]), 1 if v[1] == "win" else 0]
        if k == "cmd":
            t = 1 if v[1] == "win" else 0
            if v[2] is None:
                return [None, t]
            return [[mp.Str.of(v[2][2]), [mp.Str.of(a[2]) for a in (v[3] or [])]], t]
        if k == "digest":
            return [None if x is None else mp.Bin(bytes.fromhex(x)) for x in v[1:4]]
        if k == "ip":
            return self.int_wire(v[2])
        if k == "net":
            return mp.Str.of(v[2])
        if k == "ipv4addr":
            return v[1]
        if k in ("list", "seq"):
            return [self.wire(x) for x in v[-1]]
        if k == "dict":
            return mp.Map([(self.wire(a), self.wire(b)) for a, b in v[1]])
        raise ValueError("cannot encode observation %r" % (v,))

    def record(self, o):
        if not self.header_written:
            self.header()
        self._collect_descs(o)
        if o[0] == "grouped":
            self._frame(self.p.pack(self.wire(o)))
        else:
            self._frame(self.p.pack(self._record_ext(o)))

    def getvalue(self) -> bytes:
        if not self.header_written:
            self.header()
        return bytes(self.out)


def encode_stream(observations, **options) -> bytes:
    enc = Encoder(**options)
    for o in observations:
        enc.record(o)
    return enc.getvalue()
