"""Typed generator of selector expressions and a pool of record shapes to run them on (used by C07, C08, C10, C16).

Public interface

    record_pool(rng, grouped=False)  -> list of records (deterministic in the rng's seed): 6 shapes covering every
                                        whitelisted field type, None values, empty lists, nested `record` / `record[]`
                                        fields for `Type`, and heterogeneous variants lacking most fields
    SHAPE_INFO                        -> description of the field names by value category (what gen_expr needs)
    gen_expr(rng, depth, shape_info=SHAPE_INFO, support="must"|"any", avoid=DIVERGENT) -> str

The grammar is typed (integer-, number-, text-, list- and boolean-valued productions) so that most (expression, record)
pairs are defined.  Operands of `and` / `or` / `not` are boolean-valued productions or values in truth position, so a
BoolOp's value is only ever used for its truth value - except in the category "boolop-value".  Categories that can be
switched off through `avoid` (the tags returned with with_tags=True name the ones an expression contains):

    "boolop-value"       a BoolOp over non-boolean operands used as a value:  (r.n and r.s) == "x"
    "nested-generator"   a generator expression inside the element / condition of another one (evaluated repeatedly)
    "reuse-variable"     a loop variable name used again by a later, non-nested generator of the same expression
    "generator-iterable" the iterable of a 2nd / 3rd for clause is itself a generator expression (a one-shot iterator
                         that has to be built again for every value of the enclosing clause); in DEFAULT_AVOID
    "reverse-typematch"  Type.<t> in <container>   (the compiled engine is known to differ: in DIVERGENT, the default
                         of `avoid`; C07 passes avoid=() to see it, C10/C16 keep the default)

With support="must" every generated expression lies in the must-support class of refselector.classify_support; with
support="any" about a third of the expressions additionally contain a may-reject construct.
"""
from __future__ import annotations

import datetime as _dt
import random

DIVERGENT = ("reverse-typematch",)
# categories only C07 asks for (avoid=()); everybody else keeps the expression stream they had before these were added
DEFAULT_AVOID = DIVERGENT + ("generator-iterable",)

# ---- record shapes -----------------------------------------------------------------------------------
SUB_FIELDS = [("string", "ss"), ("varint", "sn"), ("net.ipaddress", "sip"), ("uri", "su")]
DEEP_FIELDS = [("string", "ds"), ("varint", "dn")]
MAIN_FIELDS = [
    ("varint", "n"), ("varint", "m"), ("uint16", "u16"), ("uint32", "u32"), ("filesize", "fs"), ("unix_file_mode", "mode"),
    ("net.tcp.Port", "port"), ("net.udp.Port", "uport"), ("float", "f"), ("boolean", "b"),
    ("string", "s"), ("string", "t"), ("wstring", "w"), ("bytes", "by"),
    ("string[]", "l"), ("stringlist", "sl"), ("varint[]", "nl"), ("net.ipaddress[]", "ips"), ("path[]", "pl"),
    ("datetime", "d"), ("net.ipaddress", "ip"), ("net.IPAddress", "ip2"), ("net.ipnetwork", "nw"), ("net.IPNetwork", "nw2"),
    ("net.ipv4.Address", "ip4"), ("uri", "u"), ("path", "p"), ("digest", "dg"), ("command", "cmd"), ("dynamic", "dy"),
    ("dictlist", "dl"), ("record", "sub"), ("record[]", "subs"),
]
SMALL_FIELDS = [("varint", "n"), ("string", "s"), ("string[]", "l"), ("varint", "k")]
OTHER_FIELDS = [("string", "t"), ("varint[]", "nl"), ("net.ipaddress", "ip"), ("datetime", "d"), ("float", "f"), ("uri", "u"),
                ("boolean", "b")]
NESTED_FIELDS = [("string", "s"), ("varint", "m"), ("record", "sub"), ("record[]", "subs"), ("net.ipaddress", "ip")]

NAMES = ["sel/main", "sel/small", "sel/other", "sel/nested", "sel/sub", "sel/deep"]

TEXTS = ["", "Hello", "hello", "HELLO", "a b", "x", "b", "inner", "z.txt", "hello world", "Xy"]
# characters with special case mappings (str.lower / str.upper differ from casefold, change length, or depend on position):
# sharp s, Greek final sigma, micro sign vs mu, long s, fi ligature, dotted / dotless i, titlecase digraph
SPECIAL_TEXTS = ["Straße", "STRASSE", "straße", "strasse", "STRAẞE", "ΟΔΟΣ", "οδος", "οδοσ", "ς", "σ", "µm", "μm", "ΜM", "ſtop", "stop", "STOP",
                 "ﬁle", "file", "FILE", "İstanbul", "i̇stanbul", "istanbul", "ı", "I", "ǅ", "ǆ", "Ǆ", "ß", "ss", "SS"]
SPECIAL_INFO_TEXTS = TEXTS + TEXTS + SPECIAL_TEXTS   # literal pool for gen_expr when the records carry special texts
INTS = [0, 1, 2, 3, 5, 7, 100]
BIGINTS = [2**70, -1, -5, 2**31]
IPS = ["10.0.0.1", "10.1.2.3", "192.168.1.1", "::1", "2001:db8::5"]
NETS = ["10.0.0.0/8", "192.168.0.0/16", "::/0", "2001:db8::/32", "10.1.2.0/24"]
URIS = ["http://x/y/z.txt", "ftp://h/a", "https://example.com/dir/Hello?q=1", "file:///a/b"]
PATHS = ["/a/b", "c.txt", "/tmp/Hello", ""]
CMDS = ["ls -l /tmp", "/bin/sh -c x", "hello"]
DATES = [(2020, 1, 1, 0, 0, 0), (1999, 5, 5, 5, 5, 5), (2024, 2, 29, 23, 59, 59)]
MD5S = ["d41d8cd98f00b204e9800998ecf8427e", "0cc175b9c0f1b6a831c399e269772661"]

SHAPE_INFO = {
    "int": ["n", "m", "u16", "u32", "fs", "mode", "port", "uport"],
    "float": ["f"],
    "bool": ["b"],
    "text": ["s", "t", "w"],
    "bytes": ["by"],
    "textlist": ["l", "sl"],
    "intlist": ["nl"],
    "iplist": ["ips"],
    "datetime": ["d"],
    "ip": ["ip", "ip2"],
    "net": ["nw", "nw2"],
    "uri": ["u"],
    "path": ["p"],
    "digest": ["dg"],
    "command": ["cmd"],
    "record": ["sub"],
    "any": ["n", "s", "l", "f", "b", "by", "d", "ip", "nw", "u", "p", "cmd", "dy", "sub", "subs", "dl", "ip4", "t", "nl"],
    "sub": {"text": ["ss"], "int": ["sn"], "ip": ["sip"]},
    "missing": ["zz", "nope"],          # names no shape of the pool has
    "sometimes": ["k", "u16", "w", "nw"],  # names only some shapes have (for has_field and the heterogeneous consumers)
    "names": NAMES,
    "types": {
        "int": ["varint", "uint16", "uint32", "filesize", "unix_file_mode", "net.tcp.Port", "net.udp.Port"],
        "text": ["string", "wstring", "uri"],
        "float": ["float"],
        "ip": ["net.ipaddress", "net.IPAddress"],
        "net": ["net.ipnetwork"],
        "bytes": ["bytes"],
        "uriattr": ["uri.filename", "uri.scheme", "uri.hostname", "uri.path"],
        "absent": ["net.ipv4.Subnet"],
    },
    "texts": TEXTS,
    "ints": INTS,
    "ips": IPS,
    "nets": NETS,
}


def descriptors():
    from flow.record import RecordDescriptor

    return {
        "sel/main": RecordDescriptor("sel/main", MAIN_FIELDS),
        "sel/small": RecordDescriptor("sel/small", SMALL_FIELDS),
        "sel/other": RecordDescriptor("sel/other", OTHER_FIELDS),
        "sel/nested": RecordDescriptor("sel/nested", NESTED_FIELDS),
        "sel/sub": RecordDescriptor("sel/sub", SUB_FIELDS),
        "sel/deep": RecordDescriptor("sel/deep", DEEP_FIELDS + [("record", "deeper")]),
    }


def _dt_value(rng):
    return _dt.datetime(*rng.choice(DATES), tzinfo=_dt.timezone.utc)


def _sub(rng, D, none_bias=0.0):
    def pick(seq):
        return None if rng.random() < none_bias else rng.choice(seq)

    return D["sel/sub"](ss=pick(TEXTS), sn=pick(INTS), sip=pick(IPS), su=pick(URIS))


def _deep(rng, D, level=0):
    deeper = None
    if level < 1 and rng.random() < 0.6:
        deeper = _deep(rng, D, level + 1)
    return D["sel/deep"](ds=rng.choice(TEXTS), dn=rng.choice(INTS), deeper=deeper)


def _main(rng, D, flavour, texts=None):
    """flavour: 'full' (every field set), 'none' (most fields None / lists empty), 'mixed'."""
    from flow.record.fieldtypes import command, path

    p_none = {"full": 0.0, "none": 0.8, "mixed": 0.15}[flavour]
    texts = texts or TEXTS

    def opt(v):
        return None if rng.random() < p_none else v

    def lst(seq, lo=1, hi=3):
        if flavour == "none":
            return [] if rng.random() < 0.7 else None
        if flavour == "mixed" and rng.random() < 0.2:
            return []
        return [rng.choice(seq) for _ in range(rng.randint(lo, hi))]

    pth = rng.choice(PATHS)
    return D["sel/main"](
        n=opt(rng.choice(INTS + BIGINTS)), m=opt(rng.choice(INTS)), u16=opt(rng.choice([0, 1, 80, 443, 65535])),
        u32=opt(rng.choice([0, 7, 2**32 - 1])), fs=opt(rng.choice([0, 100, 4096, 2**40])), mode=opt(rng.choice([0o644, 0o755, 0])),
        port=opt(rng.choice([22, 80, 443])), uport=opt(rng.choice([53, 123])), f=opt(rng.choice([0.0, 1.5, -2.5, 100.0, float("inf")])),
        b=opt(rng.choice([True, False])), s=opt(rng.choice(texts)), t=opt(rng.choice(texts)), w=opt(rng.choice(texts)),
        by=opt(rng.choice([b"", b"ab", b"Hello", b"\x00\xff"])), l=lst(texts, 1, 4), sl=lst(texts), nl=lst(INTS, 1, 4), ips=lst(IPS),
        pl=lst([path.from_posix("/a/b"), path.from_windows("c:\\x")]), d=opt(_dt_value(rng)), ip=opt(rng.choice(IPS)), ip2=opt(rng.choice(IPS)),
        nw=opt(rng.choice(NETS)), nw2=opt(rng.choice(NETS)), ip4=opt(rng.choice(["10.0.0.1", "1.2.3.4"])), u=opt(rng.choice(URIS)),
        p=opt(path.from_posix(pth) if rng.random() < 0.7 else path.from_windows("c:\\tmp\\Hello")),
        dg=opt((rng.choice(MD5S), None, None)), cmd=opt(command.from_posix(rng.choice(CMDS))),
        dy=opt(rng.choice([1, "Hello", b"ab", True, ["a", "b"]])), dl=lst([{"a": "1"}, {"k": "v", "x": "y"}]),
        sub=opt(_sub(rng, D)) if flavour != "none" else None,
        subs=[_sub(rng, D) for _ in range(rng.randint(0, 2))] if flavour != "none" else [],
        _source=rng.choice([None, "src", "Hello"]), _classification=rng.choice([None, "TLP:RED"]),
    )


def _nested(rng, D):
    sub = rng.choice([_sub(rng, D), _deep(rng, D), _sub(rng, D, 0.3)])
    subs = [rng.choice([_sub(rng, D), _deep(rng, D)]) for _ in range(rng.randint(0, 3))]
    return D["sel/nested"](s=rng.choice(TEXTS), m=rng.choice(INTS), sub=sub, subs=subs, ip=rng.choice(IPS))


def _small(rng, D):
    return D["sel/small"](n=rng.choice(INTS + [None]), s=rng.choice(TEXTS), l=[rng.choice(TEXTS) for _ in range(rng.randint(0, 3))],
                          k=rng.choice(INTS))


def _other(rng, D):
    return D["sel/other"](t=rng.choice(TEXTS), nl=[rng.choice(INTS) for _ in range(rng.randint(0, 4))], ip=rng.choice(IPS), d=_dt_value(rng),
                          f=rng.choice([0.0, 1.5, 100.0]), u=rng.choice(URIS), b=rng.choice([True, False, None]))


def record_pool(rng, grouped=False, n_main=6, special=False):
    """-> list of records.  Index layout (stable): n_main 'full' mains, 2 'mixed' mains, 2 'none' mains, 3 nested,
    2 small, 2 other [, 1 grouped(small, other)].  special=True: the text fields of the main shape also draw from
    SPECIAL_TEXTS (characters with special case mappings); use shape_info with "texts": SPECIAL_INFO_TEXTS then."""
    D = descriptors()
    texts = (TEXTS + SPECIAL_TEXTS) if special else None
    pool = [_main(rng, D, "full", texts) for _ in range(n_main)]
    pool += [_main(rng, D, "mixed", texts) for _ in range(2)]
    pool += [_main(rng, D, "none", texts) for _ in range(2)]
    pool += [_nested(rng, D) for _ in range(3)]
    pool += [_small(rng, D) for _ in range(2)]
    pool += [_other(rng, D) for _ in range(2)]
    if grouped:
        from flow.record import GroupedRecord

        pool.append(GroupedRecord("sel/grouped", [_small(rng, D), _other(rng, D)]))
    return pool


# ---- deeply nested records (typed matchers must reach every level) -------------------------------------
LEVEL_FIELDS = [("string", "s"), ("varint", "n"), ("net.ipaddress", "ip"), ("uri", "u"), ("datetime", "d"), ("float", "f"), ("wstring", "w"),
                ("record", "sub"), ("record[]", "subs")]


def level_values(i, salt=0):
    """The values a record at nesting depth i carries: distinct from every other depth (and from the sibling decoys)."""
    return {
        "string": "lvl%d-%d" % (i, salt), "varint": 1000 + 100 * i + salt, "net.ipaddress": "10.%d.%d.1" % (20 + i, salt),
        "uri": "http://h%d.example/dir%d/file%d-%d.txt" % (i, i, i, salt), "datetime": _dt.datetime(2001 + i, 1 + i % 12, 2, 3, 4, 5, tzinfo=_dt.timezone.utc),
        "float": 0.5 + i + salt / 16.0, "wstring": "w%d-%d" % (i, salt),
    }


def deep_records(rng, n=6):
    """-> list of (record, [values of depth 0, depth 1, ...]).  Each record is a chain of 3-4 nesting levels linked
    through `record` or `record[]` fields (chosen per level, so record[] inside record[] occurs); record[] links also
    hold decoy siblings without further nesting.  Every level has its own value for every scalar field type."""
    from flow.record import RecordDescriptor

    D = RecordDescriptor("sel/level", LEVEL_FIELDS)
    LEAF = RecordDescriptor("sel/leaf", LEVEL_FIELDS[:7])
    out = []
    for _ in range(n):
        depth = rng.choice([3, 4, 4])           # number of levels below the top record
        salt = rng.randrange(1, 9)
        levels = [level_values(i, salt) for i in range(depth + 1)]

        def mk(desc, vals, **kw):
            return desc(s=vals["string"], n=vals["varint"], ip=vals["net.ipaddress"], u=vals["uri"], d=vals["datetime"], f=vals["float"],
                        w=vals["wstring"], **kw)

        node = mk(LEAF, levels[depth])
        for i in range(depth - 1, -1, -1):
            decoys = [mk(LEAF, level_values(-(3 + i), salt + j)) for j in range(rng.randint(0, 2))]   # smaller than every level
            if rng.random() < 0.5:
                node = mk(D, levels[i], sub=node, subs=decoys)
            else:
                sibs = decoys + [node]
                rng.shuffle(sibs)
                node = mk(D, levels[i], sub=None if rng.random() < 0.5 else mk(LEAF, level_values(-(10 + i), salt)), subs=sibs)
        out.append((node, levels))
    return out


# ---- grouped records of different shapes (all GroupedRecord objects share one class) ----------------------
GROUP_MEMBERS = {
    "grp/a": [("string", "a"), ("varint", "n"), ("net.ipaddress", "ip")],
    "grp/b": [("string", "b"), ("string", "c"), ("varint", "m")],
    "grp/c": [("varint", "a"), ("uri", "u")],                 # field `a` again, as an integer
    "grp/d": [("string[]", "l"), ("varint", "k"), ("wstring", "w")],
    "grp/e": [("string", "n"), ("float", "f")],               # field `n` again, as a text
    "grp/f": [("wstring", "b"), ("net.ipaddress", "src"), ("varint", "n")],
}
GROUP_SHAPES = [("grp/a",), ("grp/b",), ("grp/a", "grp/b"), ("grp/c", "grp/d"), ("grp/e", "grp/b"), ("grp/d", "grp/a"), ("grp/c", "grp/e"),
                ("grp/b", "grp/c", "grp/d"), ("grp/f", "grp/c"), ("grp/e", "grp/f", "grp/d")]


def grouped_pool(rng):
    """-> one GroupedRecord per GROUP_SHAPES entry; the shapes differ in members, field names and the type a name has."""
    from flow.record import GroupedRecord, RecordDescriptor

    D = {name: RecordDescriptor(name, fields) for name, fields in GROUP_MEMBERS.items()}
    texts = [t for t in TEXTS if t] + ["Straße", "οδος", "ﬁle"]

    def value(ftype, salt):
        if ftype in ("string", "wstring"):
            return "%s%d" % (rng.choice(texts), salt)
        if ftype == "varint":
            return 100 * salt + rng.choice(INTS)
        if ftype == "net.ipaddress":
            return "10.%d.0.%d" % (salt, rng.randint(1, 9))
        if ftype == "uri":
            return "http://g%d.example/p/doc%d.txt" % (salt, salt)
        if ftype == "float":
            return salt + 0.25
        if ftype == "string[]":
            return ["%s%d" % (rng.choice(texts), salt) for _ in range(rng.randint(1, 3))]
        raise ValueError(ftype)

    out = []
    for gi, shape in enumerate(GROUP_SHAPES):
        members = [D[name](**{f: value(t, 1 + gi * 3 + mi) for t, f in GROUP_MEMBERS[name]}) for mi, name in enumerate(shape)]
        out.append(GroupedRecord("grp/group", members))
    return out


def shape_of(rec):
    """Short label of a pool record's shape (coverage cells)."""
    from flow.record import GroupedRecord

    if isinstance(rec, GroupedRecord):
        return "grouped"
    name = rec._desc.name
    if name == "sel/main":
        nones = sum(1 for _, f in MAIN_FIELDS if getattr(rec, f) is None)
        return "main-none" if nones > 12 else ("main-mixed" if nones else "main-full")
    return name.split("/")[-1]


# ---- expression generator --------------------------------------------------------------------------
CMP6 = ["==", "!=", "<", "<=", ">", ">="]
MUST_BIN_INT = ["+", "*", "%", "&", "|"]
MAY_BIN_INT = ["-", "//", "^", "<<", ">>"]


def _lit(v):
    return repr(v)


class ExprGen:
    def __init__(self, rng, info=None, support="must", avoid=DEFAULT_AVOID):
        self.rng = rng
        self.info = info or SHAPE_INFO
        self.may = support != "must"
        self.avoid = set(avoid)
        self.nvar = 0
        self.done_vars = []    # loop variables of generators that are already closed (may be used again)
        self.tags = set()      # categories used in the expression built so far
        self.want_may = False  # set per expression

    # -- helpers
    def ch(self, seq):
        return self.rng.choice(list(seq))

    def p(self, x):
        return self.rng.random() < x

    def var(self, env=()):
        free = [v for v in self.done_vars if v not in env]
        if free and "reuse-variable" not in self.avoid and self.p(0.35):
            self.tags.add("reuse-variable")
            return self.ch(free)
        self.nvar += 1
        return "x%d" % self.nvar

    def field(self, cat):
        return "r." + self.ch(self.info[cat])

    def may_here(self):
        """Insert a may-reject construct at this point?"""
        if self.want_may and self.p(0.35):
            self.tags.add("may-reject")
            return True
        return False

    # -- integer-valued
    def int_leaf(self, env):
        ivars = [v for v, k in env.items() if k == "int"]
        c = self.rng.random()
        if ivars and c < 0.45:
            return self.ch(ivars)
        if c < 0.55:
            return self.field("int")
        if c < 0.62:
            return self.ch(["r.d.year", "r.d.month", "r.sub.sn", "r.d.day"])
        if c < 0.74 and self.may_here():
            return self.ch(["-1", "-r.n", "-r.m", "+r.m", "~r.n", "~r.u16", "r.nl[0]", "len(r.l)", "abs(r.n)", "int('5')", "r.n.bit_length()"])
        return _lit(self.ch(self.info["ints"]))

    def int(self, d, env):
        if d <= 0 or self.p(0.5):
            return self.int_leaf(env)
        if self.may_here():
            c = self.rng.random()
            if c < 0.6:
                op = self.ch(MAY_BIN_INT)
                right = _lit(self.ch([0, 1, 2, 3])) if op in ("<<", ">>") else self.int(d - 1, env)
                return "(%s %s %s)" % (self.int(d - 1, env), op, right)
            if c < 0.75:
                return "(%s ** 2)" % self.int_leaf(env)
            return "(%s if %s else %s)" % (self.int(d - 1, env), self.bool(d - 1, env), self.int(d - 1, env))
        if "boolop-value" not in self.avoid and self.p(0.06):
            self.tags.add("boolop-value")
            return "(%s %s %s)" % (self.int(d - 1, env), self.ch(["and", "or"]), self.int(d - 1, env))
        return "(%s %s %s)" % (self.int(d - 1, env), self.ch(MUST_BIN_INT), self.int(d - 1, env))

    # -- number-valued (int or float)
    def num(self, d, env):
        c = self.rng.random()
        if c < 0.55:
            return self.int(d, env)
        if d <= 0 or c < 0.75:
            return self.ch([self.field("float"), "1.5", "0.0", "100.0", "2.5"])
        if c < 0.9:
            return "(%s / %s)" % (self.int(d - 1, env), self.int(d - 1, env))
        return "(%s %s %s)" % (self.num(d - 1, env), self.ch(["+", "*"]), self.num(d - 1, env))

    # -- text-valued
    def text_leaf(self, env):
        tvars = [v for v, k in env.items() if k == "text"]
        c = self.rng.random()
        if tvars and c < 0.45:
            return self.ch(tvars)
        if c < 0.5:
            return self.field("text")
        if c < 0.6:
            return self.ch(["name(r)", "str(r.p)", "str(r.ip)", "r.u.filename", "r.u.scheme", "r.u.hostname", "r.sub.ss", "r.p.name", "r.u",
                            "r._source", "r.dg.md5", "str(%s)" % self.field("int"), "r._desc.name", "r.p.suffix", "repr(r.s)",
                            "repr(%s)" % self.field("int")])
        return _lit(self.ch(self.info["texts"]))

    def text(self, d, env):
        if d <= 0 or self.p(0.5):
            return self.text_leaf(env)
        if self.may_here():
            c = self.rng.random()
            t = self.text(d - 1, env)
            if c < 0.3:
                return "(%s)[0]" % t
            if c < 0.5:
                return "(%s)[1:]" % t
            if c < 0.7:
                return 'f"{%s}"' % self.field("text")
            if c < 0.85:
                return "%s.upper()" % self.field("text")
            return "(%s if %s else %s)" % (t, self.bool(d - 1, env), self.text(d - 1, env))
        c = self.rng.random()
        if c < 0.3:
            return "lower(%s)" % self.text(d - 1, env)
        if c < 0.55:
            return "upper(%s)" % self.text(d - 1, env)
        if c < 0.75:
            return "(%s + %s)" % (self.text(d - 1, env), self.text(d - 1, env))
        if c < 0.8:
            return "(%s * %s)" % (self.text(d - 1, env), self.ch(["0", "1", "2"]))
        if c < 0.85:
            return "('%%s-%%s' %% (%s, %s))" % (self.text(d - 1, env), self.int(d - 1, env))
        if c < 0.9:
            return "str(%s)" % self.int(d - 1, env)
        if c < 0.94:
            return "repr(%s)" % self.text(d - 1, env)
        if "boolop-value" not in self.avoid:
            self.tags.add("boolop-value")
            left = self.int(d - 1, env) if self.p(0.4) else self.text(d - 1, env)
            return "(%s %s %s)" % (left, self.ch(["and", "or"]), self.text(d - 1, env))
        return "lower(%s)" % self.text(d - 1, env)

    # -- list-valued
    def list(self, kind, d, env):
        """kind: 'text' | 'int'"""
        elem = self.text if kind == "text" else self.int
        c = self.rng.random()
        if c < 0.45:
            return self.field("textlist" if kind == "text" else "intlist")
        if c < 0.65 or d <= 0:
            n = self.ch([1, 2, 3])
            return "[%s]" % ", ".join(elem(d - 1, env) for _ in range(n))
        if c < 0.8:
            n = self.ch([1, 2, 3])
            return "(%s,)" % ", ".join(elem(d - 1, env) for _ in range(n))
        if self.may_here():
            if self.p(0.5):
                return "{%s, %s}" % (elem(d - 1, env), elem(d - 1, env))
            v = self.var(env)
            return "[%s for %s in %s]" % (v, v, self.field("textlist" if kind == "text" else "intlist"))
        if c < 0.92:
            return "(%s + %s)" % (self.list(kind, d - 1, env), self.list(kind, d - 1, env))
        return "(%s * %s)" % (self.list(kind, d - 1, env), self.ch(["1", "2"]))

    # -- boolean-valued atoms
    def cmp_chain(self, gen, d, env, ops=CMP6):
        n = 2 if self.p(0.7) else (3 if self.p(0.8) else 4)
        parts = [gen(d, env)]
        for _ in range(n - 1):
            parts += [self.ch(ops), gen(d, env)]
        return " ".join(parts)

    def typematch(self, d, env):
        T = self.info["types"]
        c = self.rng.random()
        if c < 0.3:
            return "Type.%s %s %s" % (self.ch(T["int"]), self.ch(CMP6), self.int(min(d, 1), env))
        if c < 0.55:
            return "Type.%s %s %s" % (self.ch(T["text"]), self.ch(CMP6), self.text(min(d, 1), env))
        if c < 0.7:
            return "%s in Type.%s" % (self.text(min(d, 1), env), self.ch(T["text"]))
        if c < 0.78:
            return "Type.%s %s %s" % (self.ch(T["uriattr"]), self.ch(["==", "!="]), self.text(0, env))
        if c < 0.86:
            return "Type.%s %s %s" % (self.ch(T["ip"]), self.ch(["==", "!="]), _lit(self.ch(self.info["ips"])))
        if c < 0.9:
            return "Type.float %s %s" % (self.ch(CMP6), self.num(0, env))
        if c < 0.93:
            return "Type.%s == %s" % (self.ch(T["absent"] + T["bytes"]), self.ch(["'x'", "b'ab'"]))
        if "reverse-typematch" not in self.avoid:
            self.tags.add("reverse-typematch")
            c2 = self.rng.random()
            if c2 < 0.45:
                return "Type.%s in net.ipnetwork(%s)" % (self.ch(T["ip"]), _lit(self.ch(self.info["nets"])))
            if c2 < 0.6:   # any text value is a substring of ...
                return "Type.%s in %s" % (self.ch(T["text"]), self.ch(["'hello world'", "'xHellox'", "r.s", "r.t", "'inner z.txt'"]))
            return "Type.%s in %s" % (self.ch(T["text"]), self.list("text", 0, env))
        return "Type.%s %s %s" % (self.ch(T["int"]), self.ch(CMP6), self.int(0, env))

    def helper(self, d, env):
        info = self.info
        c = self.rng.random()
        if c < 0.2:
            return "has_field(r, %s)" % _lit(self.ch(info["text"] + info["int"] + info["missing"] + info["sometimes"] + ["_source", "_desc"]))
        if c < 0.3:
            return "name(r) %s %s" % (self.ch(["==", "!="]), _lit(self.ch(info["names"])))
        if c < 0.4:
            return "%s %s names(r)" % (_lit(self.ch(info["names"])), self.ch(["in", "not in"]))
        fields = [self.ch(info["text"] + info["text"] + info["missing"]) for _ in range(self.ch([1, 2, 3]))]
        flist = "[%s]" % ", ".join(_lit(f) for f in fields)
        if self.p(0.15):
            flist = "Type.%s" % self.ch(["string", "wstring"])
        strings = "[%s]" % ", ".join(self.text(0, {}) if self.p(0.3) else _lit(self.ch(info["texts"])) for _ in range(self.ch([1, 2])))
        if c < 0.6:
            kw = self.ch(["", "", ", nocase=False", ", nocase=True", ", word_boundary=True", ", nocase=False, word_boundary=True", ", False", ", True, True"])
            return "field_contains(r, %s, %s%s)" % (flist, strings, kw)
        if c < 0.8:
            kw = self.ch(["", "", ", nocase=False", ", nocase=True", ", False"])
            return "field_equals(r, %s, %s%s)" % (flist, strings, kw)
        return "field_regex(r, %s, %s)" % (flist, _lit(self.ch(["H.l+o", "^hello", "o$", "[A-Z]", "a b|x", "^$", "\\bworld\\b"])))

    def netatom(self, env):
        info = self.info
        c = self.rng.random()
        ipf, nwf = self.field("ip"), self.field("net")
        if c < 0.25:
            return "%s %s net.ipnetwork(%s)" % (ipf, self.ch(["in", "not in"]), _lit(self.ch(info["nets"])))
        if c < 0.4:
            return "%s %s net.ipaddress(%s)" % (ipf, self.ch(["==", "!="]), _lit(self.ch(info["ips"])))
        if c < 0.55:
            return "%s %s %s" % (ipf, self.ch(["==", "!="]), _lit(self.ch(info["ips"])))
        if c < 0.65:
            return "%s in %s" % (ipf, nwf)
        if c < 0.75:
            return "net.ipaddress(%s) in %s" % (_lit(self.ch(info["ips"])), nwf)
        if c < 0.85:
            return "%s %s net.%s(%s)" % (nwf, self.ch(["==", "!="]), self.ch(["ipnetwork", "IPNetwork"]), _lit(self.ch(info["nets"])))
        if c < 0.92:
            return "%s in %s" % (_lit(self.ch(info["ips"])), nwf)
        return "net.IPAddress(%s) == %s" % (_lit(self.ch(info["ips"])), self.ch([ipf, _lit(self.ch(info["ips"]))]))

    def genexp(self, d, env):
        fn = self.ch(["any", "all"])
        kind = self.ch(["int", "text"])
        v = self.var(env)
        it = self.list(kind, min(d, 1), env)
        env2 = dict(env)
        env2[v] = kind
        env2["@gen"] = "gen"   # marker: we are inside a generator expression (not a variable: kinds are 'int' / 'text')
        clauses = "for %s in %s" % (v, it)
        if self.p(0.3):
            clauses += " if %s" % self.atom(0, env2)
            if self.p(0.2):
                clauses += " if %s" % self.atom(0, env2)
        if self.p(0.3):
            kind2 = self.ch(["int", "text"])
            v2 = self.var(env2)
            clauses += " for %s in %s" % (v2, self.iterable(kind2, env2, v2))
            env2[v2] = kind2
            if self.p(0.3):
                clauses += " if %s" % self.atom(0, env2)
            if "generator-iterable" not in self.avoid and self.p(0.3):   # a third clause
                kind3 = self.ch(["int", "text"])
                v3 = self.var(env2)
                clauses += " for %s in %s" % (v3, self.iterable(kind3, env2, v3))
                env2[v3] = kind3
        if self.may_here():
            c = self.rng.random()
            if c < 0.4:      # tuple target
                return "%s(a == b for a, b in [(1, 1), (%s, 2)])" % (fn, self.int_leaf(env))
            if c < 0.7:      # re-use of a name that is still bound: the variable of the enclosing generator
                return "%s(any(%s == 2 for %s in r.nl) for %s in r.nl)" % (fn, v, v, v)
            return "%s(%s > 1 for %s in r.nl)" % (fn, *[self.ch(["r", "lower", "Type", "name"])] * 2)
        if "nested-generator" not in self.avoid and d > 0 and self.p(0.15):
            self.tags.add("nested-generator")
            elt = self.genexp(d - 1, env2)
        else:
            elt = self.bool(min(d - 1, 1), env2) if self.p(0.3) else self.atom(0, env2)
        self.done_vars += [x for x in env2 if x not in env and x != "@gen" and x not in self.done_vars]
        return "%s(%s %s)" % (fn, elt, clauses)

    def iterable(self, kind, env, target):
        """Iterable of a non-first for clause: a list-valued production, or (category generator-iterable) a generator
        expression - with or without a reference to the enclosing loop variables."""
        if "generator-iterable" in self.avoid or not self.p(0.45):
            return self.list(kind, 0, env)
        self.tags.add("generator-iterable")
        w = self.var(dict(env, **{target: "@target"}))   # not the name of the clause's own target
        inner_env = {} if self.p(0.7) else env      # mostly loop invariant: no enclosing variable inside
        src = self.list(kind, 0, inner_env)
        if kind == "text":
            elt = self.ch(["lower(%s)", "upper(%s)", "%s", "(%s + 'x')", "%s"]) % w
        else:
            elt = self.ch(["(%s + 1)", "(%s * 2)", "%s", "(%s %% 3)", "%s"]) % w
        cond = ""
        if self.p(0.3):
            cond = " if %s %s %s" % (w, self.ch(CMP6), _lit(self.ch(self.info["texts"] if kind == "text" else self.info["ints"])))
        # the iterable stays open (it is consumed lazily) while the rest of the enclosing generator runs: its variable
        # counts as bound there and becomes reusable only together with the enclosing generator's own variables
        env[w] = "@iter"
        return "(%s for %s in %s%s)" % (elt, w, src, cond)

    def atom(self, d, env):
        c = self.rng.random()
        if c < 0.16:
            return self.cmp_chain(self.int, min(d, 1), env)
        if c < 0.22:
            return self.cmp_chain(self.num, min(d, 1), env)
        if c < 0.34:
            return self.cmp_chain(self.text, min(d, 1), env)
        if c < 0.42:
            return "%s %s %s" % (self.text(min(d, 1), env), self.ch(["in", "not in"]),
                                 self.list("text", min(d, 1), env) if self.p(0.6) else self.text(min(d, 1), env))
        if c < 0.48:
            return "%s %s %s" % (self.int(min(d, 1), env), self.ch(["in", "not in"]), self.list("int", min(d, 1), env))
        if c < 0.495:
            kind = self.ch(["int", "text"])
            return "%s %s %s" % (self.list(kind, min(d, 1), env), self.ch(["==", "!=", "==", "<", ">="]), self.list(kind, min(d, 1), env))
        if c < 0.53:
            x = self.field("any") if self.p(0.7) else self.ch(["r._source", "r.dg.md5", "r.dg.sha1", "r.sub", "lower(None)"])
            return "%s %s" % (x, self.ch(["is None", "is not None", "== None", "!= None"]))
        if c < 0.57:
            return self.ch([self.field("bool"), self.field("int"), self.field("text"), self.field("textlist"), self.field("float"),
                            self.field("bytes"), "r.b == True", "r.b is True", "r.b != False", "True", "False", "None", "1", "''", "[]"])
        if c < 0.66:
            return self.helper(d, env)
        if c < 0.73:
            return self.netatom(env)
        if c < 0.83:
            return self.typematch(d, env)
        if c < 0.86:
            return self.ch(["r.by == b'ab'", "b'a' in r.by", "r.by != b''", "r.p == '/a/b'", "r.cmd == 'ls -l /tmp'", "r.dy == 1", "r.dy == 'Hello'",
                            "r.d < r.d", "r.d == r.d", "r.d >= r.d", "r.ip4 == '10.0.0.1'", "r.sub.sip == '10.0.0.1'", "r.u == 'ftp://h/a'",
                            "r.f == r.f", "r.f > 1", "(r.n, r.s) == (1, 'Hello')", "[r.n, r.m] == [1, 2]", "r.l == ['Hello']", "r.dg.md5 == '%s'" % MD5S[0],
                            "r.fs > 1000", "r.mode & 73 == 73", "r.port in (22, 80)", "'a' in r.dl", "r.l != []", "(r.n > 1) == True",
                            "(not r.n) == False", "(r.s == 'x') != (r.t == 'x')", "r.pl == []", "r.ips != None"])
        if c < 0.93 and self.want_may and self.p(0.7):
            self.tags.add("may-reject")
            return self.ch(["string('x') == %s" % self.text_leaf(env), "varint(1) == %s" % self.int_leaf(env), "r.s.startswith('H')",
                            "len(r.l) == 2", "{1: 2} == {1: 2}", "names(r) == {'sel/main'}", "(lambda: 1)() == 1", "isinstance(r.n, int)",
                            "r.l[0] == 'Hello'", "r.nl[-1] > 1", "sorted(r.nl) == r.nl", "uint16(1) == r.u16",
                            "net.ipv4.Subnet('10.0.0.0/8') != None", "bool(r.n)", "r.n.real == r.n", "str.upper(r.s) == 'HELLO'",
                            "{'a': r.n} != {}", "(lambda x: x)(r.n) == r.n", "wstring('Hello') == r.w", "{r.n, 1} == {1}", "[x for x in r.nl] == r.nl",
                            "[x + 1 for x in r.nl if x] != []", "r.s[1:] == 'ello'", "f'{r.n}' == str(r.n)", "(r.n if r.b else r.m) == r.n"])
        if "@gen" in env:
            if "nested-generator" in self.avoid:
                return self.cmp_chain(self.int if self.p(0.5) else self.text, min(d, 1), env)
            self.tags.add("nested-generator")
        return self.genexp(d, env)

    def bool(self, d, env):
        if d <= 0 or self.p(0.35):
            return self.atom(d, env)
        c = self.rng.random()
        if c < 0.3:
            return "(%s and %s)" % (self.bool(d - 1, env), self.bool(d - 1, env))
        if c < 0.55:
            return "(%s or %s)" % (self.bool(d - 1, env), self.bool(d - 1, env))
        if c < 0.75:
            return "not (%s)" % self.bool(d - 1, env)
        if c < 0.85:
            return "(%s and %s and %s)" % (self.bool(d - 1, env), self.bool(d - 1, env), self.bool(d - 1, env))
        if c < 0.93:
            return "(%s and %s or %s)" % (self.bool(d - 1, env), self.bool(d - 1, env), self.bool(d - 1, env))
        return "(%s or %s or not %s)" % (self.bool(d - 1, env), self.bool(d - 1, env), self.bool(d - 1, env))

    def expr(self, depth):
        self.nvar = 0
        self.done_vars = []
        self.tags = set()
        self.want_may = self.may and self.p(0.6)
        return self.bool(depth, {})


def gen_expr(rng, depth=3, shape_info=None, support="must", avoid=DEFAULT_AVOID, with_tags=False):
    """One selector expression (text).  rng: random.Random.  depth: nesting bound of the boolean/value productions.
    support="must": only must-support constructs; "any": may also contain may-reject constructs.
    avoid: categories (see module docstring) not to generate.  with_tags=True -> (expr, sorted tags)."""
    g = ExprGen(rng, shape_info, support, avoid)
    e = g.expr(depth)
    if with_tags:
        return e, sorted(g.tags)
    return e
