"""Independent rendering model and parsers for the text-oriented writers (property C20).

Nothing here calls flow.record's writers.  The text form of a *value* is Python's own str(value) / repr(value) /
format(value, spec) (display-timezone independence of str() is property C13's subject); everything about the *layout*
(which fields are selected, header rows, quoting, block numbering, alignment, template expansion) is modelled here and
checked by parsing what the writers wrote.
"""
from __future__ import annotations

import csv
import datetime as _dt
import io
import string

META = ("_source", "_classification", "_generated", "_version")

try:
    csv.field_size_limit(1 << 30)
except Exception:  # noqa: BLE001
    pass


# ---- what a record offers to a text writer ------------------------------------------------------------
def slots_and_values(rec):
    """-> (ordered slot names, {slot: value}, {slot: type name}, strict_order).

    Plain record: data fields in descriptor order followed by the metadata slots.  Grouped record: the union of all
    members' slots, first member winning; the column order of a grouped record is not pinned by the property, so
    strict_order is False for it."""
    members = getattr(rec, "records", None)
    if members is not None and hasattr(rec, "descriptors"):
        names, values, types = [], {}, {}
        for m in members:
            n2, v2, t2, _ = slots_and_values(m)
            for n in n2:
                if n not in values:
                    names.append(n)
                    values[n] = v2[n]
                    types[n] = t2[n]
        return names, values, types, False
    names = [str(n) for _, n in rec._desc.get_field_tuples()]
    types = {str(n): str(t) for t, n in rec._desc.get_field_tuples()}
    seen = set()
    names = [n for n in names if not (n in seen or seen.add(n))]
    for m, t in zip(META, ("string", "string", "datetime", "varint")):
        names.append(m)
        types[m] = t
    values = {n: getattr(rec, n) for n in names}
    return names, values, types, True


def as_list(opt):
    """The fields / exclude option as the writers document it: a list or a comma separated string."""
    if opt is None:
        return None
    if isinstance(opt, str):
        return opt.split(",")
    return list(opt)


def select(names, fields, exclude):
    """Selected field names: with a non-empty `fields` those names in that order that exist and are not excluded
    (a repeated name counts once), else every slot not excluded."""
    fields = as_list(fields) or []
    exclude = as_list(exclude) or []
    if fields:
        out = []
        for f in fields:
            if f in names and f not in exclude and f not in out:
                out.append(f)
        return out
    return [n for n in names if n not in exclude]


def cell_text(v):
    return "" if v is None else ref_str(v)


# ---- text form of a value, computed from the value's COMPONENTS (never through the library's own __str__ / __repr__) ----------
# The layouts are those documented at the pinned revision; Python's own str()/repr() of builtins (str, bytes, int, float, list,
# dict) and the standard library's rendering of ipaddress / pathlib / datetime objects are taken as given.
FALLBACKS = {}


def _kind(v):
    """Name of the flow field type class of a value (by class name, without importing the library)."""
    for c in type(v).__mro__:
        if c.__module__.startswith("flow.record"):
            return c.__name__
    return None


def _display_zone():
    import os
    import zoneinfo

    tz = os.environ.get("FLOW_RECORD_TZ", "UTC")
    if tz.upper() == "NONE":
        return None
    try:
        return zoneinfo.ZoneInfo(tz)
    except Exception:  # noqa: BLE001
        return _dt.timezone.utc


_ZONE = "unset"


def ref_datetime(v):
    global _ZONE
    if _ZONE == "unset":
        _ZONE = _display_zone()
    base = _dt.datetime
    if _ZONE is not None:
        try:
            return base.isoformat(base.astimezone(v, _ZONE), " ")
        except OverflowError:
            pass
    return base.isoformat(v, " ")


def ref_filesize(x):
    """Human readable size: 0 -> '0'; otherwise magnitude m = int(log(|x|, 10.24)); beyond m = 16 whole pebibytes '<n>PB';
    else x / 1024**((m + 1) // 3) with one decimal when m % 3 == 1, two otherwise, a blank, the unit letter (' ' for bytes) and 'B'."""
    import math

    x = int(x)
    if x == 0:
        return "0"
    m = int(math.log(abs(x), 10.24))
    if m > 16:
        return "%iPB" % (x * 1.0 / 1024 ** 5)
    unit = (m + 1) // 3
    fmt = "%2.1f" if m % 3 == 1 else "%1.2f"
    return (fmt % (x * 1.0 / 1024 ** unit)) + " " + " KMGTP"[unit] + "B"


def _dotted(n):
    return "%d.%d.%d.%d" % ((n >> 24) & 255, (n >> 16) & 255, (n >> 8) & 255, n & 255)


def _is_record(v):
    return hasattr(v, "_desc") and hasattr(v, "__slots__")


def ref_str(v):
    """Reference of str(value)."""
    if v is None:
        return "None"
    if hasattr(v, "records") and hasattr(v, "descriptors") or _is_record(v):
        return ref_repr(v)
    k = _kind(v)
    if isinstance(v, _dt.datetime):
        return ref_datetime(v)
    if isinstance(v, str):
        return str.__str__(v)
    if k in ("path", "posix_path", "windows_path") or isinstance(v, __import__("pathlib").PurePath):
        import pathlib

        if getattr(v, "_empty_path", False):
            return ""
        return (pathlib.PureWindowsPath if isinstance(v, pathlib.PureWindowsPath) else pathlib.PurePosixPath).__str__(v)
    if k in ("ipaddress", "ipnetwork"):
        return str(v.val)
    if k == "subnet":
        return "%s/%d" % (_dotted(v.net), bin(v.mask & 0xFFFFFFFF).count("1"))
    if k == "address":
        return _dotted(v.val)
    if isinstance(v, bool) or k in (None,) and isinstance(v, (int, float)):
        return repr(v)
    if isinstance(v, float):
        return repr(float(v))
    if k == "varint" and isinstance(v, int):
        return str(int(v))
    return ref_repr(v)


def ref_repr(v):
    """Reference of repr(value)."""
    import pathlib

    if v is None:
        return "None"
    if hasattr(v, "records") and hasattr(v, "descriptors"):
        return "<%s [%s]>" % (v.name, ", ".join(ref_repr(m) for m in v.records))
    if _is_record(v):
        names = []
        for _, n in v._desc.get_field_tuples():
            if n not in names:
                names.append(n)
        return "<%s %s>" % (v._desc.name, " ".join("%s=%s" % (n, ref_repr(getattr(v, n))) for n in names))
    k = _kind(v)
    if isinstance(v, _dt.datetime):
        return ref_datetime(v)
    if isinstance(v, str):
        return repr(str.__str__(v))
    if isinstance(v, (bytes, bytearray)):
        return repr(bytes(v))
    if isinstance(v, pathlib.PurePath) and k is None:
        return repr(v)  # a plain pathlib object: Python's own repr
    if isinstance(v, pathlib.PurePath):
        text = ref_str(v)
        if isinstance(v, pathlib.PureWindowsPath):
            quote = "'"
            if "'" in text:
                if '"' in text:
                    text = text.replace("'", "\\'")
                else:
                    quote = '"'
            return quote + text + quote
        return repr(text)
    if k == "ipaddress":
        return "net.ipaddress(%r)" % str(v.val)
    if k == "ipnetwork":
        return "net.ipnetwork(%r)" % str(v.val)
    if k == "subnet":
        return "net.ipv4.subnet(%r)" % ref_str(v)
    if k == "address":
        return "net.ipv4.address(%r)" % ref_str(v)
    if k == "digest":
        return "(md5=%s, sha1=%s, sha256=%s)" % (v.md5, v.sha1, v.sha256)
    if k in ("command", "posix_command", "windows_command"):
        return "(executable=%s, args=%s)" % (ref_repr(v.executable), "None" if v.args is None else "[" + ", ".join(ref_repr(a) for a in v.args) + "]")
    if k == "boolean":
        return str(bool(v.value))
    if k in ("uint16", "uint32"):
        return str(int(v))
    if k == "filesize":
        return ref_filesize(v)
    if k == "unix_file_mode":
        return oct(int(v))
    if isinstance(v, bool):
        return repr(bool(v))
    if isinstance(v, float):
        return repr(float(v))
    if isinstance(v, int):
        return repr(int(v))
    if isinstance(v, (list, tuple)):
        inner = ", ".join(ref_repr(x) for x in v)
        return "[" + inner + "]" if isinstance(v, list) else "(" + inner + ("," if len(v) == 1 else "") + ")"
    if isinstance(v, dict):
        return "{" + ", ".join("%s: %s" % (ref_repr(a), ref_repr(b)) for a, b in v.items()) + "}"
    FALLBACKS[type(v).__name__] = FALLBACKS.get(type(v).__name__, 0) + 1
    return repr(v)


# ---- CSV ---------------------------------------------------------------------------------------------
def expected_csv_rows(records, fields, exclude, type_key):
    """[(row cells, kind, strict_order, selected names of that record)] - a header row whenever the type changes."""
    rows = []
    last = object()
    for i, r in enumerate(records):
        names, values, _, strict = slots_and_values(r)
        sel = select(names, fields, exclude)
        k = type_key(r)
        if k != last:
            rows.append((list(sel), "header", strict, list(sel)))
            last = k
        rows.append(([cell_text(values[n]) for n in sel], "row", strict, list(sel)))
    return rows


def std_parse(text):
    """What a standard CSV parser makes of the text (excel dialect: comma, double quote, doubled quotes)."""
    return [row for row in csv.reader(io.StringIO(text, newline=""))]


def split_physical(text, terminator):
    """Rows as the writer emitted them: split on the exact terminator outside double quotes."""
    rows, cur, inq, i, n = [], [], False, 0, len(text)
    tl = len(terminator)
    while i < n:
        c = text[i]
        if c == '"':
            inq = not inq
        if not inq and text.startswith(terminator, i):
            rows.append("".join(cur))
            cur = []
            i += tl
            continue
        cur.append(c)
        i += 1
    if cur:
        rows.append("".join(cur))
    return rows


def strict_fields(row):
    """Minimal RFC-4180 field splitter for ONE physical row (no row terminators are interpreted). None if malformed."""
    if row == "":
        return []
    out, i, n = [], 0, len(row)
    while True:
        if i < n and row[i] == '"':
            i += 1
            buf = []
            while True:
                if i >= n:
                    return None
                if row[i] == '"':
                    if i + 1 < n and row[i + 1] == '"':
                        buf.append('"')
                        i += 2
                        continue
                    i += 1
                    break
                buf.append(row[i])
                i += 1
            out.append("".join(buf))
        else:
            j = row.find(",", i)
            if j < 0:
                j = n
            if '"' in row[i:j]:
                return None
            out.append(row[i:j])
            i = j
        if i >= n:
            return out
        if row[i] != ",":
            return None
        i += 1
        if i >= n:
            out.append("")
            return out


def bare_newline_cell(cells, terminator):
    """The known mechanism: terminator option '\\n' (resp. '\\r') and a cell holding the other line-break character
    that csv.writer (CPython < 3.13) leaves unquoted: no comma, no quote, no terminator character in it."""
    if terminator not in ("\n", "\r"):
        return False
    other = "\r" if terminator == "\n" else "\n"
    for c in cells:
        if other in c and "," not in c and '"' not in c and terminator not in c:
            return True
    return False


def row_matches(got, exp_cells, strict, got_header=None, exp_names=None):
    """Row comparison.  For a grouped record (strict False) the column order is free: compare through the header."""
    if strict or got_header is None:
        return got == exp_cells
    if len(got) != len(exp_cells) or len(got_header) != len(got) or len(set(got_header)) != len(got_header):
        return False
    return dict(zip(got_header, got)) == dict(zip(exp_names, exp_cells))


# ---- line writer -------------------------------------------------------------------------------------
def match_line_block(text, pos, number, items, strict):
    """Match one block at text[pos:].  items = [(key, value text)].  -> (new pos, None) or (pos, reason)."""
    head = "--[ RECORD %d ]--\n" % number
    if not text.startswith(head, pos):
        return pos, "expected block header %r, found %r" % (head, text[pos:pos + 60])
    pos += len(head)
    remaining = list(items)
    ends = set()
    while remaining:
        p = pos
        while p < len(text) and text[p] == " ":
            p += 1
        found = None
        for idx, (k, v) in enumerate(remaining):
            if text.startswith(k + " = ", p):
                found = idx
                break
        if found is None:
            return pos, "no 'name = value' line of a selected field at %r (still expected: %r)" % (text[pos:pos + 80], [k for k, _ in remaining][:6])
        if strict and found != 0:
            return pos, "field %r rendered where %r was expected" % (remaining[found][0], remaining[0][0])
        k, v = remaining.pop(found)
        q = p + len(k) + 3
        if not text.startswith(v + "\n", q):
            return pos, "value of field %r: expected %r, found %r" % (k, v[:80], text[q:q + 80])
        ends.add(p - pos + len(k))
        pos = q + len(v) + 1
    if len(ends) > 1:
        return pos, "names are not right-aligned (end columns %r)" % sorted(ends)
    return pos, None


# ---- text writer -------------------------------------------------------------------------------------
# the text writer documents exactly three backslash escapes in a template, written literally as two characters
TEMPLATE_ESCAPES = (("\\r", "\r"), ("\\n", "\n"), ("\\t", "\t"))


def translate_escapes(template):
    """The template as the text writer interprets it: the two-character sequences backslash-r, backslash-n, backslash-t
    become CR, LF, TAB (replaced in that order, each over the whole template); every other character - other backslash
    sequences, a trailing backslash, non-ASCII text - stays as it is."""
    for old, new in TEMPLATE_ESCAPES:
        template = template.replace(old, new)
    return template


class Undefined(Exception):
    """The template itself is not applicable to this record (Python's format() refuses it)."""


# ---- the documented `defang` format spec of string / uri / net.ipaddress fields ----------------------------
DEFANG_SCHEMES = (("http://", "hxxp://"), ("https://", "hxxps://"), ("ftp://", "fxp://"), ("file://", "fxle://"), ("ldap://", "ldxp://"),
                  ("ldaps://", "ldxps://"))


def _word(ch):
    return ch == "_" or ch.isalnum()


def ref_defang(value):
    """Reference of "make URLs or ip addresses unclickable", written without regular expressions:
    1. a scheme at the very start of the value (any letter case; with or without a dot anywhere in the value) is rewritten:
       http->hxxp, https->hxxps, ftp->fxp, file->fxle, ldap->ldxp, ldaps->ldxps (result in lower case);
    2. every dot that stands between two word runs whose right-hand run is directly followed by the end of the value, '/' or ':'
       becomes '[.]' (host names, the last label boundary of each host / path segment);
    3. in what then still reads digits.digits.digits.digits the last of those three dots becomes '[.]'."""
    v = str(value)
    for old, new in DEFANG_SCHEMES:
        if v[:len(old)].lower() == old:
            v = new + v[len(old):]
    out, i, n = [], 0, len(v)
    while i < n:
        ch = v[i]
        if ch == "." and i > 0 and _word(v[i - 1]):
            j = i + 1
            while j < n and _word(v[j]):
                j += 1
            if j > i + 1 and (j == n or v[j] in "/:" or (j == n - 1 and v[j] == "\n")):  # a final line feed counts as the end
                out.append("[.]")
                i += 1
                continue
        out.append(ch)
        i += 1
    v = "".join(out)
    out, i, n = [], 0, len(v)
    while i < n:
        if v[i].isdecimal() and (i == 0 or not v[i - 1].isdecimal()):
            j, dots, ok = i, [], True
            for part in range(4):
                k = j
                while k < n and v[k].isdecimal():
                    k += 1
                if k == j:
                    ok = False
                    break
                j = k
                if part < 3:
                    if j < n and v[j] == ".":
                        dots.append(j)
                        j += 1
                    else:
                        ok = False
                        break
            if ok:
                out.append(v[i:dots[2]] + "[.]" + v[dots[2] + 1:j])
                i = j
                continue
            # a later start inside the same digit run cannot match either: copy the run
            k = i
            while k < n and v[k].isdecimal():
                k += 1
            out.append(v[i:k])
            i = k
            continue
        out.append(v[i])
        i += 1
    return "".join(out)


def _has_defang(value):
    t = type(value)
    return any(c.__name__ in ("string", "uri", "ipaddress") and c.__module__.startswith("flow.record.fieldtypes") for c in t.__mro__)


class _ReferenceFormatter(string.Formatter):
    """The stdlib's pure-Python format-string engine over a mapping whose missing keys read as '{key}':
    the first component of a replacement field is looked up in the mapping, then attribute / index access, conversion,
    (nested) format spec are applied exactly as str.format_map does."""

    def __init__(self, values):
        self._values = values

    def get_value(self, key, args, kwargs):
        if isinstance(key, int):
            raise Undefined("positional replacement field")
        return self._values[key] if key in self._values else "{" + key + "}"

    def check_unused_args(self, used_args, args, kwargs):
        pass

    def format_field(self, value, format_spec):
        if format_spec == "defang" and _has_defang(value):
            return ref_defang(ref_str(value))
        if format_spec == "":
            return ref_str(value)
        return format(value, format_spec)

    def convert_field(self, value, conversion):
        if conversion == "r":
            return ref_repr(value)
        if conversion == "s":
            return ref_str(value)
        return super().convert_field(value, conversion)


def apply_template(template, values):
    """Python format-string semantics ({key}, {key.attr}, {key[0]}, {key!r}, {key:spec}, {key:>{other}}) over `values`; an unknown
    key reads as the text '{key}'.  Raises Undefined when Python itself refuses the template for these values."""
    try:
        return _ReferenceFormatter(values).vformat(template, (), {})
    except Undefined:
        raise
    except Exception as e:  # noqa: BLE001
        raise Undefined("%s: %s" % (type(e).__name__, e))


def repr_mentions_fields(text, rec):
    """Completeness of a printable representation: every data field 'name=<repr(value)>' occurs, in order.
    -> None or the first missing field."""
    members = getattr(rec, "records", None)
    if members is not None and hasattr(rec, "descriptors"):
        pos = 0
        for m in members:
            r = _mentions(text, m, pos)
            if isinstance(r, str):
                return r
            pos = r
        return None
    r = _mentions(text, rec, 0)
    return r if isinstance(r, str) else None


def _mentions(text, rec, pos):
    seen = set()
    for _, n in rec._desc.get_field_tuples():
        n = str(n)
        if n in seen:
            continue
        seen.add(n)
        try:
            needle = "%s=%s" % (n, ref_repr(getattr(rec, n)))
        except Exception:  # noqa: BLE001 - the value has no printable form (reported elsewhere)
            continue
        j = text.find(needle, pos)
        if j < 0:
            return n
        pos = j + len(needle)
    return pos


# ---- self-check of the parsers (python -m verif.textmodel_c20) ------------------------------------------
def selftest(n=3000, seed=1):
    """The strict splitter / field parser agree with the csv module on text the csv module wrote itself."""
    import random

    rng = random.Random(seed)
    toks = [",", '"', "\r", "\n", "\r\n", "a", "b", " ", "é", "\t", ""]
    for _ in range(n):
        term = rng.choice(["\r\n", "\n", "\r"])
        rows = [["".join(rng.choice(toks) for _ in range(rng.randint(0, 5))) for _ in range(rng.randint(1, 4))] for _ in range(rng.randint(1, 4))]
        other = {"\n": "\r", "\r": "\n"}.get(term)
        if other:  # keep to rows the writer quotes correctly for this terminator
            rows = [[c if (other not in c or "," in c or '"' in c or term in c) else c.replace(other, "x") for c in r] for r in rows]
        buf = io.StringIO(newline="")
        csv.writer(buf, lineterminator=term).writerows(rows)
        text = buf.getvalue()
        phys = split_physical(text, term)
        assert len(phys) == len(rows), (text, phys)
        for p, r in zip(phys, rows):
            got = strict_fields(p)
            exp = r if r != [""] else [""]
            assert got == exp, (p, got, r)
        assert std_parse(text) == rows, (text, rows)
    assert apply_template("a{{b}}{x}{y!r:>5}{z}", {"x": 1, "y": "q"}) == "a{b}1  'q'{z}"
    vals = {"p": __import__("pathlib").PurePosixPath("/a/b.txt"), "l": ["x", "y"], "w": 6, "f": "*", "n": 5}
    tpl = "{p.name}|{p.parent!r}|{l[1]}|{n:{f}>{w}}|{nope[0]}{nope[1]}|{l[0]:>{w}}"
    assert apply_template(tpl, vals) == tpl.format_map(type("D", (dict,), {"__missing__": lambda s, k: "{" + k + "}"})(vals))
    assert apply_template(tpl, vals) == "b.txt|PurePosixPath('/a')|y|*****5|{n|     x"
    import re

    def documented(value):  # the rule table of the pinned revision, as documentation of the spec
        for pat, new in (("^http://", "hxxp://"), ("^https://", "hxxps://"), ("^ftp://", "fxp://"), ("^file://", "fxle://"), ("^ldap://", "ldxp://"),
                         ("^ldaps://", "ldxps://"), (r"(\w+)\.(\w+)($|/|:)", r"\1[.]\2\3"), (r"(\d+)\.(\d+)\.(\d+)\.(\d+)", r"\1.\2.\3[.]\4")):
            value = re.sub(pat, new, value, flags=re.IGNORECASE)
        return value

    rng = random.Random(7)
    toks = ["http://", "HTTPS://", "ldap://", "file://", "ftp://", "ldaps://", "localhost", "dc01", "www", ".", ".", "com", "10", "0", "1", "255", "/", ":",
            "8080", "[::1]", " ", ",", "é", "_", "a.b", "1.2.3.4", "x", ")", "\n"]
    for _ in range(4000):
        v = "".join(rng.choice(toks) for _ in range(rng.randint(0, 9)))
        assert ref_defang(v) == documented(v), (v, ref_defang(v), documented(v))
    for v, want in (("http://localhost:8080/admin", "hxxp://localhost:8080/admin"), ("https://[::1]/index", "hxxps://[::1]/index"),
                    ("HTTP://intranet/", "hxxp://intranet/"), ("file:///etc/passwd", "fxle:///etc/passwd"), ("www.example.com/a", "www.example[.]com/a"),
                    ("10.0.0.1, x", "10.0.0[.]1, x"), ("plain text", "plain text")):
        assert ref_defang(v) == want, (v, ref_defang(v))
    for bad in ("{nope.attr}", "{l[7]}", "{n:{nope}}", "{}"):
        try:
            apply_template(bad, vals)
        except Undefined:
            pass
        else:
            raise AssertionError(bad)
    assert translate_escapes("na\u00efve \u2192 {n}\\t{c} \u20ac\\x41\\\\n\\") == "na\u00efve \u2192 {n}\t{c} \u20ac\\x41\\\n\\"
    text = "--[ RECORD 2 ]--\n a = 1\nbc = x\ny\n"
    pos, why = match_line_block(text, 0, 2, [("a", "1"), ("bc", "x\ny")], True)
    assert why is None and pos == len(text), (pos, why)
    assert match_line_block("--[ RECORD 2 ]--\n  a = 1\nbc = x\n", 0, 2, [("a", "1"), ("bc", "x")], True)[1] is not None
    assert match_line_block("--[ RECORD 2 ]--\nbc = x\n a = 1\n", 0, 2, [("a", "1"), ("bc", "x")], True)[1] is not None
    assert match_line_block("--[ RECORD 2 ]--\nbc = x\n a = 1\n", 0, 2, [("a", "1"), ("bc", "x")], False)[1] is None
    return True


if __name__ == "__main__":
    print("textmodel_c20 selftest:", selftest())
