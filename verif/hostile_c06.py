"""String pools and the reference grammar for C06 (descriptor names are validated; no code injection).

Everything here is independent of flow.record: the grammar is written out by hand from the property statement,
the whitelist is the list frozen at the pinned revision (the check compares it with the live one and notes a difference).
"""
from __future__ import annotations

import keyword

ASCII_LETTERS = frozenset("abcdefghijklmnopqrstuvwxyzABCDEFGHIJKLMNOPQRSTUVWXYZ")
ASCII_REST = ASCII_LETTERS | frozenset("0123456789_")
RESERVED = ("_source", "_classification", "_generated", "_version")

PINNED_WHITELIST = (
    "boolean", "command", "dynamic", "datetime", "filesize", "uint16", "uint32", "float", "string", "stringlist", "dictlist",
    "unix_file_mode", "varint", "wstring", "net.ipv4.Address", "net.ipv4.Subnet", "net.tcp.Port", "net.udp.Port", "uri", "digest",
    "bytes", "record", "net.ipaddress", "net.ipnetwork", "net.IPAddress", "net.IPNetwork", "path",
)


# ---- reference grammar (property statement) --------------------------------------------------------
def is_ident(s) -> bool:
    """ASCII identifier starting with a letter; the WHOLE string (a trailing newline is not part of an identifier)."""
    if not isinstance(s, str) or not s:
        return False
    if s[0] not in ASCII_LETTERS:
        return False
    for ch in s:
        if ch not in ASCII_REST:
            return False
    return True


def valid_type_name(s) -> bool:
    return isinstance(s, str) and bool(s) and all(is_ident(seg) for seg in s.split("/"))


def valid_field_name(s) -> bool:
    return is_ident(s)


def valid_field_type(s, whitelist) -> bool:
    if not isinstance(s, str):
        return False
    if s.endswith("[]"):
        s = s[:-2]
    return s in whitelist


def valid_definition(name, fields, whitelist):
    """-> (ok, reason)"""
    if not valid_type_name(name):
        return False, "type name"
    for t, n in fields:
        if not valid_field_name(n):
            return False, "field name"
        if not valid_field_type(t, whitelist):
            return False, "field type"
    return True, None


def keyword_refusal_expected(name) -> bool:
    """Grammar-valid type names the library is known to refuse: the generated class is called name.replace('/', '_')
    and a Python keyword cannot name a class (single-segment 'class', 'None', 'or' ...)."""
    return keyword.iskeyword(name.replace("/", "_"))


# ---- hostile pools ---------------------------------------------------------------------------------
def payloads(trip_path):
    """Hostile strings built to break out of each interpolation site of the record class template and to touch the
    tripwire file.  -> {site: [strings]}.  The type name has '/' replaced by '_' before interpolation, so the payloads
    spell the path without a slash as well."""
    parts = trip_path.split("/")
    p_open = "open(%r,'w').close()" % trip_path
    p_open_ns = "open(chr(47).join(%r),'w').close()" % (parts,)
    p_sys = "__import__('os').system('touch %s')" % trip_path
    p_sys_ns = "__import__('os').system('touch '+chr(47).join(%r))" % (parts,)
    p_sub = "__import__('subprocess').Popen(['touch',%r]).wait()" % trip_path
    ws_free_list = repr(parts).replace(" ", "")
    p_open_tight = "open(chr(47).join(%s),'w').close()" % ws_free_list
    p_open_tight_slash = "open(%r,'w').close()" % trip_path
    out = {
        # the deprecated text form of a definition is split on '\n' and each line is stripped; a type-name line may
        # hold carriage returns (a line break for the Python tokenizer) and inner blanks, a field line is split on
        # whitespace: these payloads survive that treatment
        "cr": [
            "x(Record):\r    pass\r%s\rclass y" % p_open_ns,
            "x(Record):\r\tpass\r%s\rclass\ty" % p_open_tight,
            "x(Record):pass\r%s\rclass y" % p_sys_ns,
            "x(%s or Record):#" % p_open_ns,
            "x([%s]and(Record)):#" % p_open_tight,
            "x(Record):\f\r    pass\r%s\rclass y" % p_open_ns,
            "x(Record):\x0b\r pass\r%s\rclass y" % p_open_tight,
        ],
        "nows": [
            "class.type,'q':[%s]and(_field_class)" % p_open_tight_slash,
            "class.type,'q':[%s]and(_field_class)" % p_sys.replace("touch ", "touch'+chr(32)+'"),
            "x(Record):pass;%s" % p_open_tight,
            "x=[%s]" % p_open_tight_slash,
            "x;%s;y" % p_open_tight_slash,
        ],
        "class": [
            "x(Record):\n    pass\n%s\nclass y" % p_open_ns,
            "x(Record): pass\n%s\nclass y" % p_sys_ns,
            "x(%s or Record):\n    pass\nclass y" % p_open_ns,
            "x(Record, metaclass=[%s] and type)" % p_open_ns,
            "x(Record):\n    q = %s\nclass y" % p_sys_ns,
            "x: pass\n%s\nclass y" % p_open_ns,
            "x\n%s\nclass y" % p_open_ns,
            "x;%s;y" % p_open_ns,
            "x(Record):\n    pass\n%s\nclass y" % p_open,
            "x(Record): pass\n%s\nclass y" % p_sub.replace("/", "'+chr(47)+'"),
        ],
        "args": [
            "x=None, y=%s or None, z" % p_open,
            "x=None):\n        %s\n    def q(__self, y" % p_open,
            "x=%s" % p_sys,
            "x=[%s]" % p_open,
            "*x, y=%s, **z" % p_open,
            "x: %s" % p_open,
            "x=(%s)" % p_sub,
        ],
        "assign": [
            "x = None; %s; x" % p_open,
            "x\n        %s\n        y" % p_open,
            "x = %s\n        y" % p_sys,
            "x if 0 else %s" % p_open,
            "x)\n%s\n(y" % p_open,
        ],
        "dict": [
            "x if 0 else %s or _field_class, 'q': _field_class" % p_open,
            "class.type, 'q': %s or _field_class" % p_sys,
            "class.type, 'q': %s or _field_class" % p_open,
            "x\n.type, 'q': %s, 'r': _field_class" % p_open,
            "class.type}\n%s\n    _q = {'q': _field_class" % p_open,
            "class.type, 'q': %s or _field_class" % p_sub,
        ],
        "tuple": [
            "x', %s, 'y" % p_open,
            'x", %s, "y' % p_open,
            "x\\', %s, \\'y" % p_open,
            "x'), %s, ('y" % p_sys,
        ],
    }
    return out


NEAR_MISSES = [
    "", " ", "a ", " a", "a\n", "a\r", "a\r\n", "a\t", "a\x00", "a\nb", "\na", "a\x0b", "a\x0c", "a\x1c", "a\x85", "a\u2028", "a\u00a0",
    "1a", "_a", "__a", "_", "9", "a-b", "a.b", "a b", "a,b", "a;b", "a:b", "a=b", "a(b)", "a[0]", "a{b}", "a'", 'a"', "a\\", "a#b", "a@b",
    "a$", "a%s", "a{0}", "{name}", "{args}", "\t", "\n", "*a", "**a", "a:int", "a=1", "a,", "a\\\n", "a\\nb", "a\x7f", "a\x1b[0m",
]
UNICODE_LOOKALIKES = [
    "\u00e9", "a\u00e9", "\uff41", "a\uff11", "a\u0663", "a\u2167", "a\u0301", "\u00b5", "\u00aa", "\u2126", "\ufb01", "a\u00b7b", "a\u200c",
    "\u212a", "\u017felf", "clas\u017f", "cl\u0430ss", "a\U0001d7d8", "\u0131d", "a\udc80", "a\udcff\udc80", "\u00c5", "a\u3000", "\u0660a",
]
KEYWORDS = ["class", "None", "lambda", "from", "import", "True", "def", "or", "in", "is", "not", "async", "await"]
SOFT_KEYWORDS = ["match", "case", "type"]
TEMPLATE_VOCAB = [
    "Record", "RECORD_VERSION", "_RECORD_VERSION", "__self", "__cls", "_field_x", "_utcnow", "_zip_longest", "args", "kwargs", "self", "cls",
    "k", "v", "f", "values", "dict", "setattr", "_desc", "_field_types", "__slots__", "__init__", "_unpack", "__class__", "__dict__", "mro",
    "name", "fields", "default", "field", "print", "exec", "eval", "object", "tuple", "str", "len", "id", "getattr",
]
LONG = [["a", 300], ["a", 100000], ["a\n", 2000], ["Ab_9", 5000]]
TYPE_NAME_EXTRA = ["a/", "/a", "a//b", "a/1b", "a/_b", "a/b/", "/", "//", "a\\b", "a/b\n", "a\n/b", "a/b c", "a/b.c", "a/\u00e9", "a /b", "A/B/C/D/E/F/G/H"]
FIELD_TYPE_HOSTILE = [
    "string[][]", "[]", "", "net", "net.ipv4", "os.system", "os", "sys.exit", "builtins.eval", "credential.username", "net.hostname",
    "net.ip.ipaddress", "net.ip.ipnetwork", "net.ip", "net.ipv4.addr_long", "net.ipv4.subnet", "string\n", "string[]\n", "\nstring", "String", "STRING", " string",
    "string ", "string[] ", "string []", "typedlist", "FieldType", "RecordField", "fieldtype", "fieldtype_for_value", "flow.record.fieldtypes.string", "..string", ".string", "string.",
    "net..ipaddress", "net.ipaddress.val", "string.__class__", "string.mro", "datetime.datetime", "path.from_posix", "uri.normalize", "\uff53tring",
    "str\u0131ng", "str\u00edng", "string\x00", "__import__('os')", "string[", "string]", "[]string", "windows_path", "posix_path", "posix_command",
    "windows_command", "net.ipv4.Address.val", "Type.string", "record.Record", "varint,string", "string;", "net/ipaddress", "net.tcp", "net.udp", "net.tcp.port",
    "RE_NORMALIZE_PATH", "PY_312_OR_HIGHER", "flow_record_tz", "UTC", "int", "str", "list", "object",
]
MUTATION_ALPHABET = (
    "\n\r\t\x00 \x0b\x0c\x1c\x1d\x1e\x1f\x85\u2028\u2029.-/,;:=()[]{}'\"\\#@$%*+!?<>|~`^&\u00e9\uff11\u0663\u00b7\u0301\u200c\u00aa\u00b5_09zA"
)


def expand_long(spec):
    return spec[0] * spec[1]
