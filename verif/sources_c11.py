"""More ways of naming / handing over a source for C11 (helper module of verif/checks/c11.py):

* pipe-path   a PATH that names a non-rewindable object: /dev/fd/N of a pipe (in-process), /dev/stdin of a child process, a
              FIFO made with os.mkfifo that a feeder thread writes into while a child process reads it by path
* turnover    handle turn-over inside one process: one long-lived handle re-used with new content (truncate + rewrite +
              seek(0)) and many short-lived handles opened / read / dropped with alternating codecs, through RecordReader
              (fileobj=...) AND the low-level public entry points StreamReader(fh) / AvroReader(fh) /
              open_path_or_stream(fh, 'rb')
* names       hostile-but-legal file names (brackets, '#', '?', '%41', spaces, ':', '@', leading '-', unicode, trailing dot,
              names that look like URIs) given relative to the cwd, absolute, and behind an explicit scheme, for write AND
              read: what lands on disk must be the container the extension / scheme names, and it must read back; or the
              name is refused consistently (write and read both raise)
"""
from __future__ import annotations

import errno
import fcntl
import gc
import io
import json
import os
import random
import struct
import subprocess
import sys
import termios
import threading
import time

from . import observe

PIPE_FORMS = ("devfd", "devstdin", "fifo")
NAME_STEMS = ("dump[1]", "x[2024]", "[a]", "a#b", "q?x", "%41", "with space", "a:b", "u@h", "-lead", "ünï-日本", "trail.", "http:x", "C:x",
              "a;b", "a&b=c", "[::1]", "a[b", "dot.dot", "..hidden", "a+b", "stream+x", "avro", "x.avro.y", "%2e%2e", "a\\b", "tab\there")
NAME_STEMS_THOROUGH = ("a b  c", " lead-space", "trail-space ", "(paren)", "{brace}", "a'b", 'a"b', "a|b", "a*b", "a<b>c", "a=b", "a,b", "a~b", "a!b", "a$b",
                       "a`b", "a^b", "..", "...", "-", "--", "-w", "ünï/sub" .replace("/", "∕"), "é" * 40, "x" * 200, "CON", "nul", "a%zz", "a%", "%",
                       "@", ":", "a:", ":a", "1.2.3.4", "user:pw@host", "www.example.com", "[v1.x]", "[]", "]a[", "a]", "scheme+sub")
NAME_EXTS = (".avro", ".records", ".jsonl", ".json", ".csv", ".records.gz", "")
NAME_FORMS = ("relative", "absolute", "scheme-relative", "scheme-absolute")
SQLITE_EXTS = (".db", ".sqlite")  # no extension mapping: a plain 'x.db' is a record stream, 'sqlite://x.db' a database
SQLITE_FORMS = ("sqlite-relative", "sqlite-absolute")
URL_SPECIAL = ("#", "?", "\t", "\r", "\n")  # fragment / query delimiters; urlsplit() drops ASCII tab and newlines
EXT_CONTAINER = {".avro": "avro", ".jsonl": "json", ".json": "json", ".csv": "csv"}
CONTAINER_SCHEME = {"avro": "avro", "json": "jsonfile", "csv": "csvfile", "stream": "stream"}


def _c11():
    from .checks import c11

    return c11


# ---- a path that names a pipe -----------------------------------------------------------------------------------------
def _feed_fd(wfd, data):
    try:
        view = memoryview(data)
        while view:
            n = os.write(wfd, view[:65536])
            view = view[n:]
    except OSError:
        pass
    finally:
        try:
            os.close(wfd)
        except OSError:
            pass


def _feed_fifo(path, data, proc):
    """Writer side of a FIFO: waits for a reader, writes everything, keeps the write end open until the pipe is drained (a
    reader that opened the path, closed it and opens it again still finds a writer and the unread bytes), then closes."""
    fd = None
    while proc.poll() is None:
        try:
            fd = os.open(path, os.O_WRONLY | os.O_NONBLOCK)
            break
        except OSError as e:
            if e.errno != errno.ENXIO:
                return
            time.sleep(0.005)
    if fd is None:
        return
    try:
        os.set_blocking(fd, True)
        view = memoryview(data)
        while view and proc.poll() is None:
            try:
                n = os.write(fd, view[:32768])
                view = view[n:]
            except BrokenPipeError:
                time.sleep(0.005)  # no reader at this moment
        while proc.poll() is None:
            try:
                pending = struct.unpack("i", fcntl.ioctl(fd, termios.FIONREAD, struct.pack("i", 0)))[0]
            except OSError:
                break
            if pending == 0:
                break
            time.sleep(0.005)
    finally:
        os.close(fd)


def execute_pipe_path(ctx, case):
    from flow.record import RecordReader, RecordWriter

    c = _c11()
    codec, container, form = case["codec"], case["container"], case["form"]
    rng = random.Random(case["s"])
    records = c.sized_records(container, case["s"] + 3, rng.choice([3, 40, 400] if ctx.quick else [40, 400, 3000]))
    ctx.ev()
    before = [observe.normalise(observe.obs(r)) for r in records]
    path, url = c.cell_path(ctx, codec, container, "pp")
    w = RecordWriter(url)
    try:
        for r in records:
            w.write(r)
    finally:
        w.flush()
        w.close()
    with open(path, "rb") as f:
        data = f.read()
    c._rm(path)
    prefix = "avro://" if container == "avro" else ("stream://" if rng.random() < 0.5 else "")
    detail = {"codec": codec, "container": container, "form": form, "records": len(records), "bytes": len(data)}
    what = "path naming a pipe (%s)" % {"devfd": "/dev/fd/N", "devstdin": "/dev/stdin in a child", "fifo": "os.mkfifo, read by a child"}[form]
    ctx.state["pipe_path_cases"] = ctx.state.get("pipe_path_cases", 0) + 1
    if form == "devfd":
        if not os.path.isdir("/dev/fd"):
            ctx.event("pipe_path_skipped:no-/dev/fd")
            ctx.state["pipe_path_cases"] -= 1
            return
        rfd, wfd = os.pipe()
        t = threading.Thread(target=_feed_fd, args=(wfd, data), daemon=True)
        t.start()
        src = "%s/dev/fd/%d" % (prefix, rfd)
        detail["source"] = "%s/dev/fd/N" % prefix
        try:
            rd, got, err = c.drain(lambda: RecordReader(src))
        finally:
            try:
                os.close(rfd)
            except OSError:
                pass
            t.join(10)
        ctx.event("pipe_path:" + form)
        if err is not None:
            ctx.violation(None, "%s: reading raised %s" % (what, type(err).__name__),
                          detail=dict(detail, exception=repr(err)[:300], records_before_error=len(got)))
        else:
            if not c.reader_class_ok(rd, container):
                ctx.violation(None, "%s: RecordReader returned %s" % (what, type(rd).__name__), detail=detail)
            if c.compare(ctx, container, records, before, got, what, detail):
                ctx.cell("pipe-path", codec, container, form)
        ctx.nontrivial("pipe-path", codec, container, form, case["s"])
        return
    out = c.tmp_name(ctx, "pp-out", ".records")
    fifo = None
    try:
        if form == "devstdin":
            src = prefix + "/dev/stdin"
            argv = [sys.executable, "-c", c.WORKER, src, out]
            p = subprocess.run(argv, input=data, stdout=subprocess.PIPE, stderr=subprocess.PIPE, timeout=600, env=ctx.state["env"], cwd=ctx.state["tmp"])
            rc, stdout, stderr = p.returncode, p.stdout, p.stderr
        else:
            fifo = c.tmp_name(ctx, "fifo", "" if rng.random() < 0.7 else ".bin")
            os.mkfifo(fifo)
            src = prefix + fifo
            argv = [sys.executable, "-c", c.WORKER, src, out]
            proc = subprocess.Popen(argv, stdin=subprocess.DEVNULL, stdout=subprocess.PIPE, stderr=subprocess.PIPE, env=ctx.state["env"], cwd=ctx.state["tmp"])
            t = threading.Thread(target=_feed_fifo, args=(fifo, data, proc), daemon=True)
            t.start()
            try:
                stdout, stderr = proc.communicate(timeout=180)
            except subprocess.TimeoutExpired:
                proc.kill()
                proc.communicate()
                t.join(10)
                raise
            t.join(10)
            rc = proc.returncode
    except subprocess.TimeoutExpired:
        ctx.require(False, "a child reading a pipe named by path did not finish (watchdog)")
        ctx.event("pipe_path_timeout:" + form)
        c._rm(out)
        return
    finally:
        if fifo:
            c._rm(fifo)
    detail["source"] = src.replace(ctx.state["tmp"], "<tmp>")
    ctx.event("pipe_path:" + form)
    stdout, stderr = stdout.decode("utf-8", "replace"), stderr.decode("utf-8", "replace")
    d2 = dict(detail, returncode=rc, stderr=stderr[-600:])
    if rc != 0 or not os.path.exists(out):
        ctx.violation(None, "%s: reading failed" % what, detail=d2)
    else:
        if stdout.split(" ")[0] != ("AvroReader" if container == "avro" else "StreamReader"):
            ctx.violation(None, "%s: RecordReader returned %s" % (what, stdout.split(" ")[0]), detail=d2)
        rd, got, err = c.drain(lambda: RecordReader(out))
        if err is not None:
            ctx.violation(None, "%s: the stream the child wrote cannot be read" % what, detail=dict(d2, exception=repr(err)[:300]))
        elif c.compare(ctx, container, records, before, got, what, d2):
            ctx.cell("pipe-path", codec, container, form)
    c._rm(out)
    ctx.nontrivial("pipe-path", codec, container, form, case["s"])


# ---- handle turn-over ----------------------------------------------------------------------------------------------------
ENTRIES = {"stream": ("RecordReader", "StreamReader", "open_path_or_stream"), "avro": ("RecordReader", "AvroReader")}


def _read_through(entry, fh, container):
    """Read every record from the open binary handle `fh` through one public entry point (the reader is NOT closed: the
    caller owns the handle)."""
    import flow.record as fr

    if entry == "RecordReader":
        rd = fr.RecordReader(fileobj=fh)
        return list(rd)
    if entry == "StreamReader":
        from flow.record.adapter.stream import StreamReader

        return list(StreamReader(fh))
    if entry == "AvroReader":
        from flow.record.adapter.avro import AvroReader

        return list(AvroReader(fh))
    fp = fr.open_path_or_stream(fh, "rb")
    return list(fr.RecordStreamReader(fp))


def execute_turnover(ctx, case):
    from flow.record import RecordWriter

    c = _c11()
    container = case["container"]
    rng = random.Random(case["s"])
    ctx.ev()
    blobs = {}
    for codec in ("none", "gz", "bz2", "lz4", "zst"):
        recs = c.sized_records(container, case["s"] + 17 * (1 + len(blobs)), rng.choice([2, 9, 60]))
        path, url = c.cell_path(ctx, codec, container, "to")
        w = RecordWriter(url)
        try:
            for r in recs:
                w.write(r)
        finally:
            w.flush()
            w.close()
        with open(path, "rb") as f:
            blobs[codec] = (f.read(), recs, [observe.normalise(observe.obs(r)) for r in recs], path)
    entries = ENTRIES[container]
    detail = {"container": container, "history": case["history"]}
    ok = True

    def step(i, codec, entry, fh, how):
        nonlocal ok
        data, recs, before, _ = blobs[codec]
        what = "handle turn-over (%s)" % how
        d = dict(detail, step=i, codec=codec, entry=entry)
        try:
            got = _read_through(entry, fh, container)
        except Exception as e:  # noqa: BLE001
            ctx.violation(None, "%s: %s on an open handle raised %s" % (what, entry, type(e).__name__), detail=dict(d, exception=repr(e)[:300]))
            ok = False
            return
        ctx.event("turnover_reads:%s" % entry)
        if not c.compare(ctx, container, recs, before, got, "%s via %s" % (what, entry), d):
            ok = False

    if case["history"] == "reused-handle":
        # one long-lived handle whose content is replaced: truncate + rewrite + seek(0)
        path = c.tmp_name(ctx, "reused", ".bin")
        fh = open(path, "w+b")
        try:
            plan = [("none", "RecordReader")]
            for i in range(ctx.scale(10, 100)):
                plan.append((rng.choice(("gz", "bz2", "lz4", "zst", "none")), rng.choice(entries)))
            for i, (codec, entry) in enumerate(plan):
                fh.seek(0)
                fh.truncate()
                fh.write(blobs[codec][0])
                fh.flush()
                fh.seek(0)
                step(i, codec, entry, fh, "one handle re-used with new content")
                if fh.closed:  # a reader closed the caller's handle: take a new one (also a turn-over)
                    fh = open(path, "w+b")
        finally:
            try:
                fh.close()
            except Exception:
                pass
            c._rm(path)
    else:
        # many short-lived handles: open, read, drop - alternating a plain source through RecordReader (which selects the
        # adapter by sniffing) with a compressed source handed to a low-level entry point
        for i in range(ctx.scale(40, 400)):
            codec = "none" if i % 2 == 0 else rng.choice(("gz", "bz2", "lz4", "zst"))
            entry = "RecordReader" if (i % 2 == 0 or rng.random() < 0.2) else rng.choice(entries[1:])
            kind = rng.choice(("file", "bytesio"))
            fh = open(blobs[codec][3], "rb") if kind == "file" else io.BytesIO(blobs[codec][0])
            step(i, codec, entry, fh, "short-lived handles")
            try:
                fh.close()
            except Exception:
                pass
            del fh
            if i % 7 == 0:
                gc.collect()
    for _, _, _, path in blobs.values():
        c._rm(path)
    if ok:
        ctx.cell("turnover", container, case["history"])
    ctx.event("turnover_histories")
    ctx.nontrivial("turnover", container, case["history"], case["s"])


# ---- hostile but legal file names ------------------------------------------------------------------------------------
def _sniff_container(raw):
    """What is in a file, by the format magics (after one layer of gzip): 'avro' | 'stream' | 'json' | 'csv' | 'empty' | hex."""
    codec = None
    if raw[:2] == b"\x1f\x8b":
        import zlib

        try:
            raw = zlib.decompressobj(wbits=31).decompress(raw)
            codec = "gz"
        except Exception:  # noqa: BLE001
            return "broken-gz", "gz"
    if not raw:
        return "empty", codec
    if raw[:4] == b"Obj\x01":
        return "avro", codec
    if raw[:16] == b"SQLite format 3\x00":
        return "sqlite", codec
    if b"RECORDSTREAM\n" in raw[:19]:
        return "stream", codec
    first = raw.split(b"\n", 1)[0]
    try:
        if isinstance(json.loads(first.decode("utf-8")), dict):
            return "json", codec
    except Exception:  # noqa: BLE001
        pass
    try:
        text = first.decode("utf-8")
        if "," in text and all(ch.isprintable() or ch in "\r" for ch in text):
            return "csv", codec
    except Exception:  # noqa: BLE001
        pass
    return "other:" + raw[:12].hex(), codec


def execute_names(ctx, case):
    from flow.record import RecordDescriptor, RecordReader, RecordWriter

    c = _c11()
    stem, ext, form = case["stem"], case["ext"], case["form"]
    name = stem + ext
    rng = random.Random(case["s"])
    desc = RecordDescriptor("names/test", [("string", "s"), ("varint", "v")])
    records = [desc.recordType(s="value-%d-%s" % (i, rng.choice(["a", "b b", "ü"])), v=rng.randint(-999, 999)) for i in range(rng.choice([1, 2, 5]))]
    ctx.ev()
    container = EXT_CONTAINER.get(os.path.splitext(name)[1], "stream")
    workdir = c.tmp_name(ctx, "names", ".d")
    os.mkdir(workdir)
    if form.startswith("sqlite"):
        container = "sqlite"
        url = "sqlite://" + (name if form == "sqlite-relative" else os.path.join(workdir, name))
    elif form == "relative":
        url = name
    elif form == "absolute":
        url = os.path.join(workdir, name)
    elif form == "scheme-relative":
        url = CONTAINER_SCHEME[container] + "://" + name
    else:
        url = CONTAINER_SCHEME[container] + "://" + os.path.join(workdir, name)
    detail = {"name": name, "form": form, "url": url.replace(workdir, "<dir>"), "expected_container": container}
    want_reader = {"avro": "AvroReader", "stream": "StreamReader", "json": "JsonfileReader", "csv": "CsvfileReader", "sqlite": "SqliteReader"}[container]
    old_cwd = os.getcwd()
    os.chdir(workdir)
    try:
        werr = None
        try:
            w = RecordWriter(url)
            try:
                for r in records:
                    w.write(r)
            finally:
                w.flush()
                w.close()
        except Exception as e:  # noqa: BLE001
            werr = e
        created = {}
        for fn in os.listdir(workdir):
            with open(os.path.join(workdir, fn), "rb") as f:
                created[fn] = _sniff_container(f.read())
        detail["created"] = {k: list(v) for k, v in created.items()}
        rd, got, rerr = c.drain(lambda: RecordReader(url))
        for r in (rd,):
            try:
                if r is not None and hasattr(r, "con") and r.con is not None:
                    r.con.close()
            except Exception:  # noqa: BLE001
                pass
        if werr is not None:
            # refused: consistently (reading the name is refused too, or finds nothing) and nothing of another container is left
            ctx.event("names_refused:" + type(werr).__name__)
            bad = {k: v for k, v in created.items() if v[0] not in ("empty", container)}
            if bad:
                ctx.violation(None, "a refused file name left a file of another container behind", detail=dict(detail, exception=repr(werr)[:200]))
            if rerr is None and got:
                ctx.violation(None, "a file name refused for writing yields records when read", detail=dict(detail, records=len(got)))
            # a real file of that container under the literal name: reading is refused too, or returns its records - never
            # something else
            _read_planted(ctx, c, workdir, name, url, container, want_reader, records, desc, detail)
            ctx.cell("names", "refused", form)
        else:
            ctx.event("names_written")
            wrong = {k: v for k, v in created.items() if v[0] != container}
            if not created:
                ctx.violation(None, "writing under a hostile file name succeeded but created no file", detail=detail)
            elif wrong:
                ctx.violation(None, "the file written under a hostile name does not hold the container its extension / scheme names",
                              detail=detail)
            elif name in created and ext.endswith(".gz") and created[name][1] != "gz":
                ctx.violation(None, "the file written under a hostile .gz name is not gzip compressed", detail=detail)
            if created and not any(ch in name for ch in URL_SPECIAL) and sorted(created) != [name]:
                # the file on disk must carry exactly the name that was given (no percent-decoding, no rewriting)
                ctx.violation(None, "writing under a hostile file name created a file with ANOTHER name", detail=detail)
            else:
                ctx.event("names_exact_name_checked")
            if rerr is not None:
                ctx.violation(None, "a file name accepted for writing is refused for reading (%s)" % type(rerr).__name__,
                              detail=dict(detail, exception=repr(rerr)[:300]))
            else:
                if type(rd).__name__ != want_reader:
                    ctx.violation(None, "reading a hostile file name: RecordReader returned %s" % type(rd).__name__, detail=detail)
                same = len(got) == len(records) and all(str.__str__(getattr(b, "s", "")) == str.__str__(a.s) for a, b in zip(records, got))
                if same and container != "csv":
                    same = all(int(getattr(b, "v")) == int(a.v) for a, b in zip(records, got))
                if not same:
                    ctx.violation(None, "records written under a hostile file name do not read back", detail=dict(detail, read=len(got)))
                elif not wrong and created:
                    ctx.cell("names", "written", form)
    finally:
        os.chdir(old_cwd)
        import shutil

        shutil.rmtree(workdir, ignore_errors=True)
    ctx.nontrivial("names", stem, ext, form)
    ctx.sample({"case": case, "url": detail["url"], "created": detail.get("created")}, kind="names:" + form)


def _read_planted(ctx, c, workdir, name, url, container, want_reader, records, desc, detail):
    """The name was refused for writing.  Plant a genuine file of the expected container under the literal name and read the
    same URL: a refusal or the planted records through the right reader - never records through another reader / junk."""
    from flow.record import RecordReader, RecordWriter

    target = os.path.join(workdir, name)
    if os.path.exists(target) or container not in ("avro", "stream"):
        return
    plain = os.path.join(workdir, "planted" + (".avro" if container == "avro" else ".records"))
    w = RecordWriter(plain)
    try:
        for r in records:
            w.write(r)
    finally:
        w.flush()
        w.close()
    try:
        os.rename(plain, target)
    except OSError:
        return
    rd, got, err = c.drain(lambda: RecordReader(url))
    ctx.event("names_planted_reads")
    if err is None:
        if type(rd).__name__ != want_reader or len(got) != len(records) or any(str.__str__(b.s) != str.__str__(a.s) for a, b in zip(records, got)):
            ctx.violation(None, "a genuine %s file under a hostile name is read through %s / differently" % (container, type(rd).__name__),
                          detail=dict(detail, read=len(got)))
    elif got:
        ctx.violation(None, "a genuine file under a hostile name yields records and then fails", detail=dict(detail, read=len(got)))


# ---- files compressed by OTHER tools of the format, and doubly compressed files --------------------------------------------
FOREIGN_VARIANTS = {
    "gz": ("level1", "level9", "with-name-and-mtime", "two-members-of-halves"),
    "bz2": ("level1", "level9"),
    "lz4": ("default", "block64k-linked-checksums", "level12-content-size"),
    # ("two-frames-of-halves" for zstd is NOT generated: by path HEAD hands zstandard's stream_reader to the record reader
    # unbuffered and a read that meets a frame end comes back short -> 'Unpack failed'; through file objects it works.
    # Files written by flow.record are single-frame, so the statement does not cover it; reported to the lead.)
    "zst": ("level1", "level19-checksum", "no-content-size-streamed"),
}
FOREIGN_VIAS = ("bytesio", "buffered", "raw", "neutral", "ext")


def foreign_compress(codec, variant, data, split_at=None):
    """Compress `data` with a standard library of the format (not through flow.record), with the given parameters."""
    import bz2
    import gzip

    if codec == "gz":
        if variant == "level1":
            return gzip.compress(data, 1)
        if variant == "level9":
            return gzip.compress(data, 9)
        if variant == "with-name-and-mtime":
            buf = io.BytesIO()
            with gzip.GzipFile(filename="original-name.records", mode="wb", fileobj=buf, mtime=1234567890) as g:
                g.write(data)
            return buf.getvalue()
        cut = split_at if split_at is not None else len(data) // 2
        return gzip.compress(data[:cut]) + gzip.compress(data[cut:])  # a multi-member file is one gzip file (RFC 1952 2.2)
    if codec == "bz2":
        return bz2.compress(data, 1 if variant == "level1" else 9)
    if codec == "lz4":
        import lz4.frame

        if variant == "default":
            return lz4.frame.compress(data)
        if variant == "block64k-linked-checksums":
            return lz4.frame.compress(data, block_size=lz4.frame.BLOCKSIZE_MAX64KB, block_linked=True, content_checksum=True, block_checksum=True)
        return lz4.frame.compress(data, compression_level=12, store_size=True)
    import zstandard

    if variant == "level1":
        return zstandard.ZstdCompressor(level=1).compress(data)
    if variant == "level19-checksum":
        return zstandard.ZstdCompressor(level=19, write_checksum=True).compress(data)
    if variant == "no-content-size-streamed":
        c = zstandard.ZstdCompressor(write_content_size=False).compressobj()
        return c.compress(data) + c.flush()
    cut = split_at if split_at is not None else len(data) // 2
    z = zstandard.ZstdCompressor()
    return z.compress(data[:cut]) + z.compress(data[cut:])  # concatenated frames are one zstd stream (RFC 8878 3.1)


def _plain_file(ctx, c, container, seed, n):
    from flow.record import RecordWriter

    records = c.sized_records(container, seed, n)
    path, url = c.cell_path(ctx, "none", container, "pl")
    w = RecordWriter(url)
    try:
        for r in records:
            w.write(r)
    finally:
        w.flush()
        w.close()
    with open(path, "rb") as f:
        data = f.read()
    c._rm(path)
    return records, data


def _open_via(ctx, c, via, data, container, codec):
    """-> (make_reader, cleanup) for compressed bytes presented through one naming."""
    from flow.record import RecordReader

    if via == "bytesio":
        return (lambda: RecordReader(fileobj=io.BytesIO(data))), (lambda: None)
    if via == "raw":
        return (lambda: RecordReader(fileobj=c.MinimalRaw(data))), (lambda: None)
    ext = {"gz": ".gz", "bz2": ".bz2", "lz4": ".lz4", "zst": ".zst"}[codec]
    if via == "ext":
        path = c.tmp_name(ctx, "foreign", (".records" + ext) if container == "stream" else ext)
    else:
        path = c.tmp_name(ctx, "foreign", ".bin")
    with open(path, "wb") as f:
        f.write(data)
    if via == "buffered":
        fh = open(path, "rb")
        return (lambda: RecordReader(fileobj=fh)), (lambda: (fh.close(), c._rm(path)))
    url = path if container == "stream" else "avro://" + path
    return (lambda: RecordReader(url)), (lambda: c._rm(path))


def execute_foreign(ctx, case):
    """A plain container compressed by another tool of the format (other levels / frame options / members) must read back."""
    c = _c11()
    codec, variant, container = case["codec"], case["variant"], case["container"]
    rng = random.Random(case["s"])
    n = rng.choice([3, 60, 700] if ctx.quick else [60, 700, 5000, 20000])
    records, plain = _plain_file(ctx, c, container, case["s"] + 1, n)
    ctx.ev()
    if variant.startswith("two-") and container == "avro":
        # two members / frames are concatenated at the byte level: any split point is a valid single compressed file
        pass
    data = foreign_compress(codec, variant, plain, split_at=rng.randrange(1, max(2, len(plain))))
    before = [observe.normalise(observe.obs(r)) for r in records]
    detail = {"codec": codec, "compressed_with": variant, "container": container, "records": len(records), "plain_bytes": len(plain), "bytes": len(data)}
    ok = True
    for via in FOREIGN_VIAS:
        make, cleanup = _open_via(ctx, c, via, data, container, codec)
        try:
            rd, got, err = c.drain(make)
        finally:
            cleanup()
        what = "file compressed by another %s tool, via %s" % (codec, via)
        d = dict(detail, naming=via)
        ctx.event("foreign_reads:" + via)
        if err is not None:
            ctx.violation(None, "%s: reading raised %s" % (what, type(err).__name__), detail=dict(d, exception=repr(err)[:300], records_before_error=len(got)))
            ok = False
            continue
        if not c.reader_class_ok(rd, container):
            ctx.violation(None, "%s: RecordReader returned %s" % (what, type(rd).__name__), detail=d)
            ok = False
        if not c.compare(ctx, container, records, before, got, what, d):
            ok = False
        ctx.event("records_read", len(got))
    if ok:
        ctx.cell("foreign", codec, variant, container)
    ctx.nontrivial("foreign", codec, variant, container, case["s"])


def execute_nested(ctx, case):
    """A compressed container compressed once more (x.records.gz.bz2 ...).  The statement speaks of ONE codec recognised from
    the leading bytes; HEAD refuses such input (the decompressed payload is not a container).  Accepted outcomes: a refusal
    with zero records, or exactly the records - never other records and never a silent empty result."""
    from flow.record import RecordWriter

    c = _c11()
    outer, inner, container, via = case["outer"], case["inner"], case["container"], case["via"]
    records = c.sized_records(container, case["s"] + 1, 5)
    path, url = c.cell_path(ctx, inner, container, "ni")
    w = RecordWriter(url)
    try:
        for r in records:
            w.write(r)
    finally:
        w.flush()
        w.close()
    with open(path, "rb") as f:
        once = f.read()
    c._rm(path)
    ctx.ev()
    data = foreign_compress(outer, {"gz": "level9", "bz2": "level9", "lz4": "default", "zst": "level1"}[outer], once)
    before = [observe.normalise(observe.obs(r)) for r in records]
    make, cleanup = _open_via(ctx, c, via, data, container, outer)
    try:
        rd, got, err = c.drain(make)
    finally:
        cleanup()
    detail = {"outer": outer, "inner": inner, "container": container, "naming": via}
    if err is not None:
        if got:
            ctx.violation(None, "doubly compressed input yields records and then fails", detail=dict(detail, records=len(got), exception=repr(err)[:200]))
        else:
            ctx.event("nested_refused")
            ctx.cell("nested", outer, inner, container, via)
    elif not got:
        ctx.violation(None, "doubly compressed input is accepted as an empty source", detail=detail)
    elif c.compare(ctx, container, records, before, got, "doubly compressed input", detail):
        ctx.event("nested_decoded")
        ctx.cell("nested", outer, inner, container, via)
    ctx.nontrivial("nested", outer, inner, container, via)


# ---- cross-file reader state ---------------------------------------------------------------------------------------------
CROSS_ADAPTERS = ("avro", "jsonfile", "csvfile", "sqlite")
CROSS_TYPES = ("varint", "float", "filesize", "string")
ALONE_WORKER = (
    "import json, sys, warnings\n"
    "warnings.simplefilter('ignore')\n"
    "sys.path.insert(0, sys.argv[2])\n"
    "from flow.record import RecordReader\n"
    "from verif import observe\n"
    "rd = RecordReader(sys.argv[1])\n"
    "out = [observe.obs_nometa(observe.normalise(observe.obs(r))) for r in rd]\n"
    "json.dump([type(rd).__name__, out], sys.stdout)\n"
)


def _cross_url(ctx, c, adapter, tag):
    ext = {"avro": ".avro", "jsonfile": ".jsonl", "csvfile": ".csv", "sqlite": ".db"}[adapter]
    path = c.tmp_name(ctx, "cross-" + tag, ext)
    return path, ("sqlite://" + path if adapter == "sqlite" else path)


def execute_cross_file(ctx, case):
    """File A has a field `ts` of type datetime, file B a field `ts` of another type holding values above 2**32 (what a
    reader that remembers 'ts is a datetime' across files would convert).  Both are read by ONE process, A first or B first,
    one after the other or with both readers open and iterated in lockstep.  Each file must read as it does alone."""
    import subprocess

    from flow.record import RecordDescriptor, RecordReader, RecordWriter

    c = _c11()
    adapter, other, order, layout = case["adapter"], case["other"], case["order"], case["layout"]
    rng = random.Random(case["s"])
    ctx.ev()
    A = RecordDescriptor("cross/with_datetime", [("string", "label"), ("datetime", "ts"), ("varint", "n")])
    B = RecordDescriptor("cross/with_%s" % other, [("string", "label"), (other, "ts"), ("datetime", "n")])
    big = {"varint": lambda i: 2**32 + 1 + i * 10**9, "float": lambda i: float(2**33 + i * 4096), "filesize": lambda i: 2**40 + i,
           "string": lambda i: "2021-01-01T00:00:0%d not a date" % (i % 10)}[other]
    recs_a = [A.recordType(label="a%d" % i, ts="2022-03-04T05:06:07.%06dZ" % i, n=2**33 + i) for i in range(rng.choice([1, 3, 12]))]
    recs_b = [B.recordType(label="b%d" % i, ts=big(i), n="2019-09-09T09:09:09.%06dZ" % i) for i in range(rng.choice([1, 3, 12]))]
    files = {}
    for tag, recs in (("a", recs_a), ("b", recs_b)):
        path, url = _cross_url(ctx, c, adapter, tag)
        w = RecordWriter(url)
        try:
            for r in recs:
                w.write(r)
        finally:
            w.flush()
            w.close()
        files[tag] = (path, url, recs)
    detail = {"adapter": adapter, "field_ts_types": ["datetime", other], "order": order, "layout": layout}
    # what each file gives on its own
    alone = {}
    for tag, (path, url, recs) in files.items():
        if adapter in ("avro", "jsonfile"):
            alone[tag] = None  # compared with what was written
            continue
        verif_dir = os.path.dirname(os.path.dirname(os.path.abspath(__file__)))
        try:
            p = subprocess.run([sys.executable, "-W", "ignore", "-c", ALONE_WORKER, url, verif_dir], stdin=subprocess.DEVNULL, stdout=subprocess.PIPE,
                               stderr=subprocess.PIPE, timeout=300, env=ctx.state["env"])
            alone[tag] = json.loads(p.stdout.decode("utf-8")) if p.returncode == 0 else ["ERROR", p.stderr.decode("utf-8", "replace")[-300:]]
        except (subprocess.TimeoutExpired, ValueError):
            ctx.require(False, "a child reading one file alone did not finish / gave no JSON")
            for path, _, _ in files.values():
                c._rm(path)
            return
        ctx.event("cross_file_alone_children")
    tags = list(order)
    got, errs, classes = {"a": [], "b": []}, {}, {}
    try:
        if layout == "sequential":
            for tag in tags:
                rd = RecordReader(files[tag][1])
                classes[tag] = type(rd).__name__
                try:
                    for r in rd:
                        got[tag].append(r)
                except Exception as e:  # noqa: BLE001
                    errs[tag] = e
                _close(rd)
        else:
            readers = {tag: RecordReader(files[tag][1]) for tag in tags}
            its = {tag: iter(rd) for tag, rd in readers.items()}
            live = list(tags)
            while live:
                for tag in list(live):
                    try:
                        r = next(its[tag], None)
                    except Exception as e:  # noqa: BLE001
                        errs[tag] = e
                        r = None
                    if r is None:
                        live.remove(tag)
                    else:
                        got[tag].append(r)
            for tag, rd in readers.items():
                classes[tag] = type(rd).__name__
                _close(rd)
    except Exception as e:  # noqa: BLE001
        errs["open"] = e
    ok = True
    for tag in ("a", "b"):
        path, url, recs = files[tag]
        what = "%s file read next to a file in which the same field name has another type" % adapter
        d = dict(detail, file=tag, this_file_ts="datetime" if tag == "a" else other, read="second" if tags.index(tag) == 1 else "first")
        if tag in errs or "open" in errs:
            e = errs.get(tag) or errs.get("open")
            if alone[tag] is not None and alone[tag][0] == "ERROR":
                ctx.event("cross_file_unreadable_alone_too")
                continue
            ctx.violation(None, "%s: reading raised %s" % (what, type(e).__name__), detail=dict(d, exception=repr(e)[:300], records_before_error=len(got[tag])))
            ok = False
            continue
        if alone[tag] is None:
            if adapter == "avro":
                import verif.avro_c19 as am

                diffs = ["%d records written, %d read" % (len(recs), len(got[tag]))] if len(recs) != len(got[tag]) else \
                    [x for w_, r_ in zip(recs, got[tag]) for x in am.record_diffs(w_, r_)]
            else:
                want = [observe.obs_nometa(observe.normalise(observe.obs(r))) for r in recs]
                have = [observe.obs_nometa(observe.normalise(observe.obs(r))) for r in got[tag]]
                diffs = [] if want == have else [observe.first_diff(want, have)]
            if diffs:
                ctx.violation(None, "%s: the records differ from those written" % what, detail=dict(d, problems=diffs[:4]))
                ok = False
        else:
            have = [classes.get(tag), [observe.obs_nometa(observe.normalise(observe.obs(r))) for r in got[tag]]]
            want = alone[tag]
            if want[0] == "ERROR":
                ctx.violation(None, "%s: readable next to the other file but not alone" % what, detail=dict(d, alone=want[1]))
                ok = False
            elif json.loads(json.dumps(have)) != want:
                ctx.violation(None, "%s: the records differ from what the file gives when read alone" % what,
                              detail=dict(d, diff=observe.first_diff(want[1], json.loads(json.dumps(have[1])))))
                ok = False
        ctx.event("cross_file_reads")
    for path, _, _ in files.values():
        c._rm(path)
    if ok:
        ctx.cell("cross-file", adapter, other, order, layout)
    ctx.nontrivial("cross-file", adapter, other, order, layout)


def _close(rd):
    try:
        rd.close()
        if getattr(rd, "con", None) is not None:
            rd.con.close()
    except Exception:  # noqa: BLE001
        pass


# ---- reader usage, name / content mismatch, template writers (round 8) -------------------------------------------------------
def execute_reader_usage(ctx, case):
    """One reader consumed in pieces (peek then loop, islice batches, break then resume, handled exception then resume):
    every record exactly once, in order - for every container whose reader continues where it stopped (HEAD: stream, avro,
    jsonfile, csvfile; the sqlite reader starts over on every iteration and is left out)."""
    from flow.record import RecordDescriptor, RecordReader, RecordWriter

    from . import avro_c19 as am

    c = _c11()
    codec, container, pattern = case["codec"], case["container"], case["pattern"]
    rng = random.Random(case["s"])
    n = rng.choice([1, 2, 5, 40] if case["size"] == "small" else [400, 1500])
    ctx.ev()
    if container in ("stream", "avro"):
        records = c.sized_records(container, case["s"] + 2, n)
        path, url = c.cell_path(ctx, codec, container, "ru")
    else:
        desc = RecordDescriptor("usage/text", [("string", "s"), ("varint", "v")])
        records = [desc.recordType(s="v%d" % i, v=i) for i in range(n)]
        path = c.tmp_name(ctx, "ru", container)
        url = path
    before = [observe.normalise(observe.obs(r)) for r in records]
    w = RecordWriter(url)
    try:
        for r in records:
            w.write(r)
    finally:
        w.flush()
        w.close()
    detail = {"codec": codec, "container": container, "pattern": pattern, "records": len(records)}
    via = case.get("via", "path")
    fh = None
    rd = None
    try:
        if via == "path":
            rd = RecordReader(url)
        else:
            fh = open(path, "rb")
            rd = RecordReader(fileobj=fh)
        got, err = am.usage_read(rd, pattern, rng, len(records)), None
    except Exception as e:  # noqa: BLE001
        got, err = [], e
    finally:
        _close(rd) if rd is not None else None
        if fh is not None:
            fh.close()
        c._rm(path)
    what = "one reader consumed in pieces (%s)" % pattern
    if err is not None:
        ctx.violation(None, "%s raised %s" % (what, type(err).__name__), detail=dict(detail, exception=repr(err)[:300]))
    elif container in ("stream", "avro"):
        if c.compare(ctx, container, records, before, got, what, detail):
            ctx.cell("reader-usage", codec, container, pattern)
    else:
        have = [(str.__str__(r.s), int(r.v)) for r in got]
        if have != [("v%d" % i, i) for i in range(len(records))]:
            ctx.violation(None, "%s does not give every record exactly once in order" % what, detail=dict(detail, read=len(have), first=have[:5]))
        else:
            ctx.cell("reader-usage", codec, container, pattern)
    ctx.event("reader_usage_histories")
    ctx.nontrivial("reader-usage", codec, container, pattern, case["size"], via, case["s"])


class NamedBytesIO(io.BytesIO):
    """In-memory file object that carries a .name, as objects from tarfile / zipfile / http responses do."""

    def __init__(self, data, name):
        super().__init__(data)
        self.name = name


def execute_name_mismatch(ctx, case):
    """A file object whose NAME says one codec (or none) and whose CONTENT is another: the content decides."""
    from flow.record import RecordReader, RecordWriter

    c = _c11()
    content, name_ext, container = case["content"], case["name_ext"], case["container"]
    records = c.sized_records(container, case["s"] + 4, random.Random(case["s"]).choice([2, 30, 300]))
    ctx.ev()
    before = [observe.normalise(observe.obs(r)) for r in records]
    path, url = c.cell_path(ctx, content, container, "mm")
    w = RecordWriter(url)
    try:
        for r in records:
            w.write(r)
    finally:
        w.flush()
        w.close()
    with open(path, "rb") as f:
        data = f.read()
    c._rm(path)
    misnamed = c.tmp_name(ctx, "misnamed", (".records" if container == "stream" else ".avro") + name_ext)
    with open(misnamed, "wb") as f:
        f.write(data)
    detail = {"content_codec": content, "name_extension": name_ext or "(none)", "container": container, "records": len(records)}
    ok = True
    for route in ("buffered", "raw", "named-bytesio"):
        if route == "buffered":
            fh = open(misnamed, "rb")
        elif route == "raw":
            fh = io.FileIO(misnamed, "r")
        else:
            fh = NamedBytesIO(data, "archive/member" + name_ext)
        try:
            rd, got, err = c.drain(lambda: RecordReader(fileobj=fh))
        finally:
            try:
                fh.close()
            except Exception:  # noqa: BLE001
                pass
        what = "file object whose name and content disagree, via %s" % route
        d = dict(detail, naming=route)
        ctx.event("name_mismatch_reads:" + route)
        if err is not None:
            ctx.violation(None, "%s: reading raised %s" % (what, type(err).__name__), detail=dict(d, exception=repr(err)[:300], records_before_error=len(got)))
            ok = False
            continue
        if not c.reader_class_ok(rd, container):
            ctx.violation(None, "%s: RecordReader returned %s" % (what, type(rd).__name__), detail=d)
            ok = False
        if not c.compare(ctx, container, records, before, got, what, d):
            ok = False
    c._rm(misnamed)
    if ok:
        ctx.cell("name-mismatch", content, name_ext or "none", container)
    ctx.nontrivial("name-mismatch", content, name_ext, container)


def execute_template_writer(ctx, case):
    """PathTemplateWriter / RecordArchiver put every hour into its own *.records.<codec> file.  After close() - the writer
    object still referenced - every file produced must be a COMPLETE file of its codec (independent decompressor, CLI -t),
    hold a record stream, and all files together hold exactly the records written (each file readable by path)."""
    import datetime as dt
    import shutil

    from flow.record import PathTemplateWriter, RecordArchiver, RecordDescriptor, RecordReader

    c = _c11()
    codec, cls_name, shape = case["codec"], case["cls"], case["shape"]
    rng = random.Random(case["s"])
    ctx.ev()
    desc = RecordDescriptor("template/test", [("varint", "n"), ("string", "s")])
    base = dt.datetime(2024, 5, 17, 10, 5, tzinfo=dt.timezone.utc)
    hours = {"two-hours": [0, 0, 0, 1, 1, 1], "three-hours": [0, 1, 1, 2, 2, 2, 2], "back-and-forth": [0, 1, 0, 1, 2, 0],
             "many": [i // 4 for i in range(24)]}[shape]
    records = [desc.recordType(n=i, s="payload-%d " % i * rng.choice([1, 10, 200]), _generated=base + dt.timedelta(hours=h, minutes=i % 50))
               for i, h in enumerate(hours)]
    root = c.tmp_name(ctx, "tw", ".d")
    os.mkdir(root)
    ext = ".records" + ("" if codec == "none" else "." + codec)
    detail = {"codec": codec, "writer": cls_name, "shape": shape, "records": len(records)}
    what = "%s output" % cls_name
    try:
        if cls_name == "RecordArchiver":
            writer = RecordArchiver(root, path_template="{name}-{ts:%Y%m%dT%H}" + ext, name="arch")
        else:
            writer = PathTemplateWriter(os.path.join(root, "sub", "{name}-{record._generated:%Y%m%dT%H}" + ext), name="tmpl")
        for r in records:
            writer.write(r)
        writer.close()
    except Exception as e:  # noqa: BLE001
        ctx.violation(None, "%s: writing raised %s" % (what, type(e).__name__), detail=dict(detail, exception=repr(e)[:300]))
        shutil.rmtree(root, ignore_errors=True)
        return
    # the writer object stays referenced until every check is done
    files = sorted(os.path.join(dp, fn) for dp, _, fns in os.walk(root) for fn in fns)
    seen = []
    ok = True
    for path in files:
        with open(path, "rb") as f:
            raw = f.read()
        d = dict(detail, file=os.path.relpath(path, root), file_bytes=len(raw))
        payload = raw
        if codec != "none":
            if raw[:len(c.CODEC_MAGIC[codec])] != c.CODEC_MAGIC[codec]:
                ctx.violation(None, "%s: a file does not start with the magic of its codec extension" % what, detail=dict(d, leading=raw[:8].hex()))
                ok = False
            try:
                payload = c.independent_decompress(codec, raw)
                ctx.event("independent_decompress_ok:" + codec)
            except Exception as e:  # noqa: BLE001
                ctx.violation(None, "%s: after close() an independent decompressor rejects a file (incomplete %s stream)" % (what, codec),
                              detail=dict(d, exception=repr(e)[:300]))
                ok = False
                payload = None
            good, msg = c.cli_test(ctx, codec, path)
            if good is False:
                ctx.violation(None, "%s: after close() the codec's command line tool rejects a file" % what, detail=dict(d, stderr=msg))
                ok = False
        if payload is not None and c.STREAM_MAGIC not in payload[:19]:
            ctx.violation(None, "%s: a file does not hold a record stream" % what, detail=dict(d, leading=payload[:24].hex()))
            ok = False
        rd, got, err = c.drain(lambda: RecordReader(path))
        if err is not None:
            ctx.violation(None, "%s: reading a file raised %s" % (what, type(err).__name__), detail=dict(d, exception=repr(err)[:300]))
            ok = False
        seen.extend(int(r.n) for r in got)
        ctx.event("template_writer_files")
    if sorted(seen) != list(range(len(records))):
        ctx.violation(None, "%s: the files together do not hold every record exactly once" % what, detail=dict(detail, seen=sorted(seen)[:40], files=len(files)))
        ok = False
    del writer
    shutil.rmtree(root, ignore_errors=True)
    if ok:
        ctx.cell("template-writer", codec, cls_name, shape)
    ctx.nontrivial("template-writer", codec, cls_name, shape, case["s"])
