"""More ways of naming / handing over a source for C11 (helper module of verif/checks/c11.py):

* pipe-path   a PATH that names a non-rewindable object: /dev/fd/N of a pipe (in-process), /dev/stdin of a child process, a
              FIFO made with os.mkfifo that a feeder thread writes into while a child process reads it by path
* turnover    handle turn-over inside one process: one long-lived handle re-used with new content (truncate + rewrite +
              seek(0)) and many short-lived handles opened / read / dropped with alternating codecs, through RecordReader
              (fileobj=...) AND the low-level public entry points StreamReader(fh) / AvroReader(fh) /
              open_path_or_stream(fh, 'rb')
* names       hostile-but-legal file names (brackets, '#', '?', '%41', spaces, ':', '@', leading '-', unicode, trailing dot,
              names that look like URIs) given relative to the cwd, absolute, and behind an explicit scheme, for write AND
              read: what lands on disk must be the container the extension / scheme names, and it must read back; or the
              name is refused consistently (write and read both raise)
"""
from __future__ import annotations

import errno
import fcntl
import gc
import io
import json
import os
import random
import struct
import subprocess
import sys
import termios
import threading
import time

from . import observe

PIPE_FORMS = ("devfd", "devstdin", "fifo")
NAME_STEMS = ("dump[1]", "x[2024]", "[a]", "a#b", "q?x", "%41", "with space", "a:b", "u@h", "-lead", "ünï-日本", "trail.", "http:x", "C:x",
              "a;b", "a&b=c", "[::1]", "a[b", "dot.dot", "..hidden", "a+b", "stream+x", "avro", "x.avro.y", "%2e%2e", "a\\b", "tab\there")
NAME_EXTS = (".avro", ".records", ".jsonl", ".json", ".csv", ".records.gz", "")
NAME_FORMS = ("relative", "absolute", "scheme-relative", "scheme-absolute")
EXT_CONTAINER = {".avro": "avro", ".jsonl": "json", ".json": "json", ".csv": "csv"}
CONTAINER_SCHEME = {"avro": "avro", "json": "jsonfile", "csv": "csvfile", "stream": "stream"}


def _c11():
    from .checks import c11

    return c11


# ---- a path that names a pipe -----------------------------------------------------------------------------------------
def _feed_fd(wfd, data):
    try:
        view = memoryview(data)
        while view:
            n = os.write(wfd, view[:65536])
            view = view[n:]
    except OSError:
        pass
    finally:
        try:
            os.close(wfd)
        except OSError:
            pass


def _feed_fifo(path, data, proc):
    """Writer side of a FIFO: waits for a reader, writes everything, keeps the write end open until the pipe is drained (a
    reader that opened the path, closed it and opens it again still finds a writer and the unread bytes), then closes."""
    fd = None
    while proc.poll() is None:
        try:
            fd = os.open(path, os.O_WRONLY | os.O_NONBLOCK)
            break
        except OSError as e:
            if e.errno != errno.ENXIO:
                return
            time.sleep(0.005)
    if fd is None:
        return
    try:
        os.set_blocking(fd, True)
        view = memoryview(data)
        while view and proc.poll() is None:
            try:
                n = os.write(fd, view[:32768])
                view = view[n:]
            except BrokenPipeError:
                time.sleep(0.005)  # no reader at this moment
        while proc.poll() is None:
            try:
                pending = struct.unpack("i", fcntl.ioctl(fd, termios.FIONREAD, struct.pack("i", 0)))[0]
            except OSError:
                break
            if pending == 0:
                break
            time.sleep(0.005)
    finally:
        os.close(fd)


def execute_pipe_path(ctx, case):
    from flow.record import RecordReader, RecordWriter

    c = _c11()
    codec, container, form = case["codec"], case["container"], case["form"]
    rng = random.Random(case["s"])
    records = c.sized_records(container, case["s"] + 3, rng.choice([3, 40, 400] if ctx.quick else [40, 400, 3000]))
    ctx.ev()
    before = [observe.normalise(observe.obs(r)) for r in records]
    path, url = c.cell_path(ctx, codec, container, "pp")
    w = RecordWriter(url)
    try:
        for r in records:
            w.write(r)
    finally:
        w.flush()
        w.close()
    with open(path, "rb") as f:
        data = f.read()
    c._rm(path)
    prefix = "avro://" if container == "avro" else ("stream://" if rng.random() < 0.5 else "")
    detail = {"codec": codec, "container": container, "form": form, "records": len(records), "bytes": len(data)}
    what = "path naming a pipe (%s)" % {"devfd": "/dev/fd/N", "devstdin": "/dev/stdin in a child", "fifo": "os.mkfifo, read by a child"}[form]
    ctx.state["pipe_path_cases"] = ctx.state.get("pipe_path_cases", 0) + 1
    if form == "devfd":
        if not os.path.isdir("/dev/fd"):
            ctx.event("pipe_path_skipped:no-/dev/fd")
            ctx.state["pipe_path_cases"] -= 1
            return
        rfd, wfd = os.pipe()
        t = threading.Thread(target=_feed_fd, args=(wfd, data), daemon=True)
        t.start()
        src = "%s/dev/fd/%d" % (prefix, rfd)
        detail["source"] = "%s/dev/fd/N" % prefix
        try:
            rd, got, err = c.drain(lambda: RecordReader(src))
        finally:
            try:
                os.close(rfd)
            except OSError:
                pass
            t.join(10)
        ctx.event("pipe_path:" + form)
        if err is not None:
            ctx.violation(None, "%s: reading raised %s" % (what, type(err).__name__),
                          detail=dict(detail, exception=repr(err)[:300], records_before_error=len(got)))
        else:
            if not c.reader_class_ok(rd, container):
                ctx.violation(None, "%s: RecordReader returned %s" % (what, type(rd).__name__), detail=detail)
            if c.compare(ctx, container, records, before, got, what, detail):
                ctx.cell("pipe-path", codec, container, form)
        ctx.nontrivial("pipe-path", codec, container, form, case["s"])
        return
    out = c.tmp_name(ctx, "pp-out", ".records")
    fifo = None
    try:
        if form == "devstdin":
            src = prefix + "/dev/stdin"
            argv = [sys.executable, "-c", c.WORKER, src, out]
            p = subprocess.run(argv, input=data, stdout=subprocess.PIPE, stderr=subprocess.PIPE, timeout=600, env=ctx.state["env"], cwd=ctx.state["tmp"])
            rc, stdout, stderr = p.returncode, p.stdout, p.stderr
        else:
            fifo = c.tmp_name(ctx, "fifo", "" if rng.random() < 0.7 else ".bin")
            os.mkfifo(fifo)
            src = prefix + fifo
            argv = [sys.executable, "-c", c.WORKER, src, out]
            proc = subprocess.Popen(argv, stdin=subprocess.DEVNULL, stdout=subprocess.PIPE, stderr=subprocess.PIPE, env=ctx.state["env"], cwd=ctx.state["tmp"])
            t = threading.Thread(target=_feed_fifo, args=(fifo, data, proc), daemon=True)
            t.start()
            try:
                stdout, stderr = proc.communicate(timeout=180)
            except subprocess.TimeoutExpired:
                proc.kill()
                proc.communicate()
                t.join(10)
                raise
            t.join(10)
            rc = proc.returncode
    except subprocess.TimeoutExpired:
        ctx.require(False, "a child reading a pipe named by path did not finish (watchdog)")
        ctx.event("pipe_path_timeout:" + form)
        c._rm(out)
        return
    finally:
        if fifo:
            c._rm(fifo)
    detail["source"] = src.replace(ctx.state["tmp"], "<tmp>")
    ctx.event("pipe_path:" + form)
    stdout, stderr = stdout.decode("utf-8", "replace"), stderr.decode("utf-8", "replace")
    d2 = dict(detail, returncode=rc, stderr=stderr[-600:])
    if rc != 0 or not os.path.exists(out):
        ctx.violation(None, "%s: reading failed" % what, detail=d2)
    else:
        if stdout.split(" ")[0] != ("AvroReader" if container == "avro" else "StreamReader"):
            ctx.violation(None, "%s: RecordReader returned %s" % (what, stdout.split(" ")[0]), detail=d2)
        rd, got, err = c.drain(lambda: RecordReader(out))
        if err is not None:
            ctx.violation(None, "%s: the stream the child wrote cannot be read" % what, detail=dict(d2, exception=repr(err)[:300]))
        elif c.compare(ctx, container, records, before, got, what, d2):
            ctx.cell("pipe-path", codec, container, form)
    c._rm(out)
    ctx.nontrivial("pipe-path", codec, container, form, case["s"])


# ---- handle turn-over ----------------------------------------------------------------------------------------------------
ENTRIES = {"stream": ("RecordReader", "StreamReader", "open_path_or_stream"), "avro": ("RecordReader", "AvroReader")}


def _read_through(entry, fh, container):
    """Read every record from the open binary handle `fh` through one public entry point (the reader is NOT closed: the
    caller owns the handle)."""
    import flow.record as fr

    if entry == "RecordReader":
        rd = fr.RecordReader(fileobj=fh)
        return list(rd)
    if entry == "StreamReader":
        from flow.record.adapter.stream import StreamReader

        return list(StreamReader(fh))
    if entry == "AvroReader":
        from flow.record.adapter.avro import AvroReader

        return list(AvroReader(fh))
    fp = fr.open_path_or_stream(fh, "rb")
    return list(fr.RecordStreamReader(fp))


def execute_turnover(ctx, case):
    from flow.record import RecordWriter

    c = _c11()
    container = case["container"]
    rng = random.Random(case["s"])
    ctx.ev()
    blobs = {}
    for codec in ("none", "gz", "bz2", "lz4", "zst"):
        recs = c.sized_records(container, case["s"] + 17 * (1 + len(blobs)), rng.choice([2, 9, 60]))
        path, url = c.cell_path(ctx, codec, container, "to")
        w = RecordWriter(url)
        try:
            for r in recs:
                w.write(r)
        finally:
            w.flush()
            w.close()
        with open(path, "rb") as f:
            blobs[codec] = (f.read(), recs, [observe.normalise(observe.obs(r)) for r in recs], path)
    entries = ENTRIES[container]
    detail = {"container": container, "history": case["history"]}
    ok = True

    def step(i, codec, entry, fh, how):
        nonlocal ok
        data, recs, before, _ = blobs[codec]
        what = "handle turn-over (%s)" % how
        d = dict(detail, step=i, codec=codec, entry=entry)
        try:
            got = _read_through(entry, fh, container)
        except Exception as e:  # noqa: BLE001
            ctx.violation(None, "%s: %s on an open handle raised %s" % (what, entry, type(e).__name__), detail=dict(d, exception=repr(e)[:300]))
            ok = False
            return
        ctx.event("turnover_reads:%s" % entry)
        if not c.compare(ctx, container, recs, before, got, "%s via %s" % (what, entry), d):
            ok = False

    if case["history"] == "reused-handle":
        # one long-lived handle whose content is replaced: truncate + rewrite + seek(0)
        path = c.tmp_name(ctx, "reused", ".bin")
        fh = open(path, "w+b")
        try:
            plan = [("none", "RecordReader")]
            for i in range(ctx.scale(10, 30)):
                plan.append((rng.choice(("gz", "bz2", "lz4", "zst", "none")), rng.choice(entries)))
            for i, (codec, entry) in enumerate(plan):
                fh.seek(0)
                fh.truncate()
                fh.write(blobs[codec][0])
                fh.flush()
                fh.seek(0)
                step(i, codec, entry, fh, "one handle re-used with new content")
                if fh.closed:  # a reader closed the caller's handle: take a new one (also a turn-over)
                    fh = open(path, "w+b")
        finally:
            try:
                fh.close()
            except Exception:
                pass
            c._rm(path)
    else:
        # many short-lived handles: open, read, drop - alternating a plain source through RecordReader (which selects the
        # adapter by sniffing) with a compressed source handed to a low-level entry point
        for i in range(ctx.scale(40, 120)):
            codec = "none" if i % 2 == 0 else rng.choice(("gz", "bz2", "lz4", "zst"))
            entry = "RecordReader" if (i % 2 == 0 or rng.random() < 0.2) else rng.choice(entries[1:])
            kind = rng.choice(("file", "bytesio"))
            fh = open(blobs[codec][3], "rb") if kind == "file" else io.BytesIO(blobs[codec][0])
            step(i, codec, entry, fh, "short-lived handles")
            try:
                fh.close()
            except Exception:
                pass
            del fh
            if i % 7 == 0:
                gc.collect()
    for _, _, _, path in blobs.values():
        c._rm(path)
    if ok:
        ctx.cell("turnover", container, case["history"])
    ctx.event("turnover_histories")
    ctx.nontrivial("turnover", container, case["history"], case["s"])


# ---- hostile but legal file names ------------------------------------------------------------------------------------
def _sniff_container(raw):
    """What is in a file, by the format magics (after one layer of gzip): 'avro' | 'stream' | 'json' | 'csv' | 'empty' | hex."""
    codec = None
    if raw[:2] == b"\x1f\x8b":
        import zlib

        try:
            raw = zlib.decompressobj(wbits=31).decompress(raw)
            codec = "gz"
        except Exception:  # noqa: BLE001
            return "broken-gz", "gz"
    if not raw:
        return "empty", codec
    if raw[:4] == b"Obj\x01":
        return "avro", codec
    if b"RECORDSTREAM\n" in raw[:19]:
        return "stream", codec
    first = raw.split(b"\n", 1)[0]
    try:
        if isinstance(json.loads(first.decode("utf-8")), dict):
            return "json", codec
    except Exception:  # noqa: BLE001
        pass
    try:
        text = first.decode("utf-8")
        if "," in text and all(ch.isprintable() or ch in "\r" for ch in text):
            return "csv", codec
    except Exception:  # noqa: BLE001
        pass
    return "other:" + raw[:12].hex(), codec


def execute_names(ctx, case):
    from flow.record import RecordDescriptor, RecordReader, RecordWriter

    c = _c11()
    stem, ext, form = case["stem"], case["ext"], case["form"]
    name = stem + ext
    rng = random.Random(case["s"])
    desc = RecordDescriptor("names/test", [("string", "s"), ("varint", "v")])
    records = [desc.recordType(s="value-%d-%s" % (i, rng.choice(["a", "b b", "ü"])), v=rng.randint(-999, 999)) for i in range(rng.choice([1, 2, 5]))]
    ctx.ev()
    container = EXT_CONTAINER.get(os.path.splitext(name)[1], "stream")
    workdir = c.tmp_name(ctx, "names", ".d")
    os.mkdir(workdir)
    if form == "relative":
        url = name
    elif form == "absolute":
        url = os.path.join(workdir, name)
    elif form == "scheme-relative":
        url = CONTAINER_SCHEME[container] + "://" + name
    else:
        url = CONTAINER_SCHEME[container] + "://" + os.path.join(workdir, name)
    detail = {"name": name, "form": form, "url": url.replace(workdir, "<dir>"), "expected_container": container}
    want_reader = {"avro": "AvroReader", "stream": "StreamReader", "json": "JsonfileReader", "csv": "CsvfileReader"}[container]
    old_cwd = os.getcwd()
    os.chdir(workdir)
    try:
        werr = None
        try:
            w = RecordWriter(url)
            try:
                for r in records:
                    w.write(r)
            finally:
                w.flush()
                w.close()
        except Exception as e:  # noqa: BLE001
            werr = e
        created = {}
        for fn in os.listdir(workdir):
            with open(os.path.join(workdir, fn), "rb") as f:
                created[fn] = _sniff_container(f.read())
        detail["created"] = {k: list(v) for k, v in created.items()}
        rd, got, rerr = c.drain(lambda: RecordReader(url))
        if werr is not None:
            # refused: consistently (reading the name is refused too, or finds nothing) and nothing of another container is left
            ctx.event("names_refused:" + type(werr).__name__)
            bad = {k: v for k, v in created.items() if v[0] not in ("empty", container)}
            if bad:
                ctx.violation(None, "a refused file name left a file of another container behind", detail=dict(detail, exception=repr(werr)[:200]))
            if rerr is None and got:
                ctx.violation(None, "a file name refused for writing yields records when read", detail=dict(detail, records=len(got)))
            # a real file of that container under the literal name: reading is refused too, or returns its records - never
            # something else
            _read_planted(ctx, c, workdir, name, url, container, want_reader, records, desc, detail)
            ctx.cell("names", "refused", form)
        else:
            ctx.event("names_written")
            wrong = {k: v for k, v in created.items() if v[0] != container}
            if not created:
                ctx.violation(None, "writing under a hostile file name succeeded but created no file", detail=detail)
            elif wrong:
                ctx.violation(None, "the file written under a hostile name does not hold the container its extension / scheme names",
                              detail=detail)
            elif name in created and ext.endswith(".gz") and created[name][1] != "gz":
                ctx.violation(None, "the file written under a hostile .gz name is not gzip compressed", detail=detail)
            if rerr is not None:
                ctx.violation(None, "a file name accepted for writing is refused for reading (%s)" % type(rerr).__name__,
                              detail=dict(detail, exception=repr(rerr)[:300]))
            else:
                if type(rd).__name__ != want_reader:
                    ctx.violation(None, "reading a hostile file name: RecordReader returned %s" % type(rd).__name__, detail=detail)
                same = len(got) == len(records) and all(str.__str__(getattr(b, "s", "")) == str.__str__(a.s) for a, b in zip(records, got))
                if same and container != "csv":
                    same = all(int(getattr(b, "v")) == int(a.v) for a, b in zip(records, got))
                if not same:
                    ctx.violation(None, "records written under a hostile file name do not read back", detail=dict(detail, read=len(got)))
                elif not wrong and created:
                    ctx.cell("names", "written", form)
    finally:
        os.chdir(old_cwd)
        import shutil

        shutil.rmtree(workdir, ignore_errors=True)
    ctx.nontrivial("names", stem, ext, form)
    ctx.sample({"case": case, "url": detail["url"], "created": detail.get("created")}, kind="names:" + form)


def _read_planted(ctx, c, workdir, name, url, container, want_reader, records, desc, detail):
    """The name was refused for writing.  Plant a genuine file of the expected container under the literal name and read the
    same URL: a refusal or the planted records through the right reader - never records through another reader / junk."""
    from flow.record import RecordReader, RecordWriter

    target = os.path.join(workdir, name)
    if os.path.exists(target) or container not in ("avro", "stream"):
        return
    plain = os.path.join(workdir, "planted" + (".avro" if container == "avro" else ".records"))
    w = RecordWriter(plain)
    try:
        for r in records:
            w.write(r)
    finally:
        w.flush()
        w.close()
    try:
        os.rename(plain, target)
    except OSError:
        return
    rd, got, err = c.drain(lambda: RecordReader(url))
    ctx.event("names_planted_reads")
    if err is None:
        if type(rd).__name__ != want_reader or len(got) != len(records) or any(str.__str__(b.s) != str.__str__(a.s) for a, b in zip(records, got)):
            ctx.violation(None, "a genuine %s file under a hostile name is read through %s / differently" % (container, type(rd).__name__),
                          detail=dict(detail, read=len(got)))
    elif got:
        ctx.violation(None, "a genuine file under a hostile name yields records and then fails", detail=dict(detail, read=len(got)))
