"""Cold-process evaluation for C10: match every expression over the same record pool in a given order, in a fresh
interpreter, so that process-wide hidden state (module-level caches of a helper, class attributes) starts empty.

stdin: JSON {"pool": seed, "order": "natural"|"reversed"|"rotated", "jobs": [[engine, expr], ...]}
stdout: JSON {"outcomes": [[[kind, value], ... per record in pool index order] ... per job]}
"""
from __future__ import annotations

import json
import random
import sys

import verif.cli  # noqa: F401 - puts $VERIF_REPO in front of sys.path exactly like the check itself


def main():
    from verif.checks import c10

    req = json.load(sys.stdin)
    import flow.record.selector as selector

    rng = random.Random(req["pool"])
    pool = c10.build_pool(rng)
    n = len(pool)
    if req["order"] == "natural":
        order = list(range(n))
    elif req["order"] == "reversed":
        order = list(reversed(range(n)))
    else:
        order = [(j + n // 2) % n for j in range(n)]
    # the selectors are evaluated in a different order as well (S1 then S2 vs S2 then S1): process-wide state keyed by what a
    # selector evaluates (constructor arguments, selector text) is filled by a different selector first
    jobs = list(enumerate(req["jobs"]))
    if req["order"] == "reversed":
        jobs.reverse()
    elif req["order"] == "rotated":
        k = len(jobs) // 3
        jobs = jobs[k:] + jobs[:k]
    out = [None] * len(jobs)
    for j, (engine, expr) in jobs:
        cls = selector.Selector if engine == "interpreted" else selector.CompiledSelector
        res = [None] * n
        try:
            sel = cls(expr)
        except Exception as e:  # noqa: BLE001
            out[j] = [["ctor-exc", type(e).__name__]] * n
            continue
        for i in order:
            res[i] = list(c10.outcome_of(lambda: sel.match(pool[i])))
        out[j] = res
    json.dump({"outcomes": out}, sys.stdout)


if __name__ == "__main__":
    main()
