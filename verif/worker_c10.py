"""Cold-process evaluation for C10: match every expression over the same record pool in a given order, in a fresh
interpreter, so that process-wide hidden state (module-level caches of a helper, class attributes) starts empty.

stdin: JSON {"pool": seed, "order": "natural"|"reversed"|"rotated", "jobs": [[engine, expr], ...]}
stdout: JSON {"outcomes": [[[kind, value], ... per record in pool index order] ... per job]}
"""
from __future__ import annotations

import json
import random
import sys

import verif.cli  # noqa: F401 - puts $VERIF_REPO in front of sys.path exactly like the check itself


def main():
    from verif.checks import c10

    req = json.load(sys.stdin)
    import flow.record.selector as selector

    rng = random.Random(req["pool"])
    pool = c10.build_pool(rng)
    n = len(pool)
    if req["order"] == "natural":
        order = list(range(n))
    elif req["order"] == "reversed":
        order = list(reversed(range(n)))
    else:
        order = [(j + n // 2) % n for j in range(n)]
    out = []
    for engine, expr in req["jobs"]:
        cls = selector.Selector if engine == "interpreted" else selector.CompiledSelector
        res = [None] * n
        try:
            sel = cls(expr)
        except Exception as e:  # noqa: BLE001
            out.append([["ctor-exc", type(e).__name__]] * n)
            continue
        for i in order:
            res[i] = list(c10.outcome_of(lambda: sel.match(pool[i])))
        out.append(res)
    json.dump({"outcomes": out}, sys.stdout)


if __name__ == "__main__":
    main()
