"""Child interpreter of C19 (run as `python [flags] <this file> <repo> <verif dir>`, job as JSON on stdin, summary as JSON on
stdout).  The parent starts it with -O / -OO / PYTHONOPTIMIZE=1|2: the refusal workloads (second record type, unmapped type,
grouped, field-less, out-of-range values) must behave exactly as in the parent - the oracle is the same c19.execute().

job = {"cases": [recipe, ...], "tier": "quick"|"thorough", "seed": N}
out = {"summary": core.Ctx.summary(), "optimize": sys.flags.optimize, "flow_record": directory}
"""
from __future__ import annotations

import json
import os
import sys
import traceback


def main():
    repo, verif_dir = sys.argv[1], sys.argv[2]
    if verif_dir not in sys.path:
        sys.path.insert(0, verif_dir)
    if os.path.realpath(repo) != "/repo":
        sys.path.insert(0, repo)  # scratch copy of a mutant run
    import warnings

    warnings.simplefilter("ignore")
    job = json.load(sys.stdin)

    import flow.record

    from verif import core
    from verif.checks import c19

    ctx = core.Ctx("C19", job["tier"], job["seed"], 0, 1)
    c19.setup(ctx)
    try:
        for case in job["cases"]:
            ctx.current_case = case
            try:
                c19.execute(ctx, case)
            except Exception as e:  # noqa: BLE001
                ctx.violation(None, "unexpected %s escaped the harness" % type(e).__name__,
                              detail={"exception": repr(e)[:500], "traceback": traceback.format_exc()[-2000:]}, case=case)
    finally:
        c19.teardown(ctx)
    s = ctx.summary()
    s["fingerprints"] = len(s["fingerprints"])
    json.dump({"summary": s, "optimize": sys.flags.optimize, "flow_record": os.path.dirname(flow.record.__file__)}, sys.stdout, default=str)


if __name__ == "__main__":
    main()
