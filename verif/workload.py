"""Record-sequence workloads shared by the stream checks (C01, C02, C03, C04, C10, C11, C16 ...)."""
from __future__ import annotations

import random

from . import gen


def build_sequence(seed, thorough=False, focus=None, n_records=None, n_descs=None, grouped=True, nested=True, types=None,
                   small=False):
    """Deterministically build a list of records mixing several descriptors.

    focus = (field type, value class): the first descriptor has a field of that type and the first record
    carries a value of that class in it."""
    rng = random.Random(seed)
    del SPECS[:]
    pool = types
    if pool is None and not nested:
        pool = [t for t in gen.ALL_FIELD_TYPES if not t.startswith("record")]
    b = gen.Builder(rng, thorough=thorough, max_depth=2 if nested else 0, types=pool)
    n_descs = n_descs or rng.choice([1, 1, 2, 3, 5])
    descs = []
    for i in range(n_descs):
        must = [focus[0]] if (focus and i == 0) else []
        nf = rng.choice([0, 1, 2, 3, 4, 6] if small else [0, 1, 2, 3, 4, 6, 9, 12])
        descs.append(b.descriptor(must=must, nfields=max(nf, len(must)), types=pool))
    # name twins: a second type whose name differs only in '/' versus '_' (same generated class name) with the SAME fields
    if not focus and descs and rng.random() < 0.15:
        from flow.record import RecordDescriptor

        d0 = rng.choice(descs)
        if "/" in d0.name:
            parts = d0.name.split("/")
            k = rng.randrange(len(parts) - 1)
            twin = "/".join(parts[:k] + [parts[k] + "_" + parts[k + 1]] + parts[k + 2:])
            descs.append(RecordDescriptor(twin, list(d0.get_field_tuples())))
    n_records = n_records if n_records is not None else rng.choice([1, 2, 3, 5, 8, 13, 21, 40])
    records = []
    for j in range(n_records):
        d = descs[0] if (focus and j == 0) else rng.choice(descs)
        f = None
        if focus and j == 0:
            fname = next(n for t, n in d.get_field_tuples() if t == focus[0])
            f = {fname: focus[1]}
        if grouped and not f and rng.random() < 0.08:
            records.append(b.grouped())
            SPECS.append(None)
        else:
            records.append(b.record(d, focus=f))
            # what the record was created from, taken from the descriptor object itself (not through the record)
            SPECS.append([str(d.name), [[str(t), str(n)] for t, n in d.get_field_tuples()]])
    return records


SPECS = []  # per record of the last build_sequence call: [name, fields] it was created with (None for grouped records)


def last_specs():
    return list(SPECS)


def coincident_pairs():
    """Pairs of different descriptors with the same name AND the same 32-bit identifier hash.  The hash input is the
    plain concatenation name + (fieldname + fieldtype)..., so moving characters between a type and the next name keeps it."""
    from flow.record import RecordDescriptor

    out = []
    for name, fa, fb in (
        ("co/one", [("string", "a"), ("string", "varintq")], [("varint", "astring"), ("string", "q")]),
        ("co/two", [("stringlist", "a"), ("string", "b")], [("string", "a"), ("string", "listb")]),
        ("co/three", [("uint16", "x"), ("string", "y")], [("string", "xuint16y")]),
        ("co/four", [("wstring", "a")], [("string", "aw")]),
    ):
        A, B = RecordDescriptor(name, fa), RecordDescriptor(name, fb)
        if A.identifier == B.identifier and A.get_field_tuples() != B.get_field_tuples():
            out.append((A, B))
    return out


def coincident_sequence(seed, n=None):
    """Records of identifier-coincident types, interleaved (A, B, A, B ... in random order)."""
    rng = random.Random(seed)
    pairs = coincident_pairs()
    b = gen.Builder(rng)
    A, B = rng.choice(pairs)
    n = n or rng.randint(2, 8)
    del SPECS[:]
    recs = []
    for j in range(n):
        d = (A, B)[j % 2] if rng.random() < 0.7 else rng.choice((A, B))
        recs.append(b.record(d))
        SPECS.append([str(d.name), [[str(t), str(x)] for t, x in d.get_field_tuples()]])
    return recs


def describe(records, limit=6):
    """Short human-readable rendering of a sequence for evidence samples (never raises)."""
    out = []
    for r in records[:limit]:
        try:
            s = repr(r)
        except Exception as e:
            s = "<%s: repr raised %s>" % (getattr(getattr(r, "_desc", None), "name", "?"), type(e).__name__)
        out.append(s if len(s) < 300 else s[:300] + "...")
    if len(records) > limit:
        out.append("... %d records in total" % len(records))
    return out
