"""Record-sequence workloads shared by the stream checks (C01, C02, C03, C04, C10, C11, C16 ...)."""
from __future__ import annotations

import random

from . import gen


def build_sequence(seed, thorough=False, focus=None, n_records=None, n_descs=None, grouped=True, nested=True, types=None,
                   small=False):
    """Deterministically build a list of records mixing several descriptors.

    focus = (field type, value class): the first descriptor has a field of that type and the first record
    carries a value of that class in it."""
    rng = random.Random(seed)
    pool = types
    if pool is None and not nested:
        pool = [t for t in gen.ALL_FIELD_TYPES if not t.startswith("record")]
    b = gen.Builder(rng, thorough=thorough, max_depth=2 if nested else 0, types=pool)
    n_descs = n_descs or rng.choice([1, 1, 2, 3, 5])
    descs = []
    for i in range(n_descs):
        must = [focus[0]] if (focus and i == 0) else []
        nf = rng.choice([0, 1, 2, 3, 4, 6] if small else [0, 1, 2, 3, 4, 6, 9, 12])
        descs.append(b.descriptor(must=must, nfields=max(nf, len(must)), types=pool))
    n_records = n_records if n_records is not None else rng.choice([1, 2, 3, 5, 8, 13, 21, 40])
    records = []
    for j in range(n_records):
        d = descs[0] if (focus and j == 0) else rng.choice(descs)
        f = None
        if focus and j == 0:
            fname = next(n for t, n in d.get_field_tuples() if t == focus[0])
            f = {fname: focus[1]}
        if grouped and not f and rng.random() < 0.08:
            records.append(b.grouped())
        else:
            records.append(b.record(d, focus=f))
    return records


def describe(records, limit=6):
    """Short human-readable rendering of a sequence for evidence samples (never raises)."""
    out = []
    for r in records[:limit]:
        try:
            s = repr(r)
        except Exception as e:
            s = "<%s: repr raised %s>" % (getattr(getattr(r, "_desc", None), "name", "?"), type(e).__name__)
        out.append(s if len(s) < 300 else s[:300] + "...")
    if len(records) > limit:
        out.append("... %d records in total" % len(records))
    return out
