"""Recording and fault-injecting file objects (DESIGN 3.5)."""
from __future__ import annotations

import io
import zlib


class TeeFile(io.RawIOBase):
    """Write-only file object recording every write() call (index, length) and the bytes."""

    def __init__(self):
        super().__init__()
        self.buf = bytearray()
        self.calls = []  # (offset_before, length)
        self.flushes = 0
        self.closed_by_writer = False

    def writable(self):
        return True

    def write(self, b):
        b = bytes(b)
        pos = len(self.buf) if self.pos is None else self.pos
        self.calls.append((pos, len(b)))
        if pos >= len(self.buf):
            self.buf += b"\x00" * (pos - len(self.buf)) + b
        else:
            self.buf[pos : pos + len(b)] = b
        if self.pos is not None:
            self.pos = pos + len(b)
        return len(b)

    # A real file can be repositioned and cut: a writer that tries to 'repair' its output after a failure must be able
    # to do so here too (nothing in the unchanged library calls these; every use is counted).
    pos = None  # None = append mode (position follows the end)
    seeks = 0
    truncates = 0

    def seekable(self):
        return True

    def tell(self):
        return len(self.buf) if self.pos is None else self.pos

    def seek(self, offset, whence=0):
        self.seeks += 1
        base = {0: 0, 1: self.tell(), 2: len(self.buf)}[whence]
        self.pos = max(0, base + offset)
        return self.pos

    def truncate(self, size=None):
        self.truncates += 1
        size = self.tell() if size is None else size
        del self.buf[size:]
        return size

    def flush(self):
        self.flushes += 1

    def close(self):
        self.closed_by_writer = True  # stay usable: the harness owns the bytes

    def getvalue(self):
        return bytes(self.buf)


class InjectedFault(OSError):
    pass


class FaultFile(TeeFile):
    """Behaves like TeeFile until write call `k`, then:
    mode 'raise'        : raises OSError, nothing of that call is stored
    mode 'short'        : stores a strict prefix of the buffer (cut bytes) and raises OSError
    mode 'silent-short' : stores a strict prefix and returns the short count; every later write raises (the process
                          is considered crashed: the harness stops the writer at the next exception)"""

    def __init__(self, k, mode, cut=None):
        super().__init__()
        self.k = k
        self.mode = mode
        self.cut = cut
        self.fired = False
        self.dead = False

    def write(self, b):
        b = bytes(b)
        idx = len(self.calls)
        if self.dead:
            raise InjectedFault("write after crash")
        if idx == self.k and not self.fired:
            self.fired = True
            if self.mode == "raise":
                self.calls.append((self.tell(), 0))
                raise InjectedFault("injected write failure at call %d" % idx)
            n = (len(b) // 2) if self.cut is None else min(self.cut, max(len(b) - 1, 0))
            TeeFile.write(self, b[:n])
            if self.mode == "short":
                raise InjectedFault("injected short write at call %d (%d of %d bytes)" % (idx, n, len(b)))
            self.dead = True
            return n
        return super().write(b)


class RawReader(io.RawIOBase):
    """Unbuffered, non-peekable, non-seekable reader over a byte string; optionally returns short reads."""

    def __init__(self, data, chunk=None):
        super().__init__()
        self.data = bytes(data)
        self.pos = 0
        self.chunk = chunk

    def readable(self):
        return True

    def readinto(self, b):
        n = len(b)
        if self.chunk:
            n = min(n, self.chunk)
        piece = self.data[self.pos : self.pos + n]
        b[: len(piece)] = piece
        self.pos += len(piece)
        return len(piece)


def gzip_sync_stream(frames):
    """Compress a list of byte pieces into one gzip member, issuing a sync flush after each piece (as a writer that
    flushes after every record does).  -> (compressed bytes, [compressed offset after each piece's sync flush])."""
    import struct
    import time  # noqa: F401  (mtime fixed to 0 for determinism)

    co = zlib.compressobj(6, zlib.DEFLATED, -zlib.MAX_WBITS)
    out = bytearray(b"\x1f\x8b\x08\x00" + struct.pack("<I", 0) + b"\x02\xff")
    ends = []
    crc = 0
    size = 0
    for piece in frames:
        out += co.compress(piece)
        out += co.flush(zlib.Z_SYNC_FLUSH)
        crc = zlib.crc32(piece, crc)
        size += len(piece)
        ends.append(len(out))
    out += co.flush()
    out += struct.pack("<II", crc & 0xFFFFFFFF, size & 0xFFFFFFFF)
    return bytes(out), ends


def gzip_members(piece_lists):
    """Several gzip members back to back (a .gz file that later writers appended to, or parts joined with cat), each built
    like gzip_sync_stream."""
    return b"".join(gzip_sync_stream(pieces)[0] for pieces in piece_lists)


def gzip_decodable_prefix_multi(data):
    """gzip_decodable_prefix for a byte string of one or more members: the plain bytes of all complete members plus the
    decodable part of the last (possibly cut) one.  A member counts as complete when its 8-byte trailer is present."""
    out = bytearray()
    while data:
        plain, rest = _gzip_one_member(data)
        out += plain
        if rest is None:
            break
        data = rest
    return bytes(out)


def _gzip_one_member(data):
    """-> (plain bytes decodable from the first member, bytes after its trailer or None if the member is not complete)."""
    if len(data) < 10 or data[:2] != b"\x1f\x8b" or data[3] != 0:
        return b"", None
    do = zlib.decompressobj(-zlib.MAX_WBITS)
    out = bytearray()
    i = 10
    while i < len(data) and not do.eof:
        try:
            out += do.decompress(data[i : i + 1])
        except zlib.error:
            return bytes(out), None
        i += 1
    if not do.eof or len(data) - i < 8:
        return bytes(out), None
    return bytes(out), data[i + 8 :]


def gzip_decodable_prefix(data):
    """Independently decompress as much of a (possibly cut) gzip byte string as is decodable."""
    if len(data) < 10 or data[:2] != b"\x1f\x8b":
        return b""
    # skip the fixed 10-byte header (no optional fields are produced by gzip_sync_stream / GzipFile without name)
    flg = data[3]
    pos = 10
    if flg & 4:
        if len(data) < pos + 2:
            return b""
        xlen = int.from_bytes(data[pos : pos + 2], "little")
        pos += 2 + xlen
    if flg & 8:
        end = data.find(b"\x00", pos)
        if end < 0:
            return b""
        pos = end + 1
    if flg & 16:
        end = data.find(b"\x00", pos)
        if end < 0:
            return b""
        pos = end + 1
    if flg & 2:
        pos += 2
    do = zlib.decompressobj(-zlib.MAX_WBITS)
    try:
        return do.decompress(data[pos:])
    except zlib.error:
        # decode byte by byte to keep what is valid
        do = zlib.decompressobj(-zlib.MAX_WBITS)
        out = bytearray()
        for i in range(pos, len(data)):
            try:
                out += do.decompress(data[i : i + 1])
            except zlib.error:
                break
        return bytes(out)
