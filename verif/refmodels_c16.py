"""Reference pipeline of rdump (property C16):

    per source the intact prefix -> concatenation in argv order -> reference filter -> slice [skip : skip+count]
    -> metadata overrides -> projection (-F order, minus -X) -> per-timestamp expansion

Nothing here calls flow.record's reader, writer, selector engines, rewriter or rdump.  Records are carried as *entries*:
the observation (vocabulary of verif.observe.obs, decoded from the source bytes by the independent codec) plus the real
field values of the record the harness wrote (needed for the reference selector, which is defined over the record's real
values, and for the text form of a value, which is Python's own str()/repr() of it - value rendering is C20's subject).
Projection and expansion come from verif.refmodels_c15; the text layouts from verif.textmodel_c20.
"""
from __future__ import annotations

import ast
import json

from . import refcodec, refmodels_c15 as m15, refselector, textmodel_c20 as tm

META = ("_source", "_classification", "_generated", "_version")
META_TYPES = {"_source": "string", "_classification": "string", "_generated": "datetime", "_version": "varint"}


class CaseUndefined(Exception):
    """The selector is not defined on some record of the input: the case is outside the property's quantifier."""


class Entry:
    __slots__ = ("obs", "rec", "vals")

    def __init__(self, obs, rec, vals):
        self.obs = obs      # record observation
        self.rec = rec      # the real record the observation was taken from (None after a transformation)
        self.vals = vals    # slot -> real python value (for str()/repr() rendering)

    def names(self):
        """data field names (first occurrence only) followed by the metadata slots"""
        return [n for _, n in m15.fields_of(self.obs)] + list(META)

    def types(self):
        t = {n: ty for ty, n in m15.fields_of(self.obs)}
        t.update(META_TYPES)
        return t

    def type_key(self):
        return json.dumps([self.obs[1], self.obs[2]])


# ---- sources --------------------------------------------------------------------------------------
def intact_prefix(data: bytes):
    """Observations of the records whose frames are completely present in a plain (uncompressed) stream that may be cut
    at any byte.  A stream without a complete, valid header contributes nothing."""
    if data[: len(refcodec.HEADER_FRAME)] != refcodec.HEADER_FRAME:
        return []
    records, _, _ = refcodec.decode_prefix(data)
    return records


# ---- selector -------------------------------------------------------------------------------------
def risky_with_missing(expr: str) -> bool:
    """Operators whose result on a *missing* field operand is not the 'False' of C08 for at least one engine (known
    findings of C08, or identity tests, which the sentinel object cannot overload): 'not in', '!=', 'is', 'is not', and
    'in' with a right operand that is not a list/tuple display."""
    try:
        tree = ast.parse(expr, mode="eval")
    except SyntaxError:
        return True
    for n in ast.walk(tree):
        if isinstance(n, ast.Compare):
            for op, right in zip(n.ops, n.comparators):
                if isinstance(op, (ast.NotIn, ast.NotEq, ast.Is, ast.IsNot)):
                    return True
                if isinstance(op, ast.In) and not isinstance(right, (ast.List, ast.Tuple)):
                    return True
    return False


def reference_filter(expr, entries):
    """-> (kept entries, touched_missing).  Raises CaseUndefined when some sub-expression is undefined on some record."""
    kept = []
    touched = False
    for e in entries:
        try:
            m = refselector.ref_match(expr, e.rec, lenient=True)
        except (refselector.Undefined, refselector.Unsupported) as ex:
            raise CaseUndefined(str(ex)[:120])
        try:
            refselector.ref_match(expr, e.rec, lenient=False)
        except (refselector.Undefined, refselector.Unsupported):
            touched = True
        if m:
            kept.append(e)
    return kept, touched


# ---- pipeline -------------------------------------------------------------------------------------
def _text_obs(s):
    return ["str", "string", s]


def apply_options(entries, opts):
    """slice -> overrides -> projection -> expansion.  opts keys: skip, count, source, classification, fields, exclude,
    multi_timestamp (all optional).  -> (entries after the slice [for -l], final entries)"""
    skip = opts.get("skip") or 0
    count = opts.get("count")
    sliced = entries[skip : skip + count] if count else entries[skip:]
    projected = []
    for e in sliced:
        o = e.obs
        vals = dict(e.vals)
        changes = {}
        if opts.get("source") is not None:
            changes["_source"] = _text_obs(opts["source"])
            vals["_source"] = opts["source"]
        if opts.get("classification") is not None:
            changes["_classification"] = _text_obs(opts["classification"])
            vals["_classification"] = opts["classification"]
        if changes:
            o = m15.replace_fields(o, changes)
        o = m15.project(o, opts.get("fields") or [], opts.get("exclude") or [])
        projected.append(Entry(o, None, vals))
    if not opts.get("multi_timestamp"):
        return projected, projected
    final = []
    for e in projected:
        exp = m15.expand_timestamps(e.obs)
        if len(exp) == 1 and exp[0] is e.obs:
            final.append(e)
            continue
        for x in exp:
            vals = dict(e.vals)
            f = m15.values_of(x)["ts_description"][2]
            vals["ts"] = e.vals.get(f)
            vals["ts_description"] = f
            final.append(Entry(x, None, vals))
    return projected, final


def split_parts(entries, n):
    """How --split N distributes the written records over the part files (a trailing empty part is not listed)."""
    if not n:
        return [entries]
    return [entries[i : i + n] for i in range(0, len(entries), n)]


# ---- text layouts ---------------------------------------------------------------------------------
def value_alternatives(e, slot, empty_digest=None):
    """Real values whose text forms are all acceptable for this slot.  For typed-list (T[]) and digest fields an unset
    value and the type's empty default are one value by definition (property C01): a record that rdump rebuilt (projection,
    expansion) carries the empty default where the source record carried None."""
    t = e.types().get(slot, "")
    v = e.vals.get(slot)
    if t.endswith("[]") and (v is None or len(v) == 0):
        return [None, []]
    if t == "digest" and empty_digest is not None:
        if v is None or (getattr(v, "md5", 1) is None and getattr(v, "sha1", 1) is None and getattr(v, "sha256", 1) is None):
            return [None, empty_digest()]
    return [v]


def csv_cells(e, fields, exclude, empty_digest=None):
    """-> (selected names, [set of acceptable cell texts per selected name])"""
    sel = tm.select(e.names(), fields, exclude)
    return list(sel), [set(tm.cell_text(a) for a in value_alternatives(e, n, empty_digest)) for n in sel]


def line_items(e, fields, exclude, verbose, empty_digest=None):
    """[(key text, set of acceptable value texts)] of one block of the line writer"""
    sel = tm.select(e.names(), fields, exclude)
    types = e.types()
    return [("%s (%s)" % (n, types[n]) if verbose else n, set(str(a) for a in value_alternatives(e, n, empty_digest))) for n in sel]


def match_line_blocks(text, entries, fields, exclude, verbose, empty_digest=None):
    """The line writer's layout: '--[ RECORD n ]--' then one 'name = value' line per selected field, names right-aligned.
    -> None when `text` is exactly the blocks of `entries`, else a description of the first difference."""
    pos = 0
    for i, e in enumerate(entries):
        head = "--[ RECORD %d ]--\n" % (i + 1)
        if not text.startswith(head, pos):
            return {"block": i + 1, "why": "expected block header %r, found %r" % (head, text[pos : pos + 60])}
        pos += len(head)
        ends = set()
        for key, alts in line_items(e, fields, exclude, verbose, empty_digest):
            p = pos
            while p < len(text) and text[p] == " ":
                p += 1
            if not text.startswith(key + " = ", p):
                return {"block": i + 1, "why": "expected the line of field %r, found %r" % (key, text[pos : pos + 80])}
            q = p + len(key) + 3
            hit = None
            for a in sorted(alts, key=len, reverse=True):
                if text.startswith(a + "\n", q):
                    hit = a
                    break
            if hit is None:
                return {"block": i + 1, "why": "value of field %r: expected one of %r, found %r" % (key, sorted(x[:80] for x in alts), text[q : q + 80])}
            ends.add(p - pos + len(key))
            pos = q + len(hit) + 1
        if len(ends) > 1:
            return {"block": i + 1, "why": "names are not right-aligned (end columns %r)" % sorted(ends)}
    if text[pos:].strip():
        return {"why": "output continues after the last expected record", "rest": text[pos : pos + 200]}
    return None


def match_text_lines(text, entries, empty_digest=None):
    """The text writer prints repr(record): '<name field=repr(value) ...>' over the data fields, one line per record.
    -> None or a description of the first difference."""
    pos = 0
    for i, e in enumerate(entries):
        start = pos
        head = "<%s " % e.obs[1]
        if not text.startswith(head, pos):
            return {"record": i, "why": "expected %r, found %r" % (head, text[pos : pos + 80])}
        pos += len(head)
        names = [n for _, n in m15.fields_of(e.obs)]
        for j, n in enumerate(names):
            lead = ("" if j == 0 else " ") + n + "="
            if not text.startswith(lead, pos):
                return {"record": i, "why": "expected field %r at %r" % (n, text[pos : pos + 80]), "line_start": text[start : start + 120]}
            pos += len(lead)
            hit = None
            for a in sorted((repr(a) for a in value_alternatives(e, n, empty_digest)), key=len, reverse=True):
                if text.startswith(a, pos):
                    hit = a
                    break
            if hit is None:
                return {"record": i, "why": "value of field %r: found %r" % (n, text[pos : pos + 80]),
                        "expected_one_of": [repr(a)[:120] for a in value_alternatives(e, n, empty_digest)]}
            pos += len(hit)
        if not text.startswith(">\n", pos):
            return {"record": i, "why": "expected the end of the record's line, found %r" % text[pos : pos + 80]}
        pos += 2
    if text[pos:]:
        return {"why": "output continues after the last expected record", "rest": text[pos : pos + 200]}
    return None


def json_scalar_expectation(e):
    """For plain-JSON output: {slot: expected JSON value} for the slots whose type maps to a JSON scalar
    (text, integers, boolean, unset); other slots are checked for presence only."""
    out = {}
    types = e.types()
    for n in e.names():
        t = types[n]
        v = e.vals.get(n)
        if v is None:
            out[n] = None if not (t.endswith("[]") or t == "digest") else "<skip>"
        elif t in ("string", "wstring"):
            out[n] = str(v)
        elif t in ("varint", "filesize", "uint16", "uint32", "unix_file_mode"):
            out[n] = int(v)
        elif t == "boolean":
            out[n] = bool(v)
        else:
            out[n] = "<skip>"
    return out
