"""C05 worker: the bytes -> text conversion must not depend on the locale / interpreter text configuration.

Usage:  python -m verif.worker_c05        (run by verif/checks/c05.py under LC_ALL=C LANG=C PYTHONUTF8=0 PYTHONCOERCECLOCALE=0
                                           and under the default environment)

`sweep()` offers a fixed set of byte strings (valid UTF-8: accents, CJK, emoji; invalid: latin-1 bytes, lone continuation bytes,
an encoded surrogate; mixtures) to the text field types string, wstring, uri, to string[] elements and to _source, through
construction, assignment and _replace, and returns what the record holds afterwards as code points.  The same function runs in the
parent; the parent compares.  Prints ONE line `C05WORKER <json>`; nothing is decided here."""
from __future__ import annotations

import json
import os
import sys
import warnings

REPO = os.environ.get("VERIF_REPO", "/repo")
if os.path.realpath(REPO) != "/repo" or os.environ.get("VERIF_FORCE_PATH"):
    sys.path.insert(0, REPO)

warnings.simplefilter("ignore")

INPUTS = [
    "Rémy".encode("utf-8"), "日本語テキスト".encode("utf-8"), "\U0001f600\U0001d518".encode("utf-8"), b"plain ascii", b"",
    b"caf\xe9", b"\xff\xfe", b"\x80abc", b"\xed\xa0\x80", "ok-ü-".encode("utf-8") + b"\xfc" + "-€".encode("utf-8"), b"a\x00b", b"\xc3", b"\xf0\x9f\x98",
    "http://ünï.example/p?q=é".encode("utf-8"), b"http://example.com/a%20b",
]
TARGETS = [("string", "f"), ("wstring", "f"), ("uri", "f"), ("string[]", "f"), ("string", "_source")]
OPS = ("construct", "assign", "replace")


def sweep():
    """-> [[field type, slot, operation, input hex, "accepted" | "raised", code points or None]]"""
    from flow.record import RecordDescriptor

    out = []
    for ftype, slot in TARGETS:
        d = RecordDescriptor("c05/locale", [(ftype, "f"), ("varint", "n")])
        for op in OPS:
            for raw in INPUTS:
                value = [b"lead", raw] if ftype.endswith("[]") else raw
                try:
                    if op == "construct":
                        r = d.recordType(**{slot: value, "n": 1})
                    elif op == "assign":
                        r = d(n=1)
                        setattr(r, slot, value)
                    else:
                        r = d(n=1)._replace(**{slot: value})
                    v = getattr(r, slot)
                    if ftype.endswith("[]"):
                        v = v[-1]
                    res = ["accepted", [ord(c) for c in str.__str__(v)] if isinstance(v, str) else ["not-text", type(v).__name__]]
                except Exception:  # noqa: BLE001 - which exception is left open
                    res = ["raised", None]
                out.append([ftype, slot, op, raw.hex()] + res)
    return out


def main():
    import locale

    import flow.record

    info = {"fs_encoding": sys.getfilesystemencoding(), "preferred_encoding": locale.getpreferredencoding(False), "utf8_mode": sys.flags.utf8_mode,
            "default_encoding": sys.getdefaultencoding(), "env": {k: os.environ.get(k) for k in ("LC_ALL", "LANG", "PYTHONUTF8", "PYTHONCOERCECLOCALE")},
            "flow_record_file": flow.record.__file__}
    sys.stdout.write("C05WORKER " + json.dumps({"info": info, "sweep": sweep()}) + "\n")


if __name__ == "__main__":
    main()
