"""C13 worker: one process per (FLOW_RECORD_TZ, TZ) environment, because flow.record reads the display timezone at import
time.  Usage:  python -m verif.worker_c13 <seed> <n> <workdir>

Builds a deterministic record sequence (fixed `_generated`) from `n` model specs, writes it with the real writers to an
uncompressed stream, JSON lines, SQLite and Avro, reads every file back with the real readers, and prints ONE JSON
document: observations of the field values and of the values read back, SHA-256 of the stream / JSON bytes, of the
logical SQLite dump (taken through a plain sqlite3 connection) and of the logical Avro content (taken with fastavro
directly), the results of a fixed set of comparisons / sort orders / selector matches, and str() of a few values.
The parent (verif/checks/c13.py) compares these documents across environments and against the model; nothing is decided
here."""
from __future__ import annotations

import hashlib
import json
import os
import random
import sys
import time
import warnings

REPO = os.environ.get("VERIF_REPO", "/repo")
if os.path.realpath(REPO) != "/repo" or os.environ.get("VERIF_FORCE_PATH"):
    sys.path.insert(0, REPO)

warnings.simplefilter("ignore")

from verif import model_c13 as model  # noqa: E402


def guarded(fn):
    """Result of a comparison, or the exception class it raised (also an observation that must not depend on the setting)."""
    try:
        r = fn()
        return r if isinstance(r, (bool, int, str, list, type(None))) else repr(type(r))
    except Exception as e:  # noqa: BLE001
        return "raise:" + type(e).__name__


def sha(data: bytes) -> str:
    return hashlib.sha256(data).hexdigest()


def main(argv):
    seed, n, workdir = int(argv[0]), int(argv[1]), argv[2]
    deep = len(argv) > 3 and argv[3] == "deep"
    import flow.record.fieldtypes as ft
    from flow.record import RecordDescriptor, RecordReader, RecordWriter
    from flow.record.selector import CompiledSelector, Selector

    rng = random.Random(seed)
    specs = model.make_specs(rng, n, deep)
    GEN = "2024-01-02T03:04:05.000678+00:00"
    T = RecordDescriptor("verif/c13ts", [("datetime", "ts"), ("datetime", "ts2"), ("varint", "i"), ("string", "s")])
    L = RecordDescriptor("verif/c13list", [("datetime[]", "tl"), ("varint", "i")])

    out = {"errors": [], "n": n}
    records, values = [], []
    for i, sp in enumerate(specs):
        sp2 = specs[(i * 7 + 3) % n]
        try:
            r = T(ts=model.build(sp, ft), ts2=model.build(sp2, ft), i=i, s="row%d" % i, _generated=GEN, _source="c13")
        except Exception as e:  # noqa: BLE001 - reported to the parent, which decides
            out["errors"].append(["construct", i, type(e).__name__, repr(e)[:200]])
            r = T(i=i, s="row%d" % i, _generated=GEN, _source="c13")
        records.append(r)
        values.append(r.ts)
    out["field"] = [None if v is None else model.observe_dt(v) for v in values]
    out["field2"] = [None if r.ts2 is None else model.observe_dt(r.ts2) for r in records]
    out["field_is_datetime"] = all(v is None or isinstance(v, ft.datetime) for v in values)
    lrecords = []
    for j in range(0, n, 5):
        try:
            lrecords.append(L(tl=[model.build(sp, ft) for sp in specs[j:j + 5]], i=j, _generated=GEN))
        except Exception as e:  # noqa: BLE001
            out["errors"].append(["construct-list", j, type(e).__name__, repr(e)[:200]])

    # Avro holds one descriptor per file and normalises to UTC: only rows whose UTC instants are representable
    def representable(r):
        return all(v is None or model.utc_representable(model.observe_dt(v)) for v in (r.ts, r.ts2))

    avro_rows = [i for i, r in enumerate(records) if representable(r)]
    out["avro_rows"] = avro_rows

    targets = {
        "stream": (os.path.join(workdir, "w.records"), records + lrecords),
        "json": (os.path.join(workdir, "w.json"), records + lrecords),
        "sqlite": ("sqlite://" + os.path.join(workdir, "w.db"), records),
        "avro": ("avro://" + os.path.join(workdir, "w.avro"), [records[i] for i in avro_rows]),
    }
    out["sha"], out["read"], out["read_list"] = {}, {}, {}
    for fmt, (uri, recs) in targets.items():
        path = uri.split("://")[-1]
        try:
            w = RecordWriter(uri)
            for r in recs:
                w.write(r)
            w.flush()
            w.close()
        except Exception as e:  # noqa: BLE001
            out["errors"].append(["write", fmt, type(e).__name__, repr(e)[:200]])
            continue
        try:
            if fmt in ("stream", "json"):
                with open(path, "rb") as f:
                    out["sha"][fmt] = sha(f.read())
            elif fmt == "sqlite":
                import sqlite3

                con = sqlite3.connect(path)
                dump = []
                for (tname,) in con.execute("SELECT name FROM sqlite_master WHERE type='table' ORDER BY name").fetchall():
                    dump.append(["table", tname, [list(x) for x in con.execute('PRAGMA table_info("%s")' % tname).fetchall()]])
                    dump.append([list(x) for x in con.execute('SELECT * FROM "%s" ORDER BY rowid' % tname).fetchall()])
                con.close()
                out["sha"][fmt] = sha(json.dumps(dump, default=repr).encode())
            else:
                import fastavro

                with open(path, "rb") as f:
                    rd = fastavro.reader(f)
                    rows = [{k: (v.isoformat() if hasattr(v, "isoformat") else v) for k, v in row.items()} for row in rd]
                    out["sha"][fmt] = sha(json.dumps([rd.writer_schema, rows], default=repr, sort_keys=True).encode())
        except Exception as e:  # noqa: BLE001
            out["errors"].append(["hash", fmt, type(e).__name__, repr(e)[:200]])
        try:
            rd = RecordReader(uri)
            got = list(rd)
            rd.close()
        except Exception as e:  # noqa: BLE001
            out["errors"].append(["read", fmt, type(e).__name__, repr(e)[:200]])
            continue
        rows, lists = [], []
        for r in got:
            if hasattr(r, "tl"):
                lists.append([int(r.i), [model.observe_dt(v) for v in r.tl]])
            else:
                rows.append([None if r.i is None else int(r.i), None if r.ts is None else model.observe_dt(r.ts),
                             None if r.ts2 is None else model.observe_dt(r.ts2),
                             None if r._generated is None else model.observe_dt(r._generated)])
        out["read"][fmt] = rows
        out["read_list"][fmt] = lists

    # timestamps next to values an adapter refuses or treats specially: every record written on its own
    BIGS = [2**63, -(2**63) - 1, 10**40, 2**63 - 1, None, 2**64]
    M = RecordDescriptor("verif/c13mixed", [("datetime", "ts"), ("varint", "i"), ("varint", "big"), ("string", "s")])
    out["mixed"] = {}
    nm = min(n, 18)
    for fmt, uri in (("stream", os.path.join(workdir, "m.records")), ("json", os.path.join(workdir, "m.json")),
                     ("sqlite", "sqlite://" + os.path.join(workdir, "m.db")), ("avro", "avro://" + os.path.join(workdir, "m.avro"))):
        res = {"refused": [], "accepted": [], "rows": None, "error": None}
        out["mixed"][fmt] = res
        try:
            w = RecordWriter(uri)
            for i in range(nm):
                try:
                    r = M(ts=model.build(specs[i], ft), i=i, big=BIGS[i % len(BIGS)], s="lone\udcffescape" if i % 5 == 4 else "s", _generated=GEN)
                except Exception as e:  # noqa: BLE001
                    out["errors"].append(["construct-mixed", i, type(e).__name__, repr(e)[:200]])
                    continue
                if fmt == "avro" and (r.ts is None or not model.utc_representable(model.observe_dt(r.ts))):
                    continue
                try:
                    w.write(r)
                    res["accepted"].append(i)
                except Exception as e:  # noqa: BLE001 - refused by the adapter
                    res["refused"].append([i, type(e).__name__])
            w.flush()
            w.close()
            if res["accepted"]:
                rd = RecordReader(uri)
                res["rows"] = [[None if r.i is None else int(r.i), None if r.ts is None else model.observe_dt(r.ts),
                                None if r._generated is None else model.observe_dt(r._generated)] for r in rd]
                rd.close()
            else:
                res["rows"] = []
        except Exception as e:  # noqa: BLE001
            res["error"] = [type(e).__name__, repr(e)[:200]]

    # comparisons, ordering, equality of records, selector matches: must not depend on the display setting
    m = min(n, 40)
    vs = values[:m]
    cmp = {}
    cmp["eq"] = [guarded(lambda a=a, b=b: a == b) for a in vs for b in vs]
    cmp["lt"] = [guarded(lambda a=a, b=b: a < b) for a in vs for b in vs if a is not None and b is not None]
    cmp["le"] = [guarded(lambda a=a, b=b: a <= b) for a in vs[:15] for b in vs[:15] if a is not None and b is not None]
    idx = [i for i, v in enumerate(values) if v is not None]
    cmp["sorted"] = guarded(lambda: sorted(idx, key=lambda i: (values[i], i)))
    cmp["min"] = guarded(lambda: min(idx, key=lambda i: (values[i], i)))
    cmp["max"] = guarded(lambda: max(idx, key=lambda i: (values[i], -i)))
    cmp["hash_eq"] = [guarded(lambda a=a, b=b: hash(a) == hash(b)) for a in vs[:15] for b in vs[:15] if a is not None and b is not None]
    cmp["rec_eq"] = [guarded(lambda a=a, b=b: a == b) for a in records[:12] for b in records[:12]]
    cmp["py_eq"] = [guarded(lambda a=a: a == model.build(specs[k], ft)) for k, a in enumerate(vs)
                    if not specs[k]["form"].startswith(("iso", "epoch"))]
    # the same instant expressed with another UTC offset (built from the stdlib input, outside the library)
    import datetime as _dt

    shifted = []
    for k, a in enumerate(vs):
        try:
            if a is None or a.utcoffset() is None:
                raise ValueError("unset or naive value: nothing to shift")
            ref = model.build(specs[k], None) if specs[k]["form"] in ("obj", "objsub") else _dt.datetime(*model.observe_dt(a)[:7], tzinfo=_dt.timezone(
                _dt.timedelta(microseconds=model.observe_dt(a)[7])))
            if ref.tzinfo is None:
                ref = ref.replace(tzinfo=_dt.timezone.utc)
            other = ref.astimezone(_dt.timezone(_dt.timedelta(hours=5, minutes=45) if k % 2 else _dt.timedelta(hours=-9, seconds=-30)))
        except Exception:  # noqa: BLE001 - no shifted twin for this value
            other = None
        shifted.append(other)
    cmp["eq_shifted_py"] = [guarded(lambda a=a, b=b: a == b) for a, b in zip(vs, shifted) if a is not None and b is not None]
    cmp["eq_shifted_field"] = [guarded(lambda a=a, b=b: a == ft.datetime(b)) for a, b in zip(vs, shifted) if a is not None and b is not None]
    cmp["ne_shifted_field"] = [guarded(lambda a=a, b=b: a != ft.datetime(b)) for a, b in zip(vs, shifted) if a is not None and b is not None]
    cmp["set_shifted_field"] = [guarded(lambda a=a, b=b: len({a, ft.datetime(b)})) for a, b in zip(vs, shifted) if a is not None and b is not None]
    for name, cls in (("sel", Selector), ("csel", CompiledSelector)):
        for expr in ("r.ts < r.ts2", "r.ts == r.ts2", "r.ts >= r.ts2"):
            try:
                sel = cls(expr)
            except Exception as e:  # noqa: BLE001
                cmp[name + ":" + expr] = "raise:" + type(e).__name__
                continue
            cmp[name + ":" + expr] = [guarded(lambda r=r: bool(sel.match(r))) for r in records[:m]
                                      if r.ts is not None and r.ts2 is not None]
    # strftime-style formatting and template-placed files: which FILES are written must not depend on the display setting
    cmp["fmt_hour"] = [guarded(lambda v=v: format(v, "%Y-%m-%dT%H")) for v in values[:24] if v is not None]
    cmp["fmt_fstring"] = [guarded(lambda v=v: f"{v:%H}|{v:%d}") for v in values[:24] if v is not None]
    cmp["fmt_method"] = [guarded(lambda v=v: "{:%Y%m%d}".format(v)) for v in values[:24] if v is not None]
    import datetime as _dtm

    arch = os.path.join(workdir, "arch")
    try:
        off = _dtm.timezone(_dtm.timedelta(hours=5, minutes=30))
        base_t = _dtm.datetime(2023, 10, 28, 22, 40, tzinfo=off)
        aw = RecordWriter("archive://" + arch)
        for k in range(16):
            # ascending instants 25 minutes apart around hour and day boundaries (one fixed offset: the path never goes back)
            aw.write(T(ts=base_t, i=k, s="a%d" % k, _generated=base_t + _dtm.timedelta(minutes=25 * k)))
        aw.close()
        files = []
        for root, _, names in os.walk(arch):
            for nm in names:
                full = os.path.join(root, nm)
                rd = RecordReader(full)
                files.append([os.path.relpath(full, arch), [int(r.i) for r in rd]])
                rd.close()
        cmp["archive_files"] = sorted(files)
    except Exception as e:  # noqa: BLE001
        cmp["archive_files"] = "raise:" + type(e).__name__
    out["cmp"] = cmp

    out["str"] = [guarded(lambda v=v: str(v)) for v in values[:12]]
    out["repr_record"] = guarded(lambda: repr(records[0]))
    out["display_tzinfo"] = repr(getattr(ft, "DISPLAY_TZINFO", "<absent>"))
    out["tzname"] = list(time.tzname)
    out["env"] = {"FLOW_RECORD_TZ": os.environ.get("FLOW_RECORD_TZ"), "TZ": os.environ.get("TZ")}
    out["flow_record_file"] = os.path.dirname(os.path.abspath(ft.__file__))
    sys.stdout.write("C13WORKER " + json.dumps(out) + "\n")
    return 0


if __name__ == "__main__":
    sys.exit(main(sys.argv[1:]))
