"""Cold child interpreter of C09 (run as `python -m verif.child_c09`, job as JSON on stdin, outcomes as JSON on stdout).

The expressions of the job are evaluated IN ORDER by fresh Selector objects on one canary record; the first one is the very
first selector this interpreter ever evaluates (nothing before it touches a Call node of the selector engine), so process-
wide state that is filled lazily "by the first selector that ..." is filled by a hostile one.

Per expression: {"raised": exception class name or None, "at": "construction" | "match" | None,
                 "interpreter_calls": [[value type, method], ...]   named canary methods invoked by interpreter code,
                 "other_named_calls": [[value type, method, root], ...]}
"""
from __future__ import annotations

import json
import sys
import warnings

import verif.cli  # noqa: F401 - puts $VERIF_REPO in front of sys.path exactly like the check itself


def main():
    warnings.simplefilter("ignore")
    job = json.load(sys.stdin)
    import flow.record.selector as S

    from verif import canary_c09 as cn
    from verif import refselector

    cn.configure(S, refselector.HELPERS)
    rec = cn.standin_record() if job["rec"] == "standin" else cn.real_canary_record()
    out = []
    for expr in job["exprs"]:
        ent = {"raised": None, "at": None, "interpreter_calls": [], "other_named_calls": []}
        try:
            sel = S.Selector(expr)
        except Exception as e:  # noqa: BLE001
            ent.update(raised=type(e).__name__, at="construction")
            out.append(ent)
            continue
        cn.arm()
        try:
            sel.match(rec)
        except Exception as e:  # noqa: BLE001
            ent.update(raised=type(e).__name__, at="match")
        finally:
            log = cn.disarm()
        for e in log:
            if e[0] != "call":
                continue
            if e[3] == "interpreter":
                ent["interpreter_calls"].append([e[1], e[2]])
            else:
                ent["other_named_calls"].append([e[1], e[2], list(e[5][:2]) if e[5] else None])
        out.append(ent)
    json.dump({"results": out}, sys.stdout)


if __name__ == "__main__":
    main()
