"""Probes that attach to the real code from outside (DESIGN 3.6): wrappers with evaluation counters, exec spy,
audit-hook tripwires, sys.monitoring reach counters and call watchers."""
from __future__ import annotations

import functools
import sys
import threading
from collections import Counter

# ---- wrap: contract-style wrapper on a module / class attribute --------------------------------------
_WRAPPED = []


def wrap(owner, name, pre=None, post=None, counter=None, key=None):
    """Replace owner.name by a wrapper calling pre(args, kwargs) and post(result, exc, args, kwargs).
    Returns the original.  counter[key] counts evaluations (zero => the monitor never ran => inconclusive)."""
    orig = getattr(owner, name)
    key = key or "%s.%s" % (getattr(owner, "__name__", owner), name)

    @functools.wraps(orig)
    def wrapper(*args, **kwargs):
        if counter is not None:
            counter[key] += 1
        if pre is not None:
            pre(args, kwargs)
        try:
            result = orig(*args, **kwargs)
        except BaseException as e:
            if post is not None:
                post(None, e, args, kwargs)
            raise
        if post is not None:
            post(result, None, args, kwargs)
        return result

    setattr(owner, name, wrapper)
    _WRAPPED.append((owner, name, orig))
    return orig


def unwrap_all():
    while _WRAPPED:
        owner, name, orig = _WRAPPED.pop()
        try:
            setattr(owner, name, orig)
        except Exception:
            pass


# ---- ExecSpy: shadow the module-level name `exec` in flow.record.base ------------------------------
class ExecSpy:
    """Records every source string handed to exec() by flow.record.base (no repository change: a module global
    named `exec` shadows the builtin for code in that module)."""

    def __init__(self):
        self.sources = []
        self.installed = False

    def install(self):
        import builtins

        import flow.record.base as base

        spy = self

        def exec_(source, globals_=None, locals_=None):
            spy.sources.append(source)
            if locals_ is None:
                return builtins.exec(source, globals_)
            return builtins.exec(source, globals_, locals_)

        base.exec = exec_
        self.installed = True
        return self

    def uninstall(self):
        import flow.record.base as base

        if "exec" in base.__dict__:
            del base.__dict__["exec"]
        self.installed = False

    def drain(self):
        out, self.sources = self.sources, []
        return out


# ---- Audit: one process-wide audit hook with scoped subscriptions -----------------------------------
class Audit:
    _installed = False
    _subs = []
    _lock = threading.Lock()

    @classmethod
    def _hook(cls, event, args):
        subs = cls._subs
        if not subs:
            return
        for events, fn in list(subs):
            if event in events:
                try:
                    fn(event, args)
                except Exception:
                    pass

    @classmethod
    def subscribe(cls, events, fn):
        with cls._lock:
            if not cls._installed:
                sys.addaudithook(cls._hook)
                cls._installed = True
            ent = (frozenset(events), fn)
            cls._subs.append(ent)
        return ent

    @classmethod
    def unsubscribe(cls, ent):
        with cls._lock:
            if ent in cls._subs:
                cls._subs.remove(ent)


class AuditLog:
    """Context manager collecting audit events of the given kinds."""

    def __init__(self, events, filter=None):
        self.events_wanted = events
        self.filter = filter
        self.log = []

    def __enter__(self):
        def fn(event, args):
            if self.filter is None or self.filter(event, args):
                self.log.append((event, tuple(repr(a)[:200] for a in args)))

        self.ent = Audit.subscribe(self.events_wanted, fn)
        return self

    def __exit__(self, *exc):
        Audit.unsubscribe(self.ent)
        return False


# ---- Reach: sys.monitoring PY_START counters on anchor code objects ---------------------------------
def _resolve(qualname):
    """'flow.record.packer:RecordPacker.pack_obj' -> code object or None (tolerant of refactorings)."""
    import importlib

    modname, _, attrpath = qualname.partition(":")
    try:
        obj = importlib.import_module(modname)
        for part in attrpath.split("."):
            obj = getattr(obj, part)
    except Exception:
        return None
    obj = getattr(obj, "__func__", obj)
    obj = getattr(obj, "__wrapped__", obj)
    return getattr(obj, "__code__", None)


class Reach:
    """Counts entries into the anchor functions of a property; evidence that the mechanism was actually exercised."""

    TOOL = 2  # sys.monitoring.PROFILER_ID

    def __init__(self, qualnames):
        self.counts = Counter()
        self.names = {}
        self.missing = []
        self.active = False
        mon = getattr(sys, "monitoring", None)
        if mon is None:
            return
        try:
            mon.use_tool_id(self.TOOL, "verif-reach")
        except ValueError:
            pass
        for q in qualnames:
            code = _resolve(q)
            if code is None:
                self.missing.append(q)
                continue
            self.names[code] = q
        mon.register_callback(self.TOOL, mon.events.PY_START, self._cb)
        for code in self.names:
            mon.set_local_events(self.TOOL, code, mon.events.PY_START)
        self.active = True

    def _cb(self, code, offset):
        q = self.names.get(code)
        if q is not None:
            self.counts[q] += 1

    def stop(self):
        mon = getattr(sys, "monitoring", None)
        if mon is None or not self.active:
            return
        for code in self.names:
            try:
                mon.set_local_events(self.TOOL, code, 0)
            except Exception:
                pass
        try:
            mon.register_callback(self.TOOL, mon.events.PY_START, None)
            mon.free_tool_id(self.TOOL)
        except Exception:
            pass
        self.active = False

    def into(self, ctx):
        for q in self.names.values():
            ctx.reach[q] += self.counts.get(q, 0)
        for q in self.missing:
            ctx.reach.setdefault(q + " (not found)", 0)


# ---- CallWatch: which callables does a module's code actually invoke -------------------------------
class CallWatch:
    """sys.monitoring CALL events on every code object of a module (nested functions included)."""

    TOOL = 3  # sys.monitoring.OPTIMIZER_ID is 5; 3 is free for tools

    def __init__(self, module):
        self.calls = []
        self.active = False
        self.codes = []
        mon = getattr(sys, "monitoring", None)
        if mon is None:
            return
        try:
            mon.use_tool_id(self.TOOL, "verif-callwatch")
        except ValueError:
            pass

        def walk(code):
            self.codes.append(code)
            for c in code.co_consts:
                if hasattr(c, "co_code"):
                    walk(c)

        for v in list(vars(module).values()):
            fn = getattr(v, "__func__", v)
            code = getattr(fn, "__code__", None)
            if code is not None and getattr(fn, "__module__", None) == module.__name__:
                walk(code)
            if isinstance(v, type) and v.__module__ == module.__name__:
                for m in vars(v).values():
                    m = getattr(m, "__func__", m)
                    code = getattr(m, "__code__", None)
                    if code is not None:
                        walk(code)
        mon.register_callback(self.TOOL, mon.events.CALL, self._cb)
        for code in self.codes:
            mon.set_local_events(self.TOOL, code, mon.events.CALL)
        self.active = True

    def _cb(self, code, offset, callable_, arg0):
        self.calls.append(callable_)

    def drain(self):
        out, self.calls = self.calls, []
        return out

    def stop(self):
        mon = getattr(sys, "monitoring", None)
        if mon is None or not self.active:
            return
        for code in self.codes:
            try:
                mon.set_local_events(self.TOOL, code, 0)
            except Exception:
                pass
        try:
            mon.register_callback(self.TOOL, mon.events.CALL, None)
            mon.free_tool_id(self.TOOL)
        except Exception:
            pass
        self.active = False
