"""C05 cold-process child: serialise records of ONE field type in an interpreter that has imported nothing of flow.record but
`from flow.record import RecordDescriptor` (and then the packer / writer in use), before anything else touched the field type
modules.  Usage: python -m verif.child_c05   (job as JSON on stdin: {"type", "seed", "dir"}; one line `C05CHILD <json>` on stdout).

`run_job` is also called by the parent in its own (warm) interpreter: the parent compares the two outcome lists.  Nothing is
decided here."""
from __future__ import annotations

import datetime as _dt
import hashlib
import json
import os
import random
import sys

STAMP = _dt.datetime(2021, 1, 2, 3, 4, 5, 6, tzinfo=_dt.timezone.utc)
# writer adapters that need no third-party module
WRITERS = [("stream-file", "{d}/o.records"), ("jsonfile", "{d}/o.jsonl"), ("csvfile", "csvfile://{d}/o.csv"), ("line", "line://{d}/o.line"), ("text", "text://{d}/o.txt"),
           ("sqlite", "sqlite://{d}/o.sqlite")]


def values_for(ftype, rng):
    """plain, everyday inputs for one field type (no flow.record import needed to build them)"""
    base = ftype[:-2] if ftype.endswith("[]") else ftype
    table = {
        "boolean": [True, False], "uint16": [80, 0], "uint32": [443, 2**31], "net.tcp.Port": [80, 65535], "net.udp.Port": [53, 0], "varint": [7, -(2**70)], "filesize": [1024, 0],
        "unix_file_mode": [0o644, 0], "float": [1.5, -0.0], "string": ["text", "R\u00e9my \u65e5\u672c"], "wstring": ["w", ""], "uri": ["http://example.com/x?q=1", ""],
        "bytes": [b"\x00\xffab", b""], "datetime": [STAMP, _dt.datetime(1999, 12, 31, 23, 59, 59)], "digest": [("d41d8cd98f00b204e9800998ecf8427e", None, None), (None, None, "00" * 32)],
        "net.ipaddress": ["1.2.3.4", "2001:db8::1"], "net.IPAddress": ["10.0.0.1", "::1:0:0"], "net.ipnetwork": ["10.0.0.0/8", "2001:db8::/32"], "net.IPNetwork": ["192.168.1.0/24", "::/0"],
        "net.ipv4.Address": ["1.2.3.4", 1], "path": ["/a/b c", "c:\\windows\\x"], "command": ["ls -la /tmp", "c:\\windows\\system32\\cmd.exe /c dir"], "stringlist": [["a", "b"], []],
        "dictlist": [[{"a": 1, "b": "s"}], []], "dynamic": ["s", 5], "record": ["<inner>", None],
    }
    vals = list(table[base])
    if ftype.endswith("[]"):
        return [vals, [vals[0]], []]
    return vals + [None]


def run_job(job):
    """-> {"steps": [[name, outcome, digest-or-text]], ...}; flow.record imports happen here, in this order"""
    import warnings

    warnings.simplefilter("ignore")
    ftype, d = job["type"], job["dir"]
    rng = random.Random(job["seed"])
    out = {"type": ftype, "steps": []}
    from flow.record import RecordDescriptor  # the ONLY import before the record type exists

    out["net_modules_at_start"] = sorted(m for m in sys.modules if m.startswith("flow.record.fieldtypes.net"))
    try:
        desc = RecordDescriptor("c05/cold", [(ftype, "f"), ("string", "label")])
        inner = RecordDescriptor("c05/coldinner", [("string", "i")])
        recs = []
        for i, v in enumerate(values_for(ftype, rng)):
            if ftype.startswith("record"):
                mk = lambda x: inner(i="in", _generated=STAMP) if x == "<inner>" else x  # noqa: E731
                v = [mk(x) for x in v] if isinstance(v, list) else mk(v)
            recs.append(desc(f=v, label="r%d" % i, _generated=STAMP))
        out["steps"].append(["construct", "ok", len(recs)])
    except Exception as e:  # noqa: BLE001
        out["steps"].append(["construct", "raise:" + type(e).__name__, None])
        return out

    def step(name, fn):
        try:
            out["steps"].append([name, "ok", fn()])
        except Exception as e:  # noqa: BLE001
            out["steps"].append([name, "raise:" + type(e).__name__, None])

    def stream_pack():
        from flow.record import RecordPacker

        p = RecordPacker()
        return [p.pack(r).hex() for r in recs]

    def json_pack():
        from flow.record import JsonRecordPacker

        p = JsonRecordPacker()
        return [p.pack(r) for r in recs]

    def written(target):
        from flow.record import RecordWriter

        path = target.split("://", 1)[-1]
        w = RecordWriter(target)
        try:
            for r in recs:
                w.write(r)
            w.flush()
        finally:
            w.close()
        if target.startswith("sqlite://"):
            import sqlite3

            con = sqlite3.connect(path)
            try:
                tables = [row[0] for row in con.execute("select name from sqlite_master where type='table' order by name")]
                return [[t, con.execute('select count(*) from "%s"' % t).fetchone()[0]] for t in tables]
            finally:
                con.close()
        with open(path, "rb") as f:
            return hashlib.sha256(f.read()).hexdigest()

    order = list(job.get("order") or ["json", "stream"] + [w for w, _ in WRITERS])
    for name in order:
        if name == "stream":
            step("stream", stream_pack)
        elif name == "json":
            step("json", json_pack)
        else:
            target = dict(WRITERS)[name].format(d=d)
            step("writer:" + name, lambda: written(target))
    out["net_modules_at_end"] = sorted(m for m in sys.modules if m.startswith("flow.record.fieldtypes.net"))
    return out


def main():
    job = json.load(sys.stdin)
    repo = os.environ.get("VERIF_REPO", "/repo")
    if os.path.realpath(repo) != "/repo":
        sys.path.insert(0, repo)  # scratch copy of a mutant run
    out = run_job(job)
    import flow.record

    out["flow_record_file"] = flow.record.__file__
    sys.stdout.write("C05CHILD " + json.dumps(out) + "\n")


if __name__ == "__main__":
    main()
