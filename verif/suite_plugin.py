"""pytest plugin (DESIGN 3.7): the C05 typed-slot invariant as an online monitor while the repository's own suite runs.

    cd $VERIF_REPO && PYTHONPATH=/verif VERIF_SUITE_OUT=/var/tmp/frv-.../suite.json python -m pytest -p verif.suite_plugin ...

Every generated record class gets a post-condition on __init__ (construction by the user, by _replace, by every reader /
unpacker): all slots are None / empty default or instances of the declared type.  The monitor never raises into the test;
it counts and writes a summary at the end of the session.  Nothing is written under the repository.
"""
from __future__ import annotations

import functools
import json
import os

STATE = {"classes_instrumented": 0, "constructions": 0, "checked": 0, "violations": [], "monitor_errors": [], "violation_count": 0}


def _instrument(cls, observe, seen):
    init = cls.__dict__.get("__init__")
    if init is None or cls in seen:
        return
    seen.add(cls)

    @functools.wraps(init)
    def __init__(self, *args, **kwargs):
        init(self, *args, **kwargs)
        STATE["constructions"] += 1
        try:
            _assert_typed(self, observe)
            STATE["checked"] += 1
        except observe.Untyped as e:
            STATE["violation_count"] += 1
            if len(STATE["violations"]) < 20:
                STATE["violations"].append({"error": str(e), "test": os.environ.get("PYTEST_CURRENT_TEST", "?")})
        except Exception as e:  # noqa: BLE001 - the monitor must never break a test
            if len(STATE["monitor_errors"]) < 10:
                STATE["monitor_errors"].append({"error": repr(e)[:300], "test": os.environ.get("PYTEST_CURRENT_TEST", "?")})

    cls.__init__ = __init__
    STATE["classes_instrumented"] += 1


def _assert_typed(r, observe):
    """observe.assert_typed, except that a record[] list may hold None: `record` is the documented pass-through type
    (record(None) is None) and the repository's own tests store None there (test_record_in_records)."""
    import flow.record.base as base
    import flow.record.fieldtypes as ft

    types = observe.declared_types(r)
    for k in r.__slots__:
        v = getattr(r, k)
        t = types.get(k)
        if v is None or t is None:
            continue
        if getattr(t, "__type__", None) is ft.record and isinstance(v, t):
            for i, e in enumerate(v):
                if e is None:
                    STATE["record_list_none_elements"] = STATE.get("record_list_none_elements", 0) + 1
                elif not isinstance(e, base.Record):
                    raise observe.Untyped("suite slot %s[%d] of %s holds %s" % (k, i, r._desc.name, type(e).__name__))
                else:
                    observe.assert_typed(e, "suite")
            continue
        observe._check_value(k, v, t, r, "suite")


def install():
    import flow.record.base as base

    from verif import observe

    seen = set()
    orig = base._generate_record_class

    @functools.wraps(orig)
    def generate(*args, **kwargs):
        cls = orig(*args, **kwargs)
        try:
            _instrument(cls, observe, seen)
        except Exception as e:  # noqa: BLE001
            STATE["monitor_errors"].append({"error": repr(e)[:300], "test": "instrument"})
        return cls

    for attr in ("cache_info", "cache_clear", "cache_parameters"):
        if hasattr(orig, attr):
            setattr(generate, attr, getattr(orig, attr))
    base._generate_record_class = generate

    def walk(c):
        for sub in c.__subclasses__():
            if sub is not base.GroupedRecord:
                _instrument(sub, observe, seen)
            walk(sub)

    walk(base.Record)  # classes generated before the plugin was loaded


def pytest_configure(config):
    install()


def pytest_sessionfinish(session, exitstatus):
    out = os.environ.get("VERIF_SUITE_OUT")
    if not out:
        return
    STATE["pytest_exitstatus"] = int(exitstatus)
    with open(out, "w") as f:
        json.dump(STATE, f)
